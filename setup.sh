#!/bin/sh
# Offline setup: third-party Python deps of the harness (numpy for generated Python code, jsonschema for evidence).
set -e
HERE="$(cd "$(dirname "$0")" && pwd)"
if ! PYTHONPATH="$HERE/_deps" /venv/bin/python -c 'import numpy, jsonschema' 2>/dev/null; then
  rm -rf "$HERE/_deps"
  PIP_NO_INDEX=1 /venv/bin/pip install -q --no-index --find-links /opt/veriftools/wheels --target "$HERE/_deps" numpy jsonschema
fi
PYTHONPATH="$HERE/_deps" /venv/bin/python -c 'import numpy, jsonschema; print("deps ok", numpy.__version__)'
