"""
C19, lexer sub-spaces of oracle 1 (ordinary templates, bundled engine vs stock Jinja2): every alternative of the lexer's
root rule - comment, block, variable, raw, line statement, line comment - under every combination of trim_blocks x
lstrip_blocks x keep_trailing_newline, compared in RENDERING and in the parser-visible TOKEN STREAM
(c19_twin.lex_norm).

space "line": environments with line_statement_prefix in {None, '#', '%%'} x line_comment_prefix in {None, '##', '//'}
    (alone and together) x the 8 whitespace-option combinations x {LF, CRLF} x {final newline kept, removed}; templates
    are sequences of line-oriented elements in which line statements / line comments stand before, between and AFTER
    the last brace-style tag, templates made of line statements only, statements with a trailing ':', prefixes that are
    indented or not followed by a blank, line comments trailing a data line, and a raw section containing the prefixes.
    Where a prefix is not configured the same characters are ordinary text.
space "raw": `{% raw %}` sections - opening tag plain / `{%- raw`, `raw -%}`, both, and `{%+ raw` (lstrip_blocks on) x
    what follows it (nothing, newline, text, blanks+newline) x content (expression, nested tags and stray braces, empty)
    x what precedes the end tag x end tag with the same whitespace control x what follows (nothing, newline, text, ...)
    x what precedes the section x the 8 whitespace-option combinations x {LF, CRLF}.

space "history": [<=2 earlier templates ; ordinary template] compiled one after the other in one process - the earlier
    templates ("events") are refused by the lexer (unterminated raw / block / variable / comment, bad character or string),
    refused by the parser (unknown tag, missing / mismatched / stray end tag, bad expression), fail while rendering,
    render, or are token streams abandoned after k tokens, each with and without the auto-indent marker; x 13 ordinary
    templates (first text chunk with one / several / blank / indented lines, tag first, raw first, include, empty) x the
    5 flag sets x {LF, CRLF} x {same Environment, new Environment with equal options (same memoised lexer), new
    Environment with other options}.  Every chain of histories runs in a forked child; the ordinary template must render
    as stock renders it, whatever was compiled before.

Demand (the property's first sentence): same text, or failure where stock fails; and - as fixed by the coordinator - the
same parser-visible token stream wherever stock lexes and renders the template.
"""
from __future__ import annotations

import itertools
import typing

from vf import c19_twin as tw
from vf.core import Bag, HarnessError

CTXS = tw.contexts()
WS_OPTS = ("trim_blocks", "lstrip_blocks", "keep_trailing_newline")
WS8: typing.List[typing.Tuple[str, ...]] = [
    tuple(o for o, on in zip(WS_OPTS, bits) if on) for bits in itertools.product((False, True), repeat=3)
]
LP9: typing.List[typing.Tuple[typing.Optional[str], typing.Optional[str]]] = [
    (None, None),
    ("#", "##"),
    ("%%", "//"),
    ("#", None),
    ("%%", None),
    (None, "##"),
    (None, "//"),
    ("#", "//"),
    ("%%", "##"),
]
LP_CORE = LP9[:3]


def ws_name(ws: typing.Sequence[str]) -> str:
    return "+".join(ws) if ws else "no_whitespace_option"


def make_opts(ws: typing.Sequence[str], ls: typing.Optional[str], lc: typing.Optional[str]) -> tw.Flags:
    o: typing.List[typing.Tuple[str, typing.Any]] = [(w, True) for w in ws]
    if ls is not None:
        o.append(("line_statement_prefix", ls))
    if lc is not None:
        o.append(("line_comment_prefix", lc))
    return tuple(sorted(o))


# ---------------------------------------------------------------------------------------------------- space "line"
# S = line statement prefix, C = line comment prefix (or the text that stands for them when not configured)
LINE_ELEMS: typing.List[typing.Tuple[str, str]] = [
    ("l_text", "text\n"),
    ("l_expr", "  {{ v }} tail\n"),
    ("l_comment", "{# c #}\n"),
    ("l_block", "{% if b %}\nB\n{% endif %}\n"),
    ("l_raw", "{% raw %}\n{{ x }} S if C r\n{% endraw %}\n"),
    ("s_if", "S if b\nyes\nS endif\n"),
    ("s_if_colon", "S if b:\nyes\nS else:\nno\nS endif\n"),
    ("s_for_expr", "S for i in l\n- {{ i }}\nS endfor\n"),
    ("s_for_indented", "  S for i in l\nitem\n  S endfor\n"),
    ("s_set", "S set z = n + 1\n"),
    ("s_set_use", "S set y = 2\ny={{ y }}\n"),
    ("s_nospace", "Sif n\nN\nSendif\n"),
    ("s_stray", "S endfor\n"),
    ("c_trail", "data C remark\n"),
    ("c_own", "C own line\n"),
    ("c_indented", "   C indented {{ v }}\n"),
]
LINE_CORE7 = ["l_text", "l_expr", "l_block", "l_raw", "s_if", "s_for_expr", "c_trail"]
_LINE = dict(LINE_ELEMS)


def line_source(case: dict) -> str:
    s_txt = case["ls"] if case["ls"] is not None else "#"
    c_txt = case["lc"] if case["lc"] is not None else "//"
    src = "".join(_LINE[n] for n in case["elems"]).replace("S", s_txt).replace("C", c_txt)
    if not case["final_newline"] and src.endswith("\n"):
        src = src[:-1]
    return src


def line_space() -> typing.Iterator[typing.Tuple[dict, bool]]:
    names = [n for n, _ in LINE_ELEMS]
    seqs: typing.List[typing.Tuple[str, ...]] = [(a,) for a in names]
    seqs += list(itertools.product(names, repeat=2))
    n_short = len(seqs)
    seqs += list(itertools.product(LINE_CORE7, repeat=3))
    for k, seq in enumerate(seqs):
        for ls, lc in LP9:
            for ws in WS8:
                for le in tw.LINE_ENDINGS:
                    for final in (True, False):
                        # quick core: all sequences of <=2 under both fully configured prefix pairs, the sequences of
                        # brace-only elements without any prefix; LF, final newline kept; all 8 whitespace combinations
                        core = (
                            k < n_short
                            and le == "lf"
                            and final
                            and ((ls, lc) in LP_CORE[1:] or ((ls, lc) == LP_CORE[0] and all(n.startswith("l_") for n in seq)))
                        )
                        yield {
                            "oracle": "lexer",
                            "space": "line",
                            "elems": list(seq),
                            "ls": ls,
                            "lc": lc,
                            "ws": list(ws),
                            "le": le,
                            "final_newline": final,
                        }, core


# ---------------------------------------------------------------------------------------------------- space "raw"
RAW_PARTS: typing.Dict[str, typing.List[typing.Tuple[str, str]]] = {  # first entry = the default of the part
    "lead": [("none", ""), ("line", "a\n"), ("indent", "  "), ("text_blank", "a ")],
    "open": [
        ("plain", "{% raw %}"),
        ("lminus", "{%- raw %}"),
        ("rminus", "{% raw -%}"),
        ("minus", "{%- raw -%}"),
        ("plus", "{%+ raw %}"),  # only with lstrip_blocks (see the excluded constructs of vf/checks/c19.py)
    ],
    "after_open": [("none", ""), ("nl", "\n"), ("text", "x"), ("blanks_nl", " \n  ")],
    "content": [("expr", "{{ v }}"), ("nested", "{% if %}{# c #} { { } %} #} {%* q %}"), ("empty", "")],
    "before_close": [("none", ""), ("nl", "\n"), ("indent", "\n  ")],
    "close": [
        ("plain", "{% endraw %}"),
        ("lminus", "{%- endraw %}"),
        ("rminus", "{% endraw -%}"),
        ("minus", "{%- endraw -%}"),
    ],
    "after_close": [("none", ""), ("nl", "\n"), ("text", "t"), ("nl_rest", "\nrest\n"), ("blanks_nl", "  \n")],
}
RAW_ORDER = ["lead", "open", "after_open", "content", "before_close", "close", "after_close"]


def raw_source(case: dict) -> str:
    return "".join(dict(RAW_PARTS[p])[case["parts"][p]] for p in RAW_ORDER)


def raw_space() -> typing.Iterator[typing.Tuple[dict, bool]]:
    for combo in itertools.product(*[[n for n, _ in RAW_PARTS[p]] for p in RAW_ORDER]):
        parts = dict(zip(RAW_ORDER, combo))
        non_default = [p for p in RAW_ORDER if parts[p] != RAW_PARTS[p][0][0]]
        for ws in WS8:
            if parts["open"] == "plus" and "lstrip_blocks" not in ws:
                continue
            for le in tw.LINE_ENDINGS:
                # quick core: at most two parts differ from the plainest section `{% raw %}{{ v }}{% endraw %}`
                core = le == "lf" and len(non_default) <= 2
                yield {"oracle": "lexer", "space": "raw", "parts": parts, "ws": list(ws), "le": le}, core


# ---------------------------------------------------------------------------------------------------- space "history"
# HISTORIES of compilations in one process: [event ; ... ; ordinary template].  An event is a template given to the
# bundled engine before the ordinary one: refused by the lexer (unterminated raw / block / variable / comment section,
# bad character, bad string), refused by the parser (unknown tag, missing / mismatched / stray end tag, bad expression),
# failing while it renders, rendered successfully, or a token stream that is abandoned after k tokens - each with and
# without the auto-indent marker.  The ordinary template (no marker) that follows must render as stock Jinja2 renders it:
# lexers are memoised per option set and shared by all Environments of the process, so anything an earlier template
# leaves behind in them shows in the next one.  Every history runs in a forked child (nothing leaks between histories
# or into the other spaces); a disagreement is confirmed from its recorded case in a fresh interpreter.
class Event(typing.NamedTuple):
    name: str
    cls: str  # class of the event (goes into the violation signature)
    src: str
    abandon_after: int = 0  # > 0: the template is only tokenised and the stream dropped after that many tokens


_MRAW_OK = "struct {\n    {%* raw %}\n{{a}}\n{{b}}\n{% endraw %}\n}\n"
_MFOR_OK = "  {%* for i in l %}{{ i }}\n{% endfor %}"
HIST_EVENTS: typing.List[Event] = [
    # refused while lexing
    Event("raw_open", "unterminated_raw", "x\n{% raw %}\n{{ a }}\n"),
    Event("mraw_open_4", "unterminated_marked_raw", "void f() {\n    {%* raw %}\n{{ forgot the endraw }}\n}\n"),
    Event("mraw_open_tab", "unterminated_marked_raw", "\t{%* raw %}r\n"),
    Event("mraw_open_0", "unterminated_marked_raw", "{%* raw %}\nr\n"),
    Event("mraw_open_bare", "unterminated_marked_raw", "  {%* raw %}"),
    Event("mraw_open_rctl", "unterminated_marked_raw", "  {%* raw -%}\n  r"),
    Event("mraw_closed_then_open", "unterminated_marked_raw", "  {%* raw %}a{% endraw %}\n\t{%* raw %}b"),
    Event("block_open", "unterminated_block", "a {% if b "),
    Event("mblock_open", "unterminated_marked_block", "a\n  {%* if b "),
    Event("var_open", "unterminated_variable", "a {{ v "),
    Event("mvar_open", "unterminated_marked_variable", "a\n  {{* v "),
    Event("comment_open", "unterminated_comment", "a {# c "),
    Event("mcomment_open", "unterminated_marked_comment", "a\n  {#* c "),
    Event("bad_char", "lexer_error_in_tag", "{{ v ? }}"),
    Event("mbad_char", "lexer_error_in_marked_tag", "  {{* v ? }}"),
    Event("bad_string", "lexer_error_in_tag", "{{ 'abc }}"),
    Event("mbad_string", "lexer_error_in_marked_tag", "  {%* if 'abc %}x{% endif %}"),
    # refused by the parser (the token stream is left half consumed)
    Event("unknown_tag", "unknown_tag", "t {% nosuchtag %} u\n"),
    Event("munknown_tag", "unknown_marked_tag", "t\n  {%* nosuchtag %} u\n"),
    Event("missing_end", "missing_end_tag", "{% for i in l %}x\n"),
    Event("mmissing_end", "missing_end_tag_of_marked_block", "  {%* for i in l %}x\n"),
    Event("mmismatched_end", "missing_end_tag_of_marked_block", "  {%* if b %}x\n{% endfor %}\n"),
    Event("mnested_open", "missing_end_tag_of_marked_block", "  {%* for i in l %}\n    {{* m }}\n"),
    Event("stray_end", "stray_end_tag", "x{% endif %}"),
    Event("mstray_end", "stray_marked_end_tag", "  {%* endif %}"),
    Event("bad_expr", "bad_expression", "{{ 1 + }}"),
    Event("mbad_expr", "bad_marked_expression", "  {{* 1 + }}"),
    Event("mraw_ok_then_unknown", "unknown_tag_after_marked_raw", "  {%* raw %}\nr\n{% endraw %}\n{% nosuchtag %}"),
    Event("mraw_empty_then_var_open", "unterminated_variable_after_marked_raw", "  {%* raw %}{% endraw %}{{ "),
    Event("mraw_in_open_block", "missing_end_tag_around_marked_raw", "{% if b %}\n  {%* raw %}\nr\n{% endraw %}\n"),
    # compiled, failing while rendering
    Event("mrender_undefined", "marked_expression_fails_rendering", "  {{* nope.x.y }}"),
    Event("mrender_in_block", "marked_block_fails_rendering", "  {%* for i in l %}{{ i }}\n{{ nope.x.y }}{% endfor %}"),
    Event("minclude_notfound", "marked_block_fails_rendering", "  {%* include 'nope' %}"),
    # rendered successfully
    Event("ok_mraw", "marked_raw_rendered", _MRAW_OK),
    Event("ok_mraw_empty", "marked_raw_rendered", "  {%* raw %}{% endraw %}"),
    Event("ok_mfor", "marked_block_rendered", _MFOR_OK),
    Event("ok_mexpr", "marked_expression_rendered", "a\n\t{{* m }}\n"),
    Event("ok_raw", "raw_rendered", "{% raw %}\nr\n{% endraw %}"),
    # token streams of well-formed templates, abandoned
    Event("abandon_mraw_1", "token_stream_abandoned_in_marked_raw", _MRAW_OK, 1),
    Event("abandon_mraw_2", "token_stream_abandoned_in_marked_raw", _MRAW_OK, 2),
    Event("abandon_mraw_3", "token_stream_abandoned_in_marked_raw", _MRAW_OK, 3),
    Event("abandon_mfor_1", "token_stream_abandoned_in_marked_block", _MFOR_OK, 1),
    Event("abandon_mfor_3", "token_stream_abandoned_in_marked_block", _MFOR_OK, 3),
    Event("abandon_raw_1", "token_stream_abandoned_in_raw", "  {% raw %}\nr\n{% endraw %}\n", 1),
]
_EVENT = {e.name: e for e in HIST_EVENTS}
HIST_ORDINARY: typing.List[typing.Tuple[str, str]] = [
    ("o_text_expr", "alpha\nbeta {{ v }}\ngamma\n"),
    ("o_for_first", "{% for i in l %}\nline {{ i }}\n{% endfor %}\ntail\n"),
    ("o_raw_first", "{% raw %}\n{{ not an expression }}\n{% endraw %}\nafter\n"),
    ("o_comment_first", "{# comment #}\nfirst\n  second\n"),
    ("o_one_line", "one line"),
    ("o_leading_blank_lines", "\n\nlead\n{{ n }}"),
    ("o_indented", "  indented\n\tmore\n{{ n }}\n"),
    ("o_trailing_blank_lines", "text\n\n"),
    ("o_expr_only", "{{ v }}"),
    ("o_include", "{% include 'inc' %}tail\nend"),
    ("o_if_else", "{% if b %}\n  yes\n{% else %}\n  no\n{% endif %}\n"),
    ("o_blanks_only", " \n\t\n"),
    ("o_empty", ""),
]
_ORD = dict(HIST_ORDINARY)
HIST_MODES = ("same_env", "new_env", "other_options_env")
HIST_FLAGS_CORE = ("plain", "trim+lstrip", "keep_trailing_newline")
_OTHER_FLAGS = {f: list(tw.FLAGS)[(i + 1) % len(tw.FLAGS)] for i, f in enumerate(tw.FLAGS)}
_DEMARK = (("{%*", "{%"), ("{{*", "{{"), ("{#*", "{#"))


def history_space() -> typing.Iterator[typing.Tuple[dict, bool]]:
    """(chain, in the quick core?). A chain = one sequence of <=2 events x Environment flags x line ending x sharing
    mode; it stands for the histories [events ; o] of every ordinary template o."""
    names = [e.name for e in HIST_EVENTS]
    for ev in names:
        for flags in tw.FLAGS:
            for le in tw.LINE_ENDINGS:
                for mode in HIST_MODES:
                    core = flags in HIST_FLAGS_CORE and le == "lf" and mode != "other_options_env"
                    yield {"oracle": "lexer", "space": "history", "events": [ev], "flags": flags, "le": le, "mode": mode}, core
    for pair in itertools.product(names, repeat=2):
        for flags in tw.FLAGS:
            for mode in HIST_MODES[:2]:
                yield {"oracle": "lexer", "space": "history", "events": list(pair), "flags": flags, "le": "lf", "mode": mode}, False


def _hist_env(flags: str, le: str) -> typing.Any:
    """A NEW Environment of the bundled engine (never the cached ones of c19_twin)."""
    mod = tw.engine_module("bundled")
    env = mod.Environment(loader=mod.DictLoader({k: tw.with_le(v, le) for k, v in tw.LOADER_LF.items()}), **tw.FLAGS[flags])
    env.c19_markup = tw.engine_markup("bundled")
    return env


def _hist_step(env: typing.Any, name: str, le: str) -> tw.Outcome:
    """Run one step (an event or an ordinary template) in the bundled engine."""
    if name in _ORD:
        return tw.render_env(env, tw.with_le(_ORD[name], le), [CTXS[0]])[0]
    ev = _EVENT[name]
    if not ev.abandon_after:
        return tw.render_env(env, tw.with_le(ev.src, le), [CTXS[0]])[0]
    try:
        stream = env.lexer.tokenize(tw.with_le(ev.src, le))  # a TokenStream: holds one token already
        for _ in range(ev.abandon_after - 1):
            next(stream)
        del stream
    except Exception as e:  # pylint: disable=broad-except
        return ("err", tw.family(e))
    return ("ok", "<abandoned>")


_wants: typing.Dict[typing.Tuple[str, str, str], tw.Outcome] = {}


def _hist_want(ordinary: str, oflags: str, le: str) -> tw.Outcome:
    """Stock's rendering of an ordinary template (the stock engine keeps no state between templates; memoised)."""
    key = (ordinary, oflags, le)
    if key not in _wants:
        _wants[key] = tw.render("stock", oflags, le, _ORD[ordinary], [CTXS[0]])[0]
    return _wants[key]


def _hist_warm() -> None:
    """Before children are forked: fill Python's own cache of compiled regular expressions with the patterns of the
    bundled lexer (a Lexer built by its constructor and thrown away - the engine's memoised lexers are not touched) and
    stock's renderings of the ordinary templates, so that the children do not pay for them again and again."""
    if _wants:
        return
    import nunavut.jinja.jinja2.lexer as blexer

    for flags in tw.FLAGS:
        blexer.Lexer(_hist_env(flags, "lf"))
        for le in tw.LINE_ENDINGS:
            for o, _ in HIST_ORDINARY:
                _hist_want(o, flags, le)


def history_run(case: dict) -> typing.Dict[str, typing.Any]:
    """Runs, IN THIS PROCESS, the steps case['steps'] (events and ordinary templates) and then the ordinary template
    case['ordinary'] in the bundled engine; `want` is stock's rendering of the ordinary template."""
    flags, le, mode = case["flags"], case["le"], case["mode"]
    oflags = _OTHER_FLAGS[flags] if mode == "other_options_env" else flags  # options of the ordinary templates' Environment
    want = _hist_want(case["ordinary"], oflags, le)
    shared = _hist_env(flags, le)

    def env_for(name: str) -> typing.Any:
        if mode == "same_env":
            return shared  # one Environment object for everything
        if mode == "new_env":
            return _hist_env(flags, le)  # a new Environment with equal options for every step
        return shared if name in _EVENT else _hist_env(oflags, le)  # events share one, ordinary ones: other options

    steps = [_hist_step(env_for(name), name, le) for name in case["steps"]]
    got = _hist_step(env_for(case["ordinary"]), case["ordinary"], le)
    return {"steps": steps, "got": got, "want": want}


def _forked(fn: typing.Callable[[], typing.Any]) -> typing.Any:
    """fn() evaluated in a forked child (state the bundled engine keeps in the process dies with the child)."""
    import os
    import pickle

    r, w = os.pipe()
    pid = os.fork()
    if pid == 0:
        code = 0
        try:
            os.close(r)
            try:
                payload = pickle.dumps(("ok", fn()))
            except BaseException as e:  # pylint: disable=broad-except
                payload = pickle.dumps(("exc", repr(e)))
            with os.fdopen(w, "wb") as f:
                f.write(payload)
        except BaseException:  # pylint: disable=broad-except
            code = 3
        finally:
            os._exit(code)
    os.close(w)
    with os.fdopen(r, "rb") as f:
        data = f.read()
    _, status = os.waitpid(pid, 0)
    if status != 0 or not data:
        raise HarnessError(f"history child failed (status {status})")
    tag, val = pickle.loads(data)
    if tag != "ok":
        raise HarnessError(f"history child raised {val}")
    return val


def _fresh_interpreter(case: dict) -> typing.Dict[str, typing.Any]:
    """history_run(case) in a new Python process (nothing at all has been compiled there before)."""
    import json
    import os
    import subprocess
    import sys

    from vf.core import VERIF

    code = (
        "import sys, json; sys.path.insert(0, sys.argv[1]); from vf import c19_lexer as lx; "
        "print(json.dumps(lx.history_run(json.loads(sys.stdin.read()))))"
    )
    p = subprocess.run(
        [sys.executable, "-c", code, str(VERIF)],
        input=json.dumps(case),
        capture_output=True,
        text=True,
        env=dict(os.environ),
        cwd=str(VERIF),
        timeout=300,
        check=False,
    )
    if p.returncode != 0:
        raise HarnessError(f"fresh interpreter for a history case failed: {p.stderr[-400:]}")
    res = json.loads(p.stdout.strip().splitlines()[-1])
    return {k: (tuple(v) if k != "steps" else [tuple(x) for x in v]) for k, v in res.items()}


def _hist_sig(case: dict, kind: str, no_history_got: tw.Outcome, want: tw.Outcome) -> dict:
    events = [n for n in case["steps"] if n in _EVENT]
    return {
        "oracle": "lexer",
        "space": "history",
        "kind": kind,
        "feature": "after:" + "+".join(_EVENT[n].cls for n in events)
        + (";and_earlier_ordinary_templates" if len(events) != len(case["steps"]) else ""),
        "mode": case["mode"],
        "cause": "state_left_by_earlier_templates" if compare(no_history_got, want) is None else "also_without_history",
    }


def _hist_verdict(case: dict, run: typing.Callable[[dict], dict]) -> typing.Optional[typing.Tuple[dict, str]]:
    res = run(case)
    kind = compare(res["got"], res["want"])
    if kind is None:
        return None
    alone = run({**case, "steps": []})
    sig = _hist_sig(case, kind, alone["got"], res["want"])
    shown = [tw.with_le(_ORD[n] if n in _ORD else _EVENT[n].src, case["le"]) for n in case["steps"]]
    what = (
        f"history {list(zip(case['steps'], shown, res['steps']))!r} then ordinary template "
        f"{tw.with_le(_ORD[case['ordinary']], case['le'])!r} [{case['flags']}, {case['mode']}]: bundled {res['got']!r} vs "
        f"stock {res['want']!r} (bundled without the history: {alone['got']!r})"
    )
    return sig, what


def history_eval_case(case: dict) -> typing.Optional[typing.Tuple[dict, str]]:
    """Confirmation / replay: the recorded history in a fresh interpreter."""
    return _hist_verdict(case, _fresh_interpreter)


def _chain_cases(chain: dict) -> typing.List[dict]:
    base = {k: chain[k] for k in ("oracle", "space", "flags", "le", "mode")}
    return [{**base, "steps": list(chain["events"]), "ordinary": o} for o, _ in HIST_ORDINARY]


def history_work(chains: typing.List[dict]) -> dict:
    bag = Bag()
    st: typing.Dict[str, int] = {}
    samples: typing.List[dict] = []
    confirmed = 0

    def bump(k: str, n: int = 1) -> None:
        st[k] = st.get(k, 0) + n

    _hist_warm()
    for chain in chains:
        cases = _chain_cases(chain)
        results = _forked(lambda cs=cases: [history_run(c) for c in cs])  # [e..; o1; e..; o2; ...] in ONE child
        bump("hist_chains")
        for e, oc in zip(chain["events"], results[0]["steps"]):
            bump("hist_event_runs")
            bump("hist_events_refused_or_failed_in_bundled" if oc[0] == "err" else "hist_events_completed_in_bundled")
        done: typing.List[str] = []
        for case, res in zip(cases, results):
            bump("hist_histories")
            bump("hist_stock_rendered" if res["want"][0] == "ok" else "hist_stock_raised")
            if res["want"][0] == "ok" and res["want"][1] != _ORD[case["ordinary"]]:
                bump("hist_nontrivial")
            prefix = list(done)
            done += case["steps"] + [case["ordinary"]]
            if compare(res["got"], res["want"]) is None:
                continue
            bump("hist_disagreements")
            if confirmed >= 6:
                sig = _hist_sig(case, compare(res["got"], res["want"]) or "", res["want"], res["want"])
                sig = {**sig, "feature": "<not minimised, see the minimised signatures>", "cause": "<not examined>"}
                bag.add(sig, case, f"history {case['steps']} then {case['ordinary']} [{case['flags']}, {case['mode']}]: bundled {res['got']!r} vs stock {res['want']!r}")
                continue
            confirmed += 1
            run = lambda c: _forked(lambda: history_run(c))  # noqa: E731
            ev = _hist_verdict(case, run)
            if ev is None:  # needs what came before it in the chain: record the whole prefix
                case = {**case, "steps": prefix + case["steps"]}
                ev = _hist_verdict(case, run)
                if ev is None:
                    raise HarnessError(f"history disagreement did not reproduce in a child of its own: {case}")
            else:
                changed = len(case["steps"]) > 1
                while changed:  # drop events while the disagreement persists
                    changed = False
                    for k in range(len(case["steps"])):
                        c = {**case, "steps": case["steps"][:k] + case["steps"][k + 1 :]}
                        ev2 = _hist_verdict(c, run) if c["steps"] else None
                        if ev2 is not None:
                            case, ev, changed = c, ev2, len(c["steps"]) > 1
                            break
            bag.add(ev[0], case, ev[1])
        if len(samples) < 1 and len(chain["events"]) == 2 and chain["mode"] == "new_env":
            samples.append({**cases[0], "event_sources": [_EVENT[n].src for n in chain["events"]], "template": _ORD[cases[0]["ordinary"]]})
    return {"bag": bag, "st": st, "ledger": set(), "samples": samples}


def history_oracle_stats() -> typing.Dict[str, int]:
    """Oracle side (vacuity guards): what STOCK makes of every event template with the markers taken out."""
    out = {"hist_event_templates_stock_refuses_demarked": 0, "hist_event_templates_stock_renders_demarked": 0}
    for e in HIST_EVENTS:
        src = e.src
        for a, b in _DEMARK:
            src = src.replace(a, b)
        r = tw.render("stock", "plain", "lf", src, [CTXS[0]])[0]
        out["hist_event_templates_stock_refuses_demarked" if r[0] == "err" else "hist_event_templates_stock_renders_demarked"] += 1
    return out


# ---------------------------------------------------------------------------------------------------- evaluation
def case_source(case: dict) -> typing.Tuple[str, tw.Flags]:
    if case["space"] == "line":
        return line_source(case), make_opts(case["ws"], case["ls"], case["lc"])
    return raw_source(case), make_opts(case["ws"], None, None)


def compare(b: tw.Outcome, s: tw.Outcome) -> typing.Optional[str]:
    if s[0] == "err":
        return None if b[0] == "err" else "bundled_renders_stock_raises"
    if b[0] == "err":
        return "bundled_raises_stock_renders"
    return None if b[1] == s[1] else "output_differs"


class Verdict(typing.NamedTuple):
    kind: str
    ctx: int
    bundled: typing.Any
    stock: typing.Any


def judge(case: dict, st: typing.Optional[dict] = None, ledger: typing.Optional[set] = None) -> typing.Optional[Verdict]:
    """First disagreement of one case (rendering in context order, then token stream), or None."""
    src, opts = case_source(case)
    if "\n" not in src and case["le"] == "crlf":
        return None
    bs = tw.render("bundled", opts, case["le"], src, CTXS)
    ss = tw.render("stock", opts, case["le"], src, CTXS)
    st_tok, alts = tw.lex_norm("stock", opts, case["le"], src)
    b_tok, _ = tw.lex_norm("bundled", opts, case["le"], src)
    if st is not None:
        st["cases"] = st.get("cases", 0) + 1
        st["evals"] = st.get("evals", 0) + len(CTXS) + 1
        st["stock_rendered"] = st.get("stock_rendered", 0) + sum(1 for s in ss if s[0] == "ok")
        st["stock_raised"] = st.get("stock_raised", 0) + sum(1 for s in ss if s[0] == "err")
        st["nontrivial"] = st.get("nontrivial", 0) + sum(1 for s in ss if s[0] == "ok" and s[1] != src)
        if st_tok[0] == "ok":
            st["stock_token_streams"] = st.get("stock_token_streams", 0) + 1
    if ledger is not None:  # oracle side: which root alternatives STOCK's lexer took under this whitespace combination
        for a in alts:
            ledger.add((ws_name(case["ws"]), a))
    for ci, (b, s) in enumerate(zip(bs, ss)):
        kind = compare(b, s)
        if kind is not None:
            return Verdict(kind, ci, b, s)
    ok = [ci for ci, s in enumerate(ss) if s[0] == "ok"]
    if ok and st_tok[0] == "ok" and b_tok != st_tok:
        return Verdict("token_stream_differs", ok[0], b_tok, st_tok)
    return None


def _smaller(case: dict) -> typing.Iterator[dict]:
    """Candidate simplifications: drop a whitespace option, an element / reset a raw part, keep the final newline, LF."""
    for w in case["ws"]:
        c = {**case, "ws": [x for x in case["ws"] if x != w]}
        if not (c["space"] == "raw" and c["parts"]["open"] == "plus" and "lstrip_blocks" not in c["ws"]):
            yield c
    if case["le"] == "crlf":
        yield {**case, "le": "lf"}
    if case["space"] == "line":
        if not case["final_newline"]:
            yield {**case, "final_newline": True}
        for k in range(len(case["elems"])):
            if len(case["elems"]) > 1:
                yield {**case, "elems": case["elems"][:k] + case["elems"][k + 1 :]}
        if case["ls"] is not None:
            yield {**case, "ls": None}
        if case["lc"] is not None:
            yield {**case, "lc": None}
    else:
        for p in RAW_ORDER:
            d = RAW_PARTS[p][0][0]
            if case["parts"][p] != d:
                yield {**case, "parts": {**case["parts"], p: d}}


def minimize(case: dict) -> dict:
    changed = True
    while changed:
        changed = False
        for c in _smaller(case):
            if judge(c) is not None:
                case, changed = c, True
                break
    return case


def eval_case(case: dict) -> typing.Optional[typing.Tuple[dict, str]]:
    if case["space"] == "history":
        return history_eval_case(case)
    v = judge(case)
    if v is None:
        return None
    src, opts = case_source(case)
    if v.kind == "token_stream_differs":
        p_res: typing.Any = tw.lex_norm("pristine", opts, case["le"], src)[0]
    else:
        p_res = tw.render("pristine", opts, case["le"], src, [CTXS[v.ctx]])[0]
    cause = "nunavut_lexer_edit" if p_res == v.stock else ("not_the_lexer_edit" if p_res == v.bundled else "mixed")
    if case["space"] == "line":
        feature = "elements:" + "+".join(case["elems"])
        if not case["final_newline"]:
            feature += ";no_final_newline"
    else:
        feature = "raw:" + ",".join(
            f"{p}={case['parts'][p]}" for p in RAW_ORDER if case["parts"][p] != RAW_PARTS[p][0][0]
        )
    sig = {
        "oracle": "lexer",
        "space": case["space"],
        "kind": v.kind,
        "feature": feature,
        "needs": sorted(o for o, _ in opts),  # type: ignore
        "cause": cause,
    }
    what = (
        f"ordinary template {tw.with_le(src, case['le'])!r} [{dict(opts)}, ctx {v.ctx}] {v.kind}: bundled {v.bundled!r} "  # type: ignore
        f"vs stock {v.stock!r} (bundled engine without Nunavut's lexer alternatives: {p_res!r})"
    )
    return sig, what


def work(cases: typing.List[dict]) -> dict:
    bag = Bag()
    st: typing.Dict[str, int] = {}
    ledger: typing.Set[typing.Tuple[str, str]] = set()
    minimized = 0
    samples: typing.List[dict] = []
    for case in cases:
        v = judge(case, st, ledger)
        if len(samples) < 1 and case["space"] == "line" and len(case["elems"]) == 3 and case["ls"] and case["lc"]:
            samples.append({**case, "template": line_source(case)})
        if v is None:
            continue
        c = case
        if minimized < 40:
            minimized += 1
            c = minimize(case)
        ev = eval_case(c)
        if ev is None:
            raise HarnessError(f"lexer disagreement did not reproduce: {c}")
        sig, what = ev
        if c is case and minimized >= 40:
            sig = {**sig, "feature": "<not minimised, see the minimised signatures>", "needs": []}
        bag.add(sig, c, what)
    return {"bag": bag, "st": st, "ledger": ledger, "samples": samples}
