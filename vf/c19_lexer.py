"""
C19, lexer sub-spaces of oracle 1 (ordinary templates, bundled engine vs stock Jinja2): every alternative of the lexer's
root rule - comment, block, variable, raw, line statement, line comment - under every combination of trim_blocks x
lstrip_blocks x keep_trailing_newline, compared in RENDERING and in the parser-visible TOKEN STREAM
(c19_twin.lex_norm).

space "line": environments with line_statement_prefix in {None, '#', '%%'} x line_comment_prefix in {None, '##', '//'}
    (alone and together) x the 8 whitespace-option combinations x {LF, CRLF} x {final newline kept, removed}; templates
    are sequences of line-oriented elements in which line statements / line comments stand before, between and AFTER
    the last brace-style tag, templates made of line statements only, statements with a trailing ':', prefixes that are
    indented or not followed by a blank, line comments trailing a data line, and a raw section containing the prefixes.
    Where a prefix is not configured the same characters are ordinary text.
space "raw": `{% raw %}` sections - opening tag plain / `{%- raw`, `raw -%}`, both, and `{%+ raw` (lstrip_blocks on) x
    what follows it (nothing, newline, text, blanks+newline) x content (expression, nested tags and stray braces, empty)
    x what precedes the end tag x end tag with the same whitespace control x what follows (nothing, newline, text, ...)
    x what precedes the section x the 8 whitespace-option combinations x {LF, CRLF}.

Demand (the property's first sentence): same text, or failure where stock fails; and - as fixed by the coordinator - the
same parser-visible token stream wherever stock lexes and renders the template.
"""
from __future__ import annotations

import itertools
import typing

from vf import c19_twin as tw
from vf.core import Bag, HarnessError

CTXS = tw.contexts()
WS_OPTS = ("trim_blocks", "lstrip_blocks", "keep_trailing_newline")
WS8: typing.List[typing.Tuple[str, ...]] = [
    tuple(o for o, on in zip(WS_OPTS, bits) if on) for bits in itertools.product((False, True), repeat=3)
]
LP9: typing.List[typing.Tuple[typing.Optional[str], typing.Optional[str]]] = [
    (None, None),
    ("#", "##"),
    ("%%", "//"),
    ("#", None),
    ("%%", None),
    (None, "##"),
    (None, "//"),
    ("#", "//"),
    ("%%", "##"),
]
LP_CORE = LP9[:3]


def ws_name(ws: typing.Sequence[str]) -> str:
    return "+".join(ws) if ws else "no_whitespace_option"


def make_opts(ws: typing.Sequence[str], ls: typing.Optional[str], lc: typing.Optional[str]) -> tw.Flags:
    o: typing.List[typing.Tuple[str, typing.Any]] = [(w, True) for w in ws]
    if ls is not None:
        o.append(("line_statement_prefix", ls))
    if lc is not None:
        o.append(("line_comment_prefix", lc))
    return tuple(sorted(o))


# ---------------------------------------------------------------------------------------------------- space "line"
# S = line statement prefix, C = line comment prefix (or the text that stands for them when not configured)
LINE_ELEMS: typing.List[typing.Tuple[str, str]] = [
    ("l_text", "text\n"),
    ("l_expr", "  {{ v }} tail\n"),
    ("l_comment", "{# c #}\n"),
    ("l_block", "{% if b %}\nB\n{% endif %}\n"),
    ("l_raw", "{% raw %}\n{{ x }} S if C r\n{% endraw %}\n"),
    ("s_if", "S if b\nyes\nS endif\n"),
    ("s_if_colon", "S if b:\nyes\nS else:\nno\nS endif\n"),
    ("s_for_expr", "S for i in l\n- {{ i }}\nS endfor\n"),
    ("s_for_indented", "  S for i in l\nitem\n  S endfor\n"),
    ("s_set", "S set z = n + 1\n"),
    ("s_set_use", "S set y = 2\ny={{ y }}\n"),
    ("s_nospace", "Sif n\nN\nSendif\n"),
    ("s_stray", "S endfor\n"),
    ("c_trail", "data C remark\n"),
    ("c_own", "C own line\n"),
    ("c_indented", "   C indented {{ v }}\n"),
]
LINE_CORE7 = ["l_text", "l_expr", "l_block", "l_raw", "s_if", "s_for_expr", "c_trail"]
_LINE = dict(LINE_ELEMS)


def line_source(case: dict) -> str:
    s_txt = case["ls"] if case["ls"] is not None else "#"
    c_txt = case["lc"] if case["lc"] is not None else "//"
    src = "".join(_LINE[n] for n in case["elems"]).replace("S", s_txt).replace("C", c_txt)
    if not case["final_newline"] and src.endswith("\n"):
        src = src[:-1]
    return src


def line_space() -> typing.Iterator[typing.Tuple[dict, bool]]:
    names = [n for n, _ in LINE_ELEMS]
    seqs: typing.List[typing.Tuple[str, ...]] = [(a,) for a in names]
    seqs += list(itertools.product(names, repeat=2))
    n_short = len(seqs)
    seqs += list(itertools.product(LINE_CORE7, repeat=3))
    for k, seq in enumerate(seqs):
        for ls, lc in LP9:
            for ws in WS8:
                for le in tw.LINE_ENDINGS:
                    for final in (True, False):
                        # quick core: all sequences of <=2 under both fully configured prefix pairs, the sequences of
                        # brace-only elements without any prefix; LF, final newline kept; all 8 whitespace combinations
                        core = (
                            k < n_short
                            and le == "lf"
                            and final
                            and ((ls, lc) in LP_CORE[1:] or ((ls, lc) == LP_CORE[0] and all(n.startswith("l_") for n in seq)))
                        )
                        yield {
                            "oracle": "lexer",
                            "space": "line",
                            "elems": list(seq),
                            "ls": ls,
                            "lc": lc,
                            "ws": list(ws),
                            "le": le,
                            "final_newline": final,
                        }, core


# ---------------------------------------------------------------------------------------------------- space "raw"
RAW_PARTS: typing.Dict[str, typing.List[typing.Tuple[str, str]]] = {  # first entry = the default of the part
    "lead": [("none", ""), ("line", "a\n"), ("indent", "  "), ("text_blank", "a ")],
    "open": [
        ("plain", "{% raw %}"),
        ("lminus", "{%- raw %}"),
        ("rminus", "{% raw -%}"),
        ("minus", "{%- raw -%}"),
        ("plus", "{%+ raw %}"),  # only with lstrip_blocks (see the excluded constructs of vf/checks/c19.py)
    ],
    "after_open": [("none", ""), ("nl", "\n"), ("text", "x"), ("blanks_nl", " \n  ")],
    "content": [("expr", "{{ v }}"), ("nested", "{% if %}{# c #} { { } %} #} {%* q %}"), ("empty", "")],
    "before_close": [("none", ""), ("nl", "\n"), ("indent", "\n  ")],
    "close": [
        ("plain", "{% endraw %}"),
        ("lminus", "{%- endraw %}"),
        ("rminus", "{% endraw -%}"),
        ("minus", "{%- endraw -%}"),
    ],
    "after_close": [("none", ""), ("nl", "\n"), ("text", "t"), ("nl_rest", "\nrest\n"), ("blanks_nl", "  \n")],
}
RAW_ORDER = ["lead", "open", "after_open", "content", "before_close", "close", "after_close"]


def raw_source(case: dict) -> str:
    return "".join(dict(RAW_PARTS[p])[case["parts"][p]] for p in RAW_ORDER)


def raw_space() -> typing.Iterator[typing.Tuple[dict, bool]]:
    for combo in itertools.product(*[[n for n, _ in RAW_PARTS[p]] for p in RAW_ORDER]):
        parts = dict(zip(RAW_ORDER, combo))
        non_default = [p for p in RAW_ORDER if parts[p] != RAW_PARTS[p][0][0]]
        for ws in WS8:
            if parts["open"] == "plus" and "lstrip_blocks" not in ws:
                continue
            for le in tw.LINE_ENDINGS:
                # quick core: at most two parts differ from the plainest section `{% raw %}{{ v }}{% endraw %}`
                core = le == "lf" and len(non_default) <= 2
                yield {"oracle": "lexer", "space": "raw", "parts": parts, "ws": list(ws), "le": le}, core


# ---------------------------------------------------------------------------------------------------- evaluation
def case_source(case: dict) -> typing.Tuple[str, tw.Flags]:
    if case["space"] == "line":
        return line_source(case), make_opts(case["ws"], case["ls"], case["lc"])
    return raw_source(case), make_opts(case["ws"], None, None)


def compare(b: tw.Outcome, s: tw.Outcome) -> typing.Optional[str]:
    if s[0] == "err":
        return None if b[0] == "err" else "bundled_renders_stock_raises"
    if b[0] == "err":
        return "bundled_raises_stock_renders"
    return None if b[1] == s[1] else "output_differs"


class Verdict(typing.NamedTuple):
    kind: str
    ctx: int
    bundled: typing.Any
    stock: typing.Any


def judge(case: dict, st: typing.Optional[dict] = None, ledger: typing.Optional[set] = None) -> typing.Optional[Verdict]:
    """First disagreement of one case (rendering in context order, then token stream), or None."""
    src, opts = case_source(case)
    if "\n" not in src and case["le"] == "crlf":
        return None
    bs = tw.render("bundled", opts, case["le"], src, CTXS)
    ss = tw.render("stock", opts, case["le"], src, CTXS)
    st_tok, alts = tw.lex_norm("stock", opts, case["le"], src)
    b_tok, _ = tw.lex_norm("bundled", opts, case["le"], src)
    if st is not None:
        st["cases"] = st.get("cases", 0) + 1
        st["evals"] = st.get("evals", 0) + len(CTXS) + 1
        st["stock_rendered"] = st.get("stock_rendered", 0) + sum(1 for s in ss if s[0] == "ok")
        st["stock_raised"] = st.get("stock_raised", 0) + sum(1 for s in ss if s[0] == "err")
        st["nontrivial"] = st.get("nontrivial", 0) + sum(1 for s in ss if s[0] == "ok" and s[1] != src)
        if st_tok[0] == "ok":
            st["stock_token_streams"] = st.get("stock_token_streams", 0) + 1
    if ledger is not None:  # oracle side: which root alternatives STOCK's lexer took under this whitespace combination
        for a in alts:
            ledger.add((ws_name(case["ws"]), a))
    for ci, (b, s) in enumerate(zip(bs, ss)):
        kind = compare(b, s)
        if kind is not None:
            return Verdict(kind, ci, b, s)
    ok = [ci for ci, s in enumerate(ss) if s[0] == "ok"]
    if ok and st_tok[0] == "ok" and b_tok != st_tok:
        return Verdict("token_stream_differs", ok[0], b_tok, st_tok)
    return None


def _smaller(case: dict) -> typing.Iterator[dict]:
    """Candidate simplifications: drop a whitespace option, an element / reset a raw part, keep the final newline, LF."""
    for w in case["ws"]:
        c = {**case, "ws": [x for x in case["ws"] if x != w]}
        if not (c["space"] == "raw" and c["parts"]["open"] == "plus" and "lstrip_blocks" not in c["ws"]):
            yield c
    if case["le"] == "crlf":
        yield {**case, "le": "lf"}
    if case["space"] == "line":
        if not case["final_newline"]:
            yield {**case, "final_newline": True}
        for k in range(len(case["elems"])):
            if len(case["elems"]) > 1:
                yield {**case, "elems": case["elems"][:k] + case["elems"][k + 1 :]}
        if case["ls"] is not None:
            yield {**case, "ls": None}
        if case["lc"] is not None:
            yield {**case, "lc": None}
    else:
        for p in RAW_ORDER:
            d = RAW_PARTS[p][0][0]
            if case["parts"][p] != d:
                yield {**case, "parts": {**case["parts"], p: d}}


def minimize(case: dict) -> dict:
    changed = True
    while changed:
        changed = False
        for c in _smaller(case):
            if judge(c) is not None:
                case, changed = c, True
                break
    return case


def eval_case(case: dict) -> typing.Optional[typing.Tuple[dict, str]]:
    v = judge(case)
    if v is None:
        return None
    src, opts = case_source(case)
    if v.kind == "token_stream_differs":
        p_res: typing.Any = tw.lex_norm("pristine", opts, case["le"], src)[0]
    else:
        p_res = tw.render("pristine", opts, case["le"], src, [CTXS[v.ctx]])[0]
    cause = "nunavut_lexer_edit" if p_res == v.stock else ("not_the_lexer_edit" if p_res == v.bundled else "mixed")
    if case["space"] == "line":
        feature = "elements:" + "+".join(case["elems"])
        if not case["final_newline"]:
            feature += ";no_final_newline"
    else:
        feature = "raw:" + ",".join(
            f"{p}={case['parts'][p]}" for p in RAW_ORDER if case["parts"][p] != RAW_PARTS[p][0][0]
        )
    sig = {
        "oracle": "lexer",
        "space": case["space"],
        "kind": v.kind,
        "feature": feature,
        "needs": sorted(o for o, _ in opts),  # type: ignore
        "cause": cause,
    }
    what = (
        f"ordinary template {tw.with_le(src, case['le'])!r} [{dict(opts)}, ctx {v.ctx}] {v.kind}: bundled {v.bundled!r} "  # type: ignore
        f"vs stock {v.stock!r} (bundled engine without Nunavut's lexer alternatives: {p_res!r})"
    )
    return sig, what


def work(cases: typing.List[dict]) -> dict:
    bag = Bag()
    st: typing.Dict[str, int] = {}
    ledger: typing.Set[typing.Tuple[str, str]] = set()
    minimized = 0
    samples: typing.List[dict] = []
    for case in cases:
        v = judge(case, st, ledger)
        if len(samples) < 1 and case["space"] == "line" and len(case["elems"]) == 3 and case["ls"] and case["lc"]:
            samples.append({**case, "template": line_source(case)})
        if v is None:
            continue
        c = case
        if minimized < 40:
            minimized += 1
            c = minimize(case)
        ev = eval_case(c)
        if ev is None:
            raise HarnessError(f"lexer disagreement did not reproduce: {c}")
        sig, what = ev
        if c is case and minimized >= 40:
            sig = {**sig, "feature": "<not minimised, see the minimised signatures>", "needs": []}
        bag.add(sig, c, what)
    return {"bag": bag, "st": st, "ledger": ledger, "samples": samples}
