"""
nsspace - a bounded universe of *named DSDL namespace cases* (engine E2 of DESIGN.md, layers L5-L8 plus a layer of
primitive/array/union/nested types), reusable by every check that needs "all kinds of valid DSDL input".

A case is plain data (JSON-serialisable)::

    {"id": "L6.attr.primitive.003", "layer": "L6", "core": False,
     "roots": ["reg"],                         # root namespaces that are always present (generation order)
     "fixed": {relpath: text},                 # files that are always present
     "skeletons": {relpath: [head, tail]},     # files that receive the `lines` of the kept members between head and tail
     "members": [ {"label": "attr_name:NULL@primitive", "origin": "std_macro", "name": "NULL",
                   "files": {relpath: text}, "lines": {skeleton relpath: [dsdl line, ...]},
                   "roots": ["extra root"], "needs": [member index, ...]} ],
     "langs": ["c", "cpp", "py"]}              # optional restriction

`assemble(case, keep)` turns a case and a subset of its members into ``(files, roots)``; every root of a case is read
with all other roots of the case as lookup directories, and every root is generated ("both roots generated").
Members are *independent features batched into one namespace*; a consumer that sees a batched case fail bisects over
`keep` to the minimal failing member set and names it by `label`.

Only namespaces the front end (PyDSDL) accepts are in scope: names are filtered by actually parsing a one-type
namespace for each (name, position), and every assembled case is parsed once before it is handed out
(a rejected case is a HarnessError - the universe is wrong, not nunavut).

Names whose stropped images (as computed by the language objects' own one-way `filter_id`) coincide are never put
into one namespace (the C06/C09 statements exclude folded names).
"""
from __future__ import annotations

import builtins
import functools
import keyword
import os
import pathlib
import re
import shutil
import sys
import typing

from vf.core import REPO, HarnessError, setup_paths

setup_paths()

Case = typing.Dict[str, typing.Any]
BATCH = 40

# ------------------------------------------------------------------------------------------------- name alphabet
# Standard C/C++ macros visible through the headers the generated code includes
# (stdlib.h, stdint.h, stdbool.h, string.h, float.h, math.h, assert.h and their <c...> twins).
STD_MACROS = [
    "NULL", "INT8_MAX", "UINT64_C", "SIZE_MAX", "isfinite", "assert", "errno", "EOF", "true", "bool",
    "RAND_MAX", "EXIT_SUCCESS", "MB_CUR_MAX", "NAN", "INFINITY", "HUGE_VAL", "FLT_MAX", "DBL_EPSILON", "FP_NAN",
    "PTRDIFF_MAX", "WCHAR_MAX", "CHAR_BIT", "offsetof", "isnan", "signbit",
]  # fmt: skip

# Keywords and alternative tokens, written down here from the language standards (C11 6.4.1, C++20 [lex.key]) and NOT
# taken from nunavut's properties.yaml: an entry that is missing from (or gets dropped out of) the reserved lists of
# the code under test must still be part of the alphabet.
C_KEYWORDS = """auto break case char const continue default do double else enum extern float for goto if inline int long
register restrict return short signed sizeof static struct switch typedef union unsigned void volatile while _Alignas
_Alignof _Atomic _Bool _Complex _Generic _Imaginary _Noreturn _Static_assert _Thread_local""".split()
CXX_KEYWORDS = """alignas alignof and and_eq asm auto bitand bitor bool break case catch char char8_t char16_t char32_t
class compl concept const consteval constexpr constinit const_cast continue co_await co_return co_yield decltype default
delete do double dynamic_cast else enum explicit export extern false float for friend goto if inline int long mutable
namespace new noexcept not not_eq nullptr operator or or_eq private protected public register reinterpret_cast requires
return short signed sizeof static static_assert static_cast struct switch template this thread_local throw true try
typedef typeid typename union unsigned using virtual void volatile wchar_t while xor xor_eq""".split()

# Identifiers the generated code itself uses around user-named entities (attribute position only).
GENERATOR_INTERNAL = [
    "obj", "out_obj", "in_obj", "buffer", "out_buffer", "in_buffer", "inout_buffer_size_bytes", "offset_bits",
    "capacity_bytes", "capacity_bits", "count", "elements", "bitpacked", "err", "size_bytes", "buf", "x", "cls",
    "np", "nunavut", "std", "cetl", "serialize", "deserialize", "value", "allocator", "get_allocator",
    "allocator_type", "VariantType", "union_value", "rhs", "IndexOf", "MAX_INDEX", "result", "T", "Batch_1_0",
]  # fmt: skip

# One or more witnesses per `reserved_token_patterns_by_type` pattern of properties.yaml (verified against the
# patterns at run time; a pattern without a witness that PyDSDL accepts is recorded, not hidden).
PATTERN_WITNESSES = [
    "__x", "_Abc", "_A", "isalpha", "isx", "toupper", "strlen", "memcpy", "memx", "wcslen",
    "int8_t", "uint_fast8_t", "intptr_t", "uintmax_t", "atomic_int", "memory_order", "cnd_init", "mtx_lock",
    "thrd_create", "tss_get", "EINVAL", "E2BIG", "EOF", "FE_ALL_EXCEPT", "INT8_MAX", "UINT64_C", "INT_MIN",
    "INTMAX_C", "PRIu64", "SCNx8", "PRIX32", "LC_ALL", "SIGINT", "SIG_DFL", "TIME_UTC", "ATOMIC_VAR_INIT",
    "memory_order_relaxed", "mtx_plain", "0abc",
]  # fmt: skip

# Python modules the generated code (or the interpreter on its way there) imports: a *root* namespace of that name
# in the output directory shadows the module.  DESIGN E2/L6 puts these outside the alphabet for the Python target.
PY_EXTRA_MODULES = {"numpy", "pydsdl", "nunavut_support"}

FIELD_KINDS = {
    # kind -> (skeleton head, line format, needs Inner type)
    "primitive": ("", "int16 {n}", False),
    "bool_fixed": ("", "bool[3] {n}", False),
    "u8_fixed": ("", "uint8[3] {n}", False),
    "bool_var": ("", "bool[<=3] {n}", False),
    "u8_var": ("", "uint8[<=3] {n}", False),
    "composite": ("", "reg.Inner.1.0 {n}", True),
    "union_alt": ("@union\nuint8 zza\nuint8 zzb\n", "uint8 {n}", False),
    "constant": ("", "uint8 {n} = 1", False),
}


class NameEntry(typing.NamedTuple):
    name: str
    origins: typing.Tuple[str, ...]


@functools.lru_cache(maxsize=1)
def _load_properties() -> dict:
    import yaml  # nunavut depends on it

    with open(REPO / "src" / "nunavut" / "lang" / "properties.yaml", "r", encoding="utf-8") as f:
        return typing.cast(dict, yaml.safe_load(f))


@functools.lru_cache(maxsize=1)
def reserved_patterns() -> typing.List[typing.Tuple[str, str, str]]:
    """(language, identifier type, pattern) for every reserved_token_patterns_by_type entry of c/cpp/py."""
    props = _load_properties()
    out = []
    for lang in ("c", "cpp", "py"):
        sec = props.get(f"nunavut.lang.{lang}", {})
        for ty, pats in sorted((sec.get("reserved_token_patterns_by_type") or {}).items()):
            for p in pats:
                out.append((lang, ty, p))
    return out


def raw_alphabet() -> typing.List[NameEntry]:
    """Every candidate name with its origins, before PyDSDL filtering. Deterministic order."""
    props = _load_properties()
    origin: typing.Dict[str, typing.List[str]] = {}

    def add(n: str, o: str) -> None:
        origin.setdefault(str(n), [])
        if o not in origin[str(n)]:
            origin[str(n)].append(o)

    for n in C_KEYWORDS:
        add(n, "c_keyword")
    for n in CXX_KEYWORDS:
        add(n, "cxx_keyword")
    for lang in ("c", "cpp", "py"):
        for n in props.get(f"nunavut.lang.{lang}", {}).get("reserved_identifiers") or []:
            add(n, f"{lang}_reserved")
    for n in keyword.kwlist:
        add(n, "py_keyword")
    for n in getattr(keyword, "softkwlist", []):
        add(n, "py_soft_keyword")
    for n in dir(builtins):
        add(n, "py_builtin")
    pats = reserved_patterns()
    for n in PATTERN_WITNESSES:
        hit = [f"{lang}:{ty}:{p}" for lang, ty, p in pats if re.compile(p).match(n)]
        if not hit:
            raise HarnessError(f"pattern witness {n!r} matches no reserved pattern of properties.yaml")
        add(n, "pattern_witness")
    for n in STD_MACROS:
        add(n, "std_macro")
    for n in GENERATOR_INTERNAL:
        add(n, "generator_internal")
    for lang, ty, p in pats:
        if not any(re.compile(p).match(n) for n in origin):
            raise HarnessError(f"reserved pattern {lang}:{ty}:{p!r} has no witness in the nsspace alphabet (add one to PATTERN_WITNESSES)")
    return [NameEntry(n, tuple(o)) for n, o in sorted(origin.items(), key=lambda kv: (kv[1][0], kv[0]))]


def primary_origin(e: NameEntry) -> str:
    """The class of names `e` stands for (the *feature* of the name, used in violation signatures):
    std_macro | generator_internal:<name> | pattern:<lang>:<id type>:<regex> | c_keyword | cxx_keyword | c_reserved
    (in nunavut's list without being a keyword) | py_keyword | py_soft_keyword | py_builtin"""
    if "std_macro" in e.origins:
        return "std_macro"
    if "generator_internal" in e.origins:
        return f"generator_internal:{e.name}"
    if "pattern_witness" in e.origins and not any(o.endswith(("_reserved", "_keyword")) for o in e.origins):
        for lang, ty, p in reserved_patterns():
            if re.compile(p).match(e.name):
                return f"pattern:{lang}:{ty}:{p}"
    return e.origins[0]


def is_internal(e: NameEntry) -> bool:
    return "generator_internal" in e.origins and len(e.origins) == 1


# ------------------------------------------------------------------------------------------------- PyDSDL acceptance
def write_files(root: pathlib.Path, files: typing.Mapping[str, str]) -> None:
    for rel, text in files.items():
        p = root / rel
        p.parent.mkdir(parents=True, exist_ok=True)
        p.write_text(text, encoding="utf-8")


def accepts(tmp: pathlib.Path, nss: typing.Mapping[str, typing.Any]) -> typing.Optional[str]:
    """None if PyDSDL accepts every root of the assembled namespace set `nss` (see assemble), else the error text."""
    import pydsdl

    shutil.rmtree(tmp, ignore_errors=True)
    write_files(tmp, nss["files"])
    try:
        for r in nss["roots"]:
            pydsdl.read_namespace(
                str(tmp / r), [str(tmp / o) for o in nss["lookup"].get(r, [])], allow_unregulated_fixed_port_id=True
            )
    except Exception as e:  # pylint: disable=broad-except
        return f"{type(e).__name__}: {e}"
    finally:
        shutil.rmtree(tmp, ignore_errors=True)
    return None


_POSITIONS = ("attr", "type", "ns", "root")


def _probe_nss(name: str, positions: typing.Sequence[str]) -> typing.Dict[str, typing.Any]:
    files: typing.Dict[str, str] = {}
    roots: typing.List[str] = []
    if "attr" in positions:
        files["reg/T.1.0.dsdl"] = f"uint8 {name}\n@sealed\n"
    if "type" in positions:
        files[f"reg/{name}.1.0.dsdl"] = "uint8 a\n@sealed\n"
    if "ns" in positions:
        files[f"reg/q/{name}/T.1.0.dsdl"] = "uint8 a\n@sealed\n"
    if files:
        roots.append("reg")
    if "root" in positions:
        files[f"{name}/T.1.0.dsdl"] = "uint8 a\n@sealed\n"
        roots.append(name)
    return {"files": files, "roots": roots, "lookup": {}}


_SCRATCH: typing.Optional[pathlib.Path] = None


def _probe(name: str) -> typing.Dict[str, bool]:
    """position -> accepted by PyDSDL (decided by parsing, never by reading PyDSDL's rules)."""
    assert _SCRATCH is not None
    if "/" in name or name in (".", "..", "reg") or not name:
        return {p: False for p in _POSITIONS}
    tmp = _SCRATCH / f"probe{os.getpid()}"
    if accepts(tmp, _probe_nss(name, _POSITIONS)) is None:
        return {p: True for p in _POSITIONS}
    return {p: accepts(tmp, _probe_nss(name, [p])) is None for p in _POSITIONS}


# ------------------------------------------------------------------------------------------------- stropped images
_LANGS: typing.Dict[str, typing.Any] = {}


def stropped_images(name: str) -> typing.Tuple[str, ...]:
    """Images of `name` under the one-way stropping of c, cpp and py (id type 'any') - only used to keep folded
    names apart, never as an oracle."""
    from vf import gen

    if not _LANGS:
        for lang in ("c", "cpp", "py"):
            _LANGS[lang] = gen.language_context(lang).get_target_language()
    out = []
    for lang in ("c", "cpp", "py"):
        try:
            out.append(f"{lang}:" + _LANGS[lang].filter_id(name))
        except Exception as e:  # pylint: disable=broad-except
            out.append(f"{lang}:!{type(e).__name__}:{name}")
    out.append("lower:" + name.lower())
    return tuple(out)


def batches(
    entries: typing.Sequence[NameEntry], reserved: typing.Sequence[str] = (), size: int = BATCH
) -> typing.List[typing.List[NameEntry]]:
    """Greedy first-fit batching; a name never shares a batch with a name (or filler) of the same image."""
    out: typing.List[typing.Tuple[typing.List[NameEntry], typing.Set[str]]] = []
    fixed = set()
    for r in reserved:
        fixed.update(stropped_images(r))
    for e in entries:
        imgs = set(stropped_images(e.name))
        if imgs & fixed:
            continue  # collides with a filler name of the skeleton: cannot be placed without folding
        for lst, seen in out:
            if len(lst) < size and not (imgs & seen):
                lst.append(e)
                seen.update(imgs)
                break
        else:
            out.append(([e], set(imgs)))
    return [lst for lst, _ in out]


# ------------------------------------------------------------------------------------------------- assembling
def assemble(
    case: Case, keep: typing.Optional[typing.Iterable[int]] = None, prune: bool = False
) -> typing.Dict[str, typing.Any]:
    """(case, kept member indices | None = all) -> {"files": {rel: text}, "roots": [...], "lookup": {root: [roots]}}"""
    members = case.get("members", [])
    if keep is None:
        kept = list(range(len(members)))
    else:
        want = set(keep)
        grew = True
        while grew:  # dependency closure
            grew = False
            for i in list(want):
                for j in members[i].get("needs", []):
                    if j not in want:
                        want.add(j)
                        grew = True
        kept = sorted(want)
    files: typing.Dict[str, str] = dict(case.get("fixed", {}))
    roots: typing.List[str] = list(case.get("roots", []))
    lines: typing.Dict[str, typing.List[str]] = {rel: [] for rel in case.get("skeletons", {})}
    for i in kept:
        m = members[i]
        files.update(m.get("files", {}))
        for rel, ls in m.get("lines", {}).items():
            lines[rel].extend(ls)
        for r in m.get("roots", []):
            if r not in roots:
                roots.append(r)
    for rel, (head, tail) in case.get("skeletons", {}).items():
        if prune and not lines[rel] and not case.get("skeletons_required"):
            continue  # minimal replay cases: leave out skeleton files that no kept member writes into
        files[rel] = head + "".join(x + "\n" for x in lines[rel]) + tail
    # the fixed roots of a case see every other root as lookup; roots contributed by members stand alone
    lookup = {r: [o for o in roots if o != r] for r in case.get("roots", [])}
    return {"files": files, "roots": roots, "lookup": lookup}


# ------------------------------------------------------------------------------------------------- layers
PRIM_WIDTHS = [1, 7, 8, 9, 16, 17, 32, 33, 64]


def scalar_types() -> typing.List[str]:
    out = ["bool"]
    for w in PRIM_WIDTHS:
        out.append(f"saturated uint{w}")
        out.append(f"truncated uint{w}")
        if w >= 2:
            out.append(f"saturated int{w}")
    for w in (16, 32, 64):
        out.append(f"saturated float{w}")
        out.append(f"truncated float{w}")
    return out


def _tag(expr: str) -> str:
    return expr.replace("saturated ", "sat_").replace("truncated ", "trunc_")


def layer_types() -> typing.List[Case]:
    cases: typing.List[Case] = []
    sc = scalar_types()

    def line_case(cid: str, rel: str, head: str, tail: str, lines: typing.List[typing.Tuple[str, str]], **kw: typing.Any) -> Case:
        return dict(
            id=cid,
            layer="T",
            roots=["reg"],
            fixed={},
            skeletons={rel: [head, tail]},
            members=[dict(label=lab, origin="type_shape", lines={rel: [ln]}) for lab, ln in lines],
            **kw,
        )

    lines = [(f"prim:{_tag(e)}", f"{e} f{i}") for i, e in enumerate(sc)]
    lines += [(f"void:{w}", f"void{w}") for w in (1, 8, 33, 64)]
    cases.append(line_case("T.scalars", "reg/Scalars.1.0.dsdl", "", "@sealed\n", lines, core_all=True))

    fa = [(f"fixed_array:{_tag(e)}[3]", f"{e}[3] f{i}") for i, e in enumerate(sc)]
    fa += [("fixed_array:byte[3]", "byte[3] fb"), ("fixed_array:bool[9]", "bool[9] fb9")]
    fa += [("fixed_array:bool[64]", "bool[64] fb64"), ("fixed_array:bool[65]", "bool[65] fb65")]
    fa += [("fixed_array:uint8[1]", "uint8[1] fu1"), ("fixed_array:float32[1]", "float32[1] ff1")]
    cases.append(line_case("T.fixed_arrays", "reg/FixedArrays.1.0.dsdl", "", "@sealed\n", fa))

    va = [(f"var_array:{_tag(e)}[<=3]", f"{e}[<=3] f{i}") for i, e in enumerate(sc)]
    va += [("var_array:byte[<=3]", "byte[<=3] vb"), ("var_array:utf8[<=3]", "utf8[<=3] vu")]
    va += [(f"var_array:{t}[<={n}]", f"{t}[<={n}] v{t}{n}") for t in ("uint8", "bool") for n in (1, 255, 256, 65536)]
    cases.append(line_case("T.var_arrays", "reg/VarArrays.1.0.dsdl", "", "@extent 8 * 1024 * 1024\n", va))

    un = [(f"union_alt:{_tag(e)}", f"{e} f{i}") for i, e in enumerate(sc)]
    cases.append(line_case("T.union_scalars", "reg/UnionScalars.1.0.dsdl", "@union\nuint8 zza\nuint8 zzb\n", "@sealed\n", un))
    sub = ["bool", "uint8", "truncated uint7", "int9", "float16", "truncated float32", "float64", "int64", "byte"]
    ua = [(f"union_alt:{_tag(e)}[3]", f"{e}[3] a{i}") for i, e in enumerate(sub)]
    ua += [(f"union_alt:{_tag(e)}[<=3]", f"{e}[<=3] b{i}") for i, e in enumerate(sub)]
    ua += [("union_alt:utf8[<=3]", "utf8[<=3] bu")]
    cases.append(
        line_case("T.union_arrays", "reg/UnionArrays.1.0.dsdl", "@union\nuint8 zza\nuint8 zzb\n", "@extent 1024 * 8\n", ua, core_all=True)
    )

    inner = {
        "Empty": "@sealed\n",
        "EmptyD": "@extent 0\n",
        "FixS": "uint8 a\nint33 b\n@sealed\n",
        "VarS": "uint8[<=3] a\nbool[<=9] b\n@sealed\n",
        "FixD": "uint8 a\nfloat16 b\n@extent 64\n",
        "VarD": "uint16[<=3] a\n@extent 512\n",
        "UniS": "@union\nuint8 a\nfloat32[<=2] b\n@sealed\n",
        "UniD": "@union\nuint8 a\nreg.FixS.1.0 b\n@extent 256\n",
    }
    fixed = {f"reg/{k}.1.0.dsdl": v for k, v in inner.items()}
    fixed["reg/Deep.1.0.dsdl"] = "reg.Outer.1.0 o\nreg.OuterU.1.0[<=2] u\nreg.OuterD.1.0[2] d\n@extent 1024 * 1024 * 8\n"
    sk = {
        "reg/Outer.1.0.dsdl": ["uint3 k\n", "uint8 tail\n@sealed\n"],
        "reg/OuterU.1.0.dsdl": ["@union\nuint8 zza\nuint8 zzb\n", "@sealed\n"],
        "reg/OuterD.1.0.dsdl": ["", "@extent 1024 * 1024\n"],
    }
    members = []
    i = 0
    for k in inner:
        for suf in ("", "[2]", "[<=2]"):
            ln = f"reg.{k}.1.0{suf} n{i}"
            members.append(dict(label=f"nested:{k}{suf}", origin="type_shape", lines={rel: [ln] for rel in sk}))
            i += 1
    cases.append(
        dict(id="T.nested", layer="T", roots=["reg"], fixed=fixed, skeletons=sk, skeletons_required=True, members=members, core_all=True)
    )

    wide = [(f"wide:{_tag(e)}", f"{e} w{i}") for i, e in enumerate(x for x in sc if x.endswith("64"))]
    wide += [
        ("wide:uint8[<=4294967295]", "uint8[<=4294967295] big8"),
        ("wide:uint64[<=4294967296]", "uint64[<=4294967296] big64"),
        ("wide:uint64[65536]", "uint64[65536] fix64"),
        ("wide:bool[65537]", "bool[65537] bits"),
        ("wide:bool[<=65537]", "bool[<=65537] vbits"),
        ("wide:float64[<=65536]", "float64[<=65536] vf"),
    ]
    cases.append(line_case("T.wide", "reg/Wide.1.0.dsdl", "", "@sealed\n", wide))
    many = "".join(f"uint{1 + (i % 64)} m{i}\n" for i in range(160))
    cases.append(
        dict(
            id="T.many_fields",
            layer="T",
            roots=["reg"],
            fixed={},
            skeletons={},
            members=[
                dict(label="many_fields:struct160", origin="type_shape", files={"reg/Many.1.0.dsdl": many + "@sealed\n"}),
                dict(
                    label="many_fields:union257",
                    origin="type_shape",
                    files={"reg/ManyU.1.0.dsdl": "@union\n" + "".join(f"uint8 m{i}\n" for i in range(257)) + "@sealed\n"},
                ),
            ],
        )
    )
    cases += _boundary_cases()
    return cases


def _boundary_cases() -> typing.List[Case]:
    """Counts at the boundary of a tag / length-prefix width, where a generated comparison against a constant can
    become tautological (-Wtype-limits): unions with exactly 255 / 256 / 257 options (sealed, delimited, as service
    request and response, nested in a holder as field and arrays), array capacities 255 / 256 / 65535 / 65536 for
    uint8 and bool elements (variable and fixed), types with exactly one field.  (65535 / 65536 options are not
    affordable: the C++ variant of such a union cannot be compiled in minutes.)"""

    def union(n: int, tail: str = "@sealed\n") -> str:
        return "@union\n" + "".join(f"uint8 o{i}\n" for i in range(n)) + tail

    def ufiles(n: int) -> typing.Dict[str, str]:
        return {f"reg/U{n}.1.0.dsdl": union(n)}

    core = [
        dict(label="union_options:256:sealed", feature="union_options:256", name="sealed", origin="count_boundary", files=ufiles(256)),
        dict(
            label="union_options:256:holder",
            feature="union_options:256",
            name="holder",
            origin="count_boundary",
            files=dict(ufiles(256), **{"reg/Holder256.1.0.dsdl": "reg.U256.1.0 u\nreg.U256.1.0[2] f\nreg.U256.1.0[<=2] v\n@sealed\n"}),
        ),
        dict(label="union_options:256:delimited", feature="union_options:256", name="delimited", origin="count_boundary", files={"reg/U256D.1.0.dsdl": union(256, "@extent 64\n")}),
        dict(
            label="union_options:256:service",
            feature="union_options:256",
            name="service",
            origin="count_boundary",
            files={"reg/U256Svc.1.0.dsdl": union(256) + "---\n" + union(256, "@extent 64\n")},
        ),
    ]
    rest = core[2:]
    core = core[:2]
    for n in (255, 257):
        rest.append(dict(label=f"union_options:{n}:sealed", feature=f"union_options:{n}", name="sealed", origin="count_boundary", files=ufiles(n)))
        rest.append(
            dict(
                label=f"union_options:{n}:holder",
                feature=f"union_options:{n}",
                name="holder",
                origin="count_boundary",
                files=dict(ufiles(n), **{f"reg/Holder{n}.1.0.dsdl": f"reg.U{n}.1.0 u\nreg.U{n}.1.0[<=2] v\n@sealed\n"}),
            )
        )
        rest.append(dict(label=f"union_options:{n}:delimited", feature=f"union_options:{n}", name="delimited", origin="count_boundary", files={f"reg/U{n}D.1.0.dsdl": union(n, "@extent 64\n")}))
        rest.append(
            dict(
                label=f"union_options:{n}:service",
                feature=f"union_options:{n}",
                name="service",
                origin="count_boundary",
                files={f"reg/U{n}Svc.1.0.dsdl": union(n) + "---\n" + union(n)},
            )
        )
    for k, body in enumerate(["uint8 a\n", "bool a\n", "float32 a\n", "uint8[<=1] a\n", "bool[1] a\n", "@union\nuint8 a\nbool b\n"]):
        rest.append(dict(label=f"field_count:minimal:{k}", feature="field_count:minimal", name=body.replace("\n", ";"), origin="count_boundary", files={f"reg/One{k}.1.0.dsdl": body + "@sealed\n"}))
    rel = "reg/Caps.1.0.dsdl"
    caps = []
    for n in (255, 256, 65535, 65536):
        for t in ("uint8", "bool"):
            caps.append(dict(label=f"array_capacity:{t}[<={n}]", feature=f"array_capacity:var:{n}", name=t, origin="count_boundary", lines={rel: [f"{t}[<={n}] v{t}{n}"]}))
            caps.append(dict(label=f"array_capacity:{t}[{n}]", feature=f"array_capacity:fixed:{n}", name=t, origin="count_boundary", lines={rel: [f"{t}[{n}] f{t}{n}"]}))
    return [
        dict(id="T.boundary.core", layer="T", roots=["reg"], fixed={}, skeletons={}, members=core),
        dict(id="T.boundary.arrays", layer="T", roots=["reg"], fixed={}, skeletons={rel: ["", "@extent 8 * 1024 * 1024\n"]}, members=caps),
        dict(id="T.boundary.rest", layer="T", roots=["reg"], fixed={}, skeletons={}, members=rest, quick_core=False),
    ]


def _float_consts() -> typing.List[typing.Tuple[str, str, str]]:
    out = []
    lim = {"float16": "65504.0", "float32": "340282346638528859811704183484516925440.0", "float64": "1.7976931348623157e308"}
    tiny = {"float16": ["5.96e-8", "1e-9"], "float32": ["1.4e-45", "1e-46"], "float64": ["4.9e-324", "1e-320", "1e-330"]}
    for t in ("float16", "float32", "float64"):
        vals = [("min", "-" + lim[t]), ("neg1", "-1.0"), ("zero", "0.0"), ("one", "1.0"), ("max", lim[t])]
        vals += [(f"tiny{i}", v) for i, v in enumerate(tiny[t])] + [(f"negtiny{i}", "-" + v) for i, v in enumerate(tiny[t][:1])]
        vals += [("third", "1.0 / 3.0"), ("negthird", "-1.0 / 3.0"), ("tenth", "0.1"), ("int", "7"), ("bigratio", "(2 ** 70 + 1) / 3 ** 40")]
        out += [(t, k, v) for k, v in vals]
    return out


def layer5() -> typing.List[Case]:
    cases: typing.List[Case] = []

    def file_members(items: typing.List[typing.Tuple[str, typing.Dict[str, str]]], origin: str) -> typing.List[dict]:
        return [dict(label=lab, origin=origin, files=f) for lab, f in items]

    svc = [
        ("service:empty", {"reg/SvcEmpty.1.0.dsdl": "@sealed\n---\n@sealed\n"}),
        ("service:empty_extent", {"reg/SvcEmptyD.1.0.dsdl": "@extent 0\n---\n@extent 64\n"}),
        (
            "service:mixed",
            {
                "reg/SvcMixed.1.0.dsdl": "uint8 K = 3\nuint8 a\nbool[<=9] b\nfloat32[2] c\n@extent 512\n---\n"
                "@union\nuint8 K = 4\nuint8 ok\nuint16[<=3] err\n@sealed\n"
            },
        ),
        ("service:fixed_port", {"reg/100.SvcFixed.1.0.dsdl": "uint8 a\n@sealed\n---\nuint8 b\n@sealed\n"}),
        ("message:fixed_port", {"reg/7000.MsgFixed.1.0.dsdl": "uint8 a\n@sealed\n"}),
        (
            "service:composite_fields",
            {
                "reg/SvcInner.1.0.dsdl": "uint8 a\n@sealed\n",
                "reg/SvcComp.1.0.dsdl": "reg.SvcInner.1.0 a\nreg.SvcInner.1.0[<=2] b\n@sealed\n---\nreg.SvcInner.1.0[2] c\n@extent 1024\n",
            },
        ),
        ("service:const_only", {"reg/SvcConst.1.0.dsdl": "uint8 A = 1\n@sealed\n---\nint64 B = -1\n@sealed\n"}),
        ("service:two_versions", {"reg/SvcV.1.0.dsdl": "@extent 64\n---\n@sealed\n", "reg/SvcV.1.1.dsdl": "uint8 a\n@extent 64\n---\n@sealed\n"}),
    ]
    cases.append(dict(id="L5.services", layer="L5", roots=["reg"], fixed={}, skeletons={}, members=file_members(svc, "service"), core_all=True))

    dep = [
        ("deprecated:struct", {"reg/DepS.1.0.dsdl": "@deprecated\nuint8 a\nuint8 K = 1\n@sealed\n"}),
        ("deprecated:empty", {"reg/DepE.1.0.dsdl": "@deprecated\n@sealed\n"}),
        ("deprecated:union", {"reg/DepU.1.0.dsdl": "@deprecated\n@union\nuint8 a\nuint16 b\n@sealed\n"}),
        ("deprecated:delimited", {"reg/DepD.1.0.dsdl": "@deprecated\nuint8[<=3] a\n@extent 64\n"}),
        ("deprecated:service", {"reg/DepSvc.1.0.dsdl": "@deprecated\nuint8 a\n@sealed\n---\nuint8 b\n@sealed\n"}),
        (
            "deprecated:uses_deprecated",
            {
                "reg/DepInner.1.0.dsdl": "@deprecated\nuint8 a\n@sealed\n",
                "reg/DepUser.1.0.dsdl": "@deprecated\nreg.DepInner.1.0 a\nreg.DepInner.1.0[2] b\nreg.DepInner.1.0[<=2] c\n@sealed\n",
            },
        ),
        (
            "deprecated:union_uses_deprecated",
            {
                "reg/DepInner2.1.0.dsdl": "@deprecated\nuint8 a\n@sealed\n",
                "reg/DepUserU.1.0.dsdl": "@deprecated\n@union\nreg.DepInner2.1.0 a\nuint8 b\n@sealed\n",
            },
        ),
        (
            "deprecated:service_uses_deprecated",
            {
                "reg/DepInner3.1.0.dsdl": "@deprecated\nuint8 a\n@sealed\n",
                "reg/DepSvcUser.1.0.dsdl": "@deprecated\nreg.DepInner3.1.0 a\n@sealed\n---\nreg.DepInner3.1.0 b\n@sealed\n",
            },
        ),
        ("deprecated:old_version", {"reg/DepV.1.0.dsdl": "@deprecated\nuint8 a\n@sealed\n", "reg/DepV.1.1.dsdl": "uint8 a\n@sealed\n"}),
    ]
    cases.append(dict(id="L5.deprecated", layer="L5", roots=["reg"], fixed={}, skeletons={}, members=file_members(dep, "deprecated"), core_all=False))

    odd = [
        ("empty:sealed", {"reg/Empty.1.0.dsdl": "@sealed\n"}),
        ("empty:extent0", {"reg/EmptyD.1.0.dsdl": "@extent 0\n"}),
        ("empty:extent64", {"reg/EmptyX.1.0.dsdl": "@extent 64\n"}),
        ("empty:only_void", {"reg/OnlyVoid.1.0.dsdl": "void8\n@sealed\n"}),
        ("const_only:struct", {"reg/ConstOnly.1.0.dsdl": "uint8 A = 1\nfloat32 B = 0.5\nbool C = true\n@sealed\n"}),
        ("const_only:delimited", {"reg/ConstOnlyD.1.0.dsdl": "uint8 A = 1\n@extent 8\n"}),
        ("version:0.1", {"reg/Zero.0.1.dsdl": "uint8 a\n@sealed\n"}),
        ("version:255.255", {"reg/Max.255.255.dsdl": "uint8 a\n@sealed\n"}),
        ("assert_and_print", {"reg/Directives.1.0.dsdl": "uint8 a\n@assert _offset_ == {8}\n@print _offset_\n@sealed\n"}),
    ]
    cases.append(dict(id="L5.empty_const_only", layer="L5", roots=["reg"], fixed={}, skeletons={}, members=file_members(odd, "odd_type"), core_all=False))

    # fixed port-ID x content without any integer attribute (the port-ID itself needs an integer type in C++),
    # for messages and services; every configuration is part of the quick core.
    inner = {"reg/FpInner.1.0.dsdl": "float32 x\n@sealed\n"}
    contents = [
        ("only_floats", "float32 x\nfloat64 y\n", {}),
        ("only_bools", "bool a\nbool b\n", {}),
        ("only_composite", "reg.FpInner.1.0 c\n", inner),
        ("empty", "", {}),
        ("only_float_array", "float32[<=3] v\n", {}),
    ]
    fp = []
    for k, (tag, body, extra) in enumerate(contents):
        fp.append((f"fixed_port:message:{tag}", dict(extra, **{f"reg/{7100 + k}.FpMsg{k}.1.0.dsdl": body + "@sealed\n"})))
        fp.append((f"fixed_port:service:{tag}", dict(extra, **{f"reg/{300 + k}.FpSvc{k}.1.0.dsdl": body + "@sealed\n---\n" + body + "@sealed\n"})))
    cases.append(dict(id="L5.fixed_port", layer="L5", roots=["reg"], fixed={}, skeletons={}, members=file_members(fp, "fixed_port"), core_all=True))

    # one type per include-triggering feature, with that feature and nothing else (what a header needs from the
    # standard library must not depend on some other attribute happening to pull it in)
    sf_inner = {"reg/SfInner.1.0.dsdl": "float32 x\n@sealed\n"}
    single = [
        ("int_only_in_var_array", "uint8[<=64] data\n", {}),
        ("int_only_in_fixed_array_plus_float", "int16[4] q\nfloat32 w\n", {}),
        ("int_only_in_fixed_array", "uint8[4] q\n", {}),
        ("int64_only_in_var_array", "int64[<=2] q\n", {}),
        ("bool_only_in_var_array", "bool[<=8] flags\n", {}),
        ("bool_only_in_fixed_array", "bool[8] flags\n", {}),
        ("float_only_in_var_array", "float32[<=4] v\n", {}),
        ("float_only_in_fixed_array", "float64[3] v\n", {}),
        ("float16_only_in_fixed_array", "float16[3] v\n", {}),
        ("byte_only", "byte[<=4] b\n", {}),
        ("utf8_only", "utf8[<=4] s\n", {}),
        ("only_var_array_of_composites", "reg.SfInner.1.0[<=3] items\n", sf_inner),
        ("only_fixed_array_of_composites", "reg.SfInner.1.0[2] items\n", sf_inner),
        ("only_composite", "reg.SfInner.1.0 item\n", sf_inner),
        ("only_int_constant", "uint8 K = 1\n", {}),
        ("only_int64_constant", "int64 K = -1\n", {}),
        ("only_float_constant", "float32 K = 0.5\n", {}),
        ("only_bool_constant", "bool K = true\n", {}),
        ("only_bool", "bool a\n", {}),
        ("only_float32", "float32 a\n", {}),
        ("only_float16", "float16 a\n", {}),
        ("only_uint8", "uint8 a\n", {}),
        ("only_void", "void16\n", {}),
        ("union_of_floats", "@union\nfloat32 a\nfloat64 b\n", {}),
        ("union_of_bool_and_float_array", "@union\nbool a\nfloat32[2] b\n", {}),
        ("union_of_composites", "@union\nreg.SfInner.1.0 a\nreg.SfInner.1.0[<=2] b\n", sf_inner),
    ]
    sf = []
    for k, (tag, body, extra) in enumerate(single):
        sf.append((f"single_feature:{tag}", dict(extra, **{f"reg/Sf{k}.1.0.dsdl": body + "@sealed\n"})))
    for k, (tag, body, extra) in enumerate(single[:1] + single[4:5] + single[11:12]):
        sf.append((f"single_feature:{tag}:delimited", dict(extra, **{f"reg/SfD{k}.1.0.dsdl": body + "@extent 8192\n"})))
        sf.append((f"single_feature:{tag}:service_response", dict(extra, **{f"reg/SfS{k}.1.0.dsdl": "@sealed\n---\n" + body + "@sealed\n"})))
    cases.append(
        dict(
            id="L5.single_feature", layer="L5", roots=["reg"], fixed={}, skeletons={}, members=file_members(sf, "single_feature"),
            core_cfgs=["c||on", "c||omit", "cpp|c++14|on", "cpp|c++14|omit", "cpp|c++17|omit", "py||on"],
        )
    )

    # constants of every primitive kind
    groups: typing.Dict[str, typing.List[typing.Tuple[str, str]]] = {}

    def const(group: str, ty: str, key: str, val: str) -> None:
        lst = groups.setdefault(group, [])
        lst.append((f"const:{ty}:{key}", f"{ty} C{len(lst)} = {val}"))

    const("misc", "bool", "true", "true")
    const("misc", "bool", "false", "false")
    for key, val in (("char_a", "'a'"), ("char_backslash", "'\\\\'"), ("char_quote", "'\\''"), ("char_dquote", "'\"'"), ("hex", "0xFF"), ("bin", "0b1010"), ("oct", "0o17"), ("expr", "2 ** 7 - 1")):
        const("misc", "uint8", key, val)
    const("misc", "truncated uint8", "one", "1")
    const("misc", "saturated int8", "neg", "-128")
    for w in (1, 7, 8, 9, 16, 17, 32, 33, 63, 64):
        for key, val in (("zero", "0"), ("one", "1"), ("max", str(2**w - 1))):
            const("uint", f"uint{w}", key, val)
    for w in (2, 7, 8, 9, 16, 17, 32, 33, 63, 64):
        for key, val in (("min", str(-(2 ** (w - 1)))), ("neg1", "-1"), ("zero", "0"), ("one", "1"), ("max", str(2 ** (w - 1) - 1))):
            const("int", f"int{w}", key, val)
    for ty, key, val in _float_consts():
        const(ty, ty, key, val)
    for g, lst in groups.items():
        for b in range(0, len(lst), BATCH):
            rel = "reg/Consts.1.0.dsdl"
            cases.append(
                dict(
                    id=f"L5.constants.{g}.{b // BATCH}",
                    layer="L5",
                    roots=["reg"],
                    fixed={},
                    skeletons={rel: ["", "@sealed\n"]},
                    members=[dict(label=lab, origin="constant", lines={rel: [ln]}) for lab, ln in lst[b : b + BATCH]],
                    core_all=(g in ("int", "float64")),
                )
            )
    return cases


def layer6(accepted: typing.Dict[str, typing.List[NameEntry]]) -> typing.List[Case]:
    cases: typing.List[Case] = []
    # ---- attribute name x field kind
    for kind, (head, fmt, needs_inner) in FIELD_KINDS.items():
        fillers = ["zza", "zzb", "Inner", "Batch"]
        for b, batch in enumerate(batches(accepted["attr"], fillers)):
            rel = "reg/Batch.1.0.dsdl"
            cases.append(
                dict(
                    id=f"L6.attr.{kind}.{b:03d}",
                    layer="L6",
                    roots=["reg"],
                    fixed={"reg/Inner.1.0.dsdl": "uint8 a\n@sealed\n"} if needs_inner else {},
                    skeletons={rel: [head, "@sealed\n"]},
                    members=[
                        dict(
                            label=f"attr_name:{e.name}@{kind}",
                            feature=f"attr_name@{kind}",
                            origin=primary_origin(e),
                            name=e.name,
                            position=f"attr@{kind}",
                            lines={rel: [fmt.format(n=e.name)]},
                        )
                        for e in batch
                    ],
                )
            )
    # ---- type short name (each type is used once by a sibling so that references and includes are exercised)
    no_internal = lambda lst: [e for e in lst if not is_internal(e)]  # noqa: E731
    for b, batch in enumerate(batches(no_internal(accepted["type"]), [f"User{b}" for b in range(64)])):
        rel = f"reg/User{b}.1.0.dsdl"
        cases.append(
            dict(
                id=f"L6.type.{b:03d}",
                layer="L6",
                quick_core=not all(primary_origin(e) == "py_builtin" for e in batch),
                roots=["reg"],
                fixed={},
                skeletons={rel: ["", "@sealed\n"]},
                members=[
                    dict(
                        label=f"type_name:{e.name}",
                        feature="type_name",
                        origin=primary_origin(e),
                        name=e.name,
                        position="type",
                        files={f"reg/{e.name}.1.0.dsdl": "uint8 a\n@sealed\n"},
                        lines={rel: [f"reg.{e.name}.1.0 f{i}"]},
                    )
                    for i, e in enumerate(batch)
                ],
            )
        )
    # ---- nested namespace component
    for b, batch in enumerate(batches(no_internal(accepted["ns"]), ["T", "reg"] + [f"User{b}" for b in range(64)])):
        rel = f"reg/User{b}.1.0.dsdl"
        cases.append(
            dict(
                id=f"L6.ns.{b:03d}",
                layer="L6",
                quick_core=not all(primary_origin(e) == "py_builtin" for e in batch),
                roots=["reg"],
                fixed={},
                skeletons={rel: ["", "@sealed\n"]},
                members=[
                    dict(
                        label=f"ns_component:{e.name}",
                        feature="ns_component",
                        origin=primary_origin(e),
                        name=e.name,
                        position="ns",
                        files={f"reg/{e.name}/T.1.0.dsdl": "uint8 a\n@sealed\n"},
                        lines={rel: [f"reg.{e.name}.T.1.0 f{i}"]},
                    )
                    for i, e in enumerate(batch)
                ],
            )
        )
    # ---- root namespace name (cross-root use through lookup; every root is generated)
    stdlib = set(getattr(sys, "stdlib_module_names", ())) | PY_EXTRA_MODULES
    plain = [e for e in no_internal(accepted["root"]) if e.name not in stdlib]
    shadow = [e for e in no_internal(accepted["root"]) if e.name in stdlib]
    for tagname, lst, langs in (("root", plain, None), ("root_pymod", shadow, ["c", "cpp"])):
        for b, batch in enumerate(batches(lst, ["T", "usr"] + [f"User{b}" for b in range(64)])):
            rel = f"usr/User{b}.1.0.dsdl"
            c = dict(
                id=f"L6.{tagname}.{b:03d}",
                layer="L6",
                quick_core=not all(primary_origin(e) == "py_builtin" for e in batch),
                roots=["usr"],
                fixed={},
                skeletons={rel: ["", "@sealed\n"]},
                members=[
                    dict(
                        label=f"root_namespace:{e.name}",
                            feature="root_namespace",
                        origin=primary_origin(e),
                        name=e.name,
                        position="root",
                        files={f"{e.name}/T.1.0.dsdl": "uint8 a\n@sealed\n"},
                        roots=[e.name],
                        lines={rel: [f"{e.name}.T.1.0 f{i}"]},
                    )
                    for i, e in enumerate(batch)
                ],
            )
            if langs:
                c["langs"] = langs
            cases.append(c)
    return cases


HOSTILE_DOC = [
    ("close_c_comment", "a */ b"),
    ("open_c_comment", "a /* b"),
    ("cxx_comment", "a // b"),
    ("py_triple_dquote", 'a """ b'),
    ("py_triple_squote", "a ''' b"),
    ("backslash_eol", "ends with backslash \\"),
    ("backslash_mid", "a \\ b \\n \\x \\u12 \\N \\d"),
    ("html_close_pre", "a </pre> b"),
    ("html_comment_end", "a --> b <!-- c"),
    ("html_script", "<script>alert(1)</script> & \" '"),
    ("non_ascii", "héllo ☃ \U0001f600  x"),
    ("trigraph", "what??/ ??= ??( ??)"),
    ("trigraph_eol", "ends with trigraph ??/"),
    ("jinja", "{{ T }} {% if %} {# x #}"),
    ("percent", "%s %d %(x)s {0} {x}"),
    ("hash", "a # b ## c"),
    ("preprocessor", "#define X 1"),
    ("long_line", "word " * 60),
    ("empty_then_text", ""),
]


def wrap_probe_text(end: int) -> str:
    """A comment line in which the word ``C:\\logs\\`` ends exactly at text offset `end`, followed by more words."""
    word = "C:\\logs\\"
    plen = end - len(word)  # length of the prefix, which ends in a space
    k = plen // 5 - 1
    last = plen - 5 * k  # 5..9 characters incl. the trailing space
    prefix = "abcd " * k + "x" * (last - 1) + " "
    assert len(prefix) == plen and len(prefix + word) == end
    return prefix + word + " unless the operator overrides it in the configuration file of the node"


def layer7() -> typing.List[Case]:
    members = []
    rel_f, rel_c, rel_u = "reg/DocFields.1.0.dsdl", "reg/DocConsts.1.0.dsdl", "reg/DocUnion.1.0.dsdl"
    for i, (tag, text) in enumerate(HOSTILE_DOC):
        members.append(
            dict(
                label=f"doc:{tag}@type",
                origin="doc_comment",
                files={f"reg/DocT{i}.1.0.dsdl": f"# {text}\n# second line\nuint8 a\n@sealed\n"},
            )
        )
        members.append(
            dict(
                label=f"doc:{tag}@service",
                origin="doc_comment",
                files={f"reg/DocS{i}.1.0.dsdl": f"# {text}\nuint8 a # {text}\n@sealed\n---\n# {text}\nuint8 K = 1 # {text}\n@sealed\n"},
            )
        )
        members.append(dict(label=f"doc:{tag}@field", origin="doc_comment", lines={rel_f: [f"uint8 f{i} # {text}", "# second line", ""]}))
        members.append(dict(label=f"doc:{tag}@constant", origin="doc_comment", lines={rel_c: [f"uint8 K{i} = {i} # {text}", "# second line", ""]}))
        members.append(dict(label=f"doc:{tag}@union_field", origin="doc_comment", lines={rel_u: [f"uint8 f{i} # {text}", ""]}))
    # A word ending in a backslash positioned so that it ends at every column around the width at which the C++
    # templates wrap doc comments (120 columns minus indent and comment prefix): the text wrapper then makes it the
    # LAST word of a wrapped line, which must not become a line continuation.
    hostile, members = members, []
    for end in range(84, 123):
        text = wrap_probe_text(end)
        members.append(dict(label=f"doc:wrap_backslash_end{end}@field", feature="doc:wrap_backslash@field", name=str(end), origin="doc_comment", lines={rel_f: [f"uint8 w{end} # {text}", ""]}))
        members.append(dict(label=f"doc:wrap_backslash_end{end}@constant", feature="doc:wrap_backslash@constant", name=str(end), origin="doc_comment", lines={rel_c: [f"uint8 W{end} = 1 # {text}", ""]}))
        members.append(dict(label=f"doc:wrap_backslash_end{end}@union_field", feature="doc:wrap_backslash@union_field", name=str(end), origin="doc_comment", lines={rel_u: [f"uint8 w{end} # {text}", ""]}))
        if end >= 94:
            members.append(
                dict(
                    label=f"doc:wrap_backslash_end{end}@type",
                    feature="doc:wrap_backslash@type",
                    name=str(end),
                    origin="doc_comment",
                    files={f"reg/DocW{end}.1.0.dsdl": f"# {text}\n# second line\nuint8 a\n@sealed\n"},
                )
            )
    cases = []
    for family, lst, extra in (("doc", hostile, {}), ("wrap", members, {"langs": ["c", "cpp"]})):
        for b in range(0, len(lst), BATCH):
            cases.append(
                dict(
                    id=f"L7.{family}.{b // BATCH}",
                    layer="L7",
                    roots=["reg"],
                    fixed={},
                    skeletons={
                        rel_f: ["", "@sealed\n"],
                        rel_c: ["", "@sealed\n"],
                        rel_u: ["@union\nuint8 zza\nuint8 zzb\n", "@sealed\n"],
                    },
                    members=lst[b : b + BATCH],
                    **extra,
                )
            )
    return cases


def layer8() -> typing.List[Case]:
    """Namespace shapes: depth 1..3, several versions of a type, cross-root dependencies in both directions."""
    paths = ["", "x", "x/y", "x/y/if", "y", "if"]
    universe = []  # (root, path, short, version)
    for p in paths:
        universe.append(("reg", p, "A", "1.0"))
    universe.append(("reg", "x", "A", "1.1"))
    universe.append(("reg", "x", "A", "2.0"))
    universe.append(("reg", "x/y", "B", "1.0"))
    universe.append(("reg", "", "Struct_", "1.0"))
    universe.append(("reg", "y", "if_", "0.1"))
    universe.append(("dep", "", "A", "1.0"))
    universe.append(("dep", "x", "A", "1.1"))
    universe.append(("dep", "x/y/if", "B", "1.0"))

    def full(u: typing.Tuple[str, str, str, str]) -> str:
        root, p, s, v = u
        return ".".join([root] + [x for x in p.split("/") if x] + [s, v])

    def rel(u: typing.Tuple[str, str, str, str], short: typing.Optional[str] = None) -> str:
        root, p, s, v = u
        return "/".join([root] + [x for x in p.split("/") if x] + [f"{short or s}.{v}.dsdl"])

    fixed = {rel(u): f"uint8 v{k}\n@sealed\n" for k, u in enumerate(universe)}
    members = []
    for i, a in enumerate(universe):
        for j, b in enumerate(universe):
            if i == j:
                continue
            # a reference type living next to `a` that depends on `b` (field, fixed array, variable array)
            r = (a[0], a[1], f"R{i}x{j}", "1.0")
            kind = "cross_root" if a[0] != b[0] else "same_root"
            shape = "reserved_component" if "if" in (a[1] + "/" + b[1]).split("/") else "plain"
            members.append(
                dict(
                    label=f"ref:{kind}:{'.'.join(full(a).split('.')[:-3]) or a[0]}->{full(b)}",
                    feature=f"ref:{kind}:{shape}",
                    name=f"{'.'.join(full(a).split('.')[:-3]) or a[0]}->{full(b)}",
                    origin="namespace_shape",
                    files={rel(r): f"{full(b)} a\n{full(b)}[2] b\n{full(b)}[<=2] c\n@sealed\n"},
                )
            )
    cases = []
    step = 33
    for b in range(0, len(members), step):
        cases.append(
            dict(
                id=f"L8.refs.{b // step:02d}",
                layer="L8",
                roots=["reg", "dep"],
                fixed=fixed,
                skeletons={},
                members=members[b : b + step],
            )
        )
    # services and unions across roots, plus a chain of depth 3 across roots
    chain = {
        "reg/c/L0.1.0.dsdl": "uint8 a\n@sealed\n",
        "dep/c/L1.1.0.dsdl": "reg.c.L0.1.0 a\n@sealed\n",
        "reg/c/L2.1.0.dsdl": "dep.c.L1.1.0[<=2] a\n@extent 1024\n",
        "dep/c/L3.1.0.dsdl": "@union\nreg.c.L2.1.0 a\nreg.c.L0.1.0 b\n@sealed\n",
        "reg/c/Svc.1.0.dsdl": "dep.c.L3.1.0 a\n@sealed\n---\ndep.c.L1.1.0[2] b\n@sealed\n",
    }
    cases.append(
        dict(
            id="L8.chain",
            layer="L8",
            roots=["reg", "dep"],
            fixed={},
            skeletons={},
            members=[dict(label="ref:cross_root_chain", origin="namespace_shape", files=chain)],
            core_all=True,
        )
    )
    cases += _version_pair_cases()
    cases.append(_guard_fold_case())
    return cases


def _guard_fold_case() -> Case:
    """Two types whose full names differ but coincide after case folding / snake-casing (CamelCase type vs nested
    namespace + type, acronyms, underscore vs case boundary), used side by side by a third type: whatever a target
    derives from the full name by a lossy conversion (include guards) must not make the user's header unusable.
    The C / C++ / Python type identifiers of each pair are distinct (only the case or a separator differs)."""
    pairs = [
        ("camel_vs_namespace", "FooBar", "foo/Bar"),
        ("acronym_vs_namespace", "HTTPServer", "http/Server"),
        ("lower_camel_vs_namespace", "fooBar", "foo/Bar"),
        ("underscore_vs_namespace", "Foo_Bar", "foo/Bar"),
        ("camel_vs_underscore", "FooBar", "Foo_Bar"),
        # (names differing only by letter case are rejected by PyDSDL: DataTypeNameCollisionError)
    ]
    members = []
    for k, (tag, a, b) in enumerate(pairs):
        ns = f"reg/g{k}"
        fa, fb = (f"reg.g{k}." + x.replace("/", ".") + ".1.0" for x in (a, b))
        members.append(
            dict(
                label=f"guard_fold:{tag}",
                feature="guard_fold",
                name=tag,
                origin="name_fold",
                files={
                    f"{ns}/{a}.1.0.dsdl": "uint8 a\n@sealed\n",
                    f"{ns}/{b}.1.0.dsdl": "uint16 b\n@sealed\n",
                    f"{ns}/User.1.0.dsdl": f"{fa} a\n{fb} b\n@sealed\n",
                    **({f"{ns}/UserRev.1.0.dsdl": f"{fb} b\n{fa}[<=2] a\n@sealed\n"} if k == 0 else {}),
                },
            )
        )
    return dict(id="L8.guard_fold", layer="L8", roots=["reg"], fixed={}, skeletons={}, members=members)


def _version_pair_cases() -> typing.List[Case]:
    """Several versions of ONE dependency used side by side inside one definition: a struct, a union or a service
    (one version in the request, the other in the response) whose attributes refer to the same full type name in
    two different versions - the dependency living in another root namespace or in the owner's own namespace, used
    as scalar/scalar or mixed with arrays, in both version orders, for major (1.0/2.0) and minor (1.0/1.1) pairs.
    Every owner is its own header/module; the versions of the dependency do not include each other."""
    fixed = {
        "dep/geo/Point.1.0.dsdl": "float32 x\n@sealed\n",
        "dep/geo/Point.1.1.dsdl": "float32 y\n@sealed\n",
        "dep/geo/Point.2.0.dsdl": "float64 x\nfloat64 y\n@sealed\n",
        "reg/v/Pt.1.0.dsdl": "float32 x\n@sealed\n",
        "reg/v/Pt.1.1.dsdl": "float32 y\n@sealed\n",
        "reg/v/Pt.2.0.dsdl": "float64 x\nfloat64 y\n@sealed\n",
    }
    locations = {"cross_root": "dep.geo.Point", "same_namespace": "reg.v.Pt"}
    pairs = [("major", "1.0", "2.0"), ("major", "2.0", "1.0"), ("minor", "1.0", "1.1"), ("minor", "1.1", "1.0")]
    modes = {
        "scalar_scalar": lambda a, b: [f"{a} p", f"{b} q"],
        "scalar_scalar_with_arrays": lambda a, b: [f"{a} p", f"{b} q", f"{a}[<=2] pa", f"{b}[2] qa"],
        "scalar_then_array": lambda a, b: [f"{a} p", f"{b}[<=2] qa"],
        "array_then_scalar": lambda a, b: [f"{a}[2] pa", f"{b} q"],
    }
    core: typing.List[dict] = []
    rest: typing.List[dict] = []
    n = 0
    for loc, base in locations.items():
        for pk, va, vb in pairs:
            for mode, mk in modes.items():
                for owner in ("struct", "union", "service"):
                    lines = mk(f"{base}.{va}", f"{base}.{vb}")
                    if owner == "struct":
                        text = "".join(x + "\n" for x in lines) + "@sealed\n"
                    elif owner == "union":
                        text = "@union\n" + "".join(x + "\n" for x in lines) + "@sealed\n"
                    else:  # first version only in the request, second only in the response
                        req = [x for x in lines if x.split()[1].startswith("p")]
                        rsp = [x for x in lines if x.split()[1].startswith("q")]
                        text = "".join(x + "\n" for x in req) + "@sealed\n---\n" + "".join(x + "\n" for x in rsp) + "@sealed\n"
                    m = dict(
                        label=f"two_versions:{owner}:{loc}:{pk}:{va}+{vb}:{mode}",
                        feature=f"two_versions:{owner}:{loc}:{pk}",
                        name=f"{va}+{vb}:{mode}",
                        origin="version_pair",
                        files={f"reg/v/Own{n}.1.0.dsdl": text},
                    )
                    n += 1
                    in_core = (pk == "major" and mode == "scalar_scalar") or (
                        owner == "struct" and (va, vb) == ("1.0", "1.1") and mode in ("scalar_scalar", "scalar_scalar_with_arrays")
                    )
                    (core if in_core else rest).append(m)
    out: typing.List[Case] = [
        dict(id="L8.versions.core", layer="L8", roots=["reg", "dep"], fixed=fixed, skeletons={}, members=core)
    ]
    for b in range(0, len(rest), BATCH):
        out.append(
            dict(
                id=f"L8.versions.{b // BATCH}",
                layer="L8",
                roots=["reg", "dep"],
                fixed=fixed,
                skeletons={},
                members=rest[b : b + BATCH],
                quick_core=False,
            )
        )
    return out


# ------------------------------------------------------------------------------------------------- the universe
def build(scratch: pathlib.Path, pool_map: typing.Optional[typing.Callable] = None, validate: bool = True) -> typing.Tuple[typing.List[Case], dict]:
    """Returns (cases, info). `info` records the alphabet sizes and what PyDSDL filtered out."""
    global _SCRATCH  # pylint: disable=global-statement
    _SCRATCH = pathlib.Path(scratch) / "nsspace"
    _SCRATCH.mkdir(parents=True, exist_ok=True)
    mapper = pool_map or (lambda f, items, chunksize=1: [f(i) for i in items])
    raw = raw_alphabet()
    # warm up in the parent (PyDSDL compiles its grammar on the first parse; forked workers inherit it)
    if accepts(_SCRATCH / "warm", _probe_nss("warm", _POSITIONS)) is not None:
        raise HarnessError("nsspace: PyDSDL rejects the trivial probe namespace")
    stropped_images("warm")
    res = mapper(_probe, [e.name for e in raw], 8)
    accepted: typing.Dict[str, typing.List[NameEntry]] = {p: [] for p in _POSITIONS}
    rejected: typing.Dict[str, typing.List[str]] = {p: [] for p in _POSITIONS}
    for e, verdict in zip(raw, res):
        for pos in _POSITIONS:
            if verdict[pos]:
                accepted[pos].append(e)
            else:
                rejected[pos].append(e.name)
    cases = layer_types() + layer5() + layer6(accepted) + layer7() + layer8()
    ids = [c["id"] for c in cases]
    if len(set(ids)) != len(ids):
        raise HarnessError("nsspace: duplicate case ids")
    if validate:
        errs = mapper(_validate, cases, 4)
        bad = [(c["id"], e) for c, e in zip(cases, errs) if e]
        if bad:
            raise HarnessError(f"nsspace: PyDSDL rejects {len(bad)} assembled case(s): {bad}")
    info = {
        "alphabet_raw": len(raw),
        "accepted": {p: len(v) for p, v in accepted.items()},
        "rejected_by_pydsdl": {p: sorted(v) for p, v in rejected.items()},
        "origins": sorted({o for e in raw for o in e.origins}),
        "cases": len(cases),
        "members": sum(len(c.get("members", [])) for c in cases),
        "patterns_without_accepted_witness": [
            f"{lang}:{ty}:{p}"
            for lang, ty, p in reserved_patterns()
            if not any(re.compile(p).match(e.name) for e in accepted["attr"])
        ],
    }
    return cases, info


def _validate(case: Case) -> typing.Optional[str]:
    assert _SCRATCH is not None
    tmp = _SCRATCH / f"val{os.getpid()}"
    err = accepts(tmp, assemble(case))
    if err:
        return err
    # the empty selection (skeletons only) must be valid too: it is the bisection baseline
    nss = assemble(case, [])
    if nss["files"]:
        return accepts(tmp, nss)
    return None
