"""
E6 `twinjinja` - render one template source in several template engines living in one process and return, per
engine, the rendered text or the *family* of the exception (never the message).

Engines
  bundled   nunavut.jinja.jinja2 (a 2.11.dev snapshot with Nunavut's lexer/parser/filter additions) from VERIF_REPO
  stock     the unmodified Jinja2 installed in /venv (3.1.x)
  pristine  the bundled engine with Nunavut's additions to the *root lexing rule* taken out again by textual surgery on
            the compiled regular expression (the alternatives `[ \\t]*<start>\\*`).  It is never an oracle: it is used to
            attribute a bundled/stock difference either to Nunavut's edit (pristine agrees with stock) or to upstream
            drift between the 2.11.dev snapshot and 3.1 (pristine still disagrees with stock), which is what justifies
            an entry in the list of constructs excluded from the common language.
"""
from __future__ import annotations

import re
import typing

from vf.core import REPO, HarnessError, setup_paths

setup_paths()

LOADER_LF = {
    "inc": "I[{{ v }}]\n  i2\n",
    "lib": "{% macro f(a) %}<{{ a }}>{% endmacro %}{% set k = 7 %}",
    "base": "B:{% block b %}bb{% endblock %}:{% block c %}cc{% endblock %}:E\n",
    "inch": "<p>{{ h }}\n  {{ mk }}\n",
}

FLAGS: typing.Dict[str, typing.Dict[str, bool]] = {
    "plain": {},
    "trim_blocks": {"trim_blocks": True},
    "lstrip_blocks": {"lstrip_blocks": True},
    "trim+lstrip": {"trim_blocks": True, "lstrip_blocks": True},
    "keep_trailing_newline": {"keep_trailing_newline": True},
}
LINE_ENDINGS = ("lf", "crlf")


def with_le(text: str, le: str) -> str:
    if le == "lf":
        return text
    return text.replace("\r\n", "\n").replace("\n", "\r\n")


class MarkupSpec(typing.NamedTuple):
    """Placeholder in a context: replaced at render time by the Markup class of the rendering engine."""

    text: str


def contexts() -> typing.List[typing.Dict[str, typing.Any]]:
    """Three contexts; the name `u` is undefined in the first one. `h` is a plain string with HTML-special characters,
    `mk` a Markup object (of the engine's own Markup class) whose text contains markup and an entity."""
    return [
        {
            "v": "val",
            "s": "str",
            "n": 3,
            "l": [1, 2, 3],
            "d": {"k": "dv"},
            "b": True,
            "m": "l1\nl2\n\nl4",
            "e": [],
            "h": "<a href='x'>&\"q\"</a>\n\n <b>",
            "mk": MarkupSpec("<i>&amp;</i>\n\n <u a=\"1\">"),
        },
        {
            "v": "",
            "s": "x y",
            "n": 0,
            "l": [],
            "d": {},
            "b": False,
            "m": "one",
            "u": None,
            "e": [],
            "h": "plain",
            "mk": MarkupSpec(""),
        },
        {
            "h": "a&b\r\n<c>\r\n",
            "mk": MarkupSpec("&lt;\r\n'x' > y\n"),
            "v": "a\r\nb",
            "s": "<&>",
            "n": -2,
            "l": ["p", "q"],
            "d": {"k": [1]},
            "b": 1,
            "m": "x\r\n\r\n  y\n",
            "u": "U",
            "e": [0],
        },
    ]


# ------------------------------------------------------------------------------------------------ engines
_mods: typing.Dict[str, typing.Any] = {}
_envs: typing.Dict[tuple, typing.Any] = {}
pristine_info: typing.Dict[str, typing.Any] = {}


def engine_module(engine: str) -> typing.Any:
    if engine in _mods:
        return _mods[engine]
    if engine == "stock":
        import jinja2 as mod  # the one installed in /venv

        f = str(getattr(mod, "__file__", ""))
        if "nunavut" in f or f.startswith(str(REPO)) or not mod.__version__.startswith("3."):
            raise HarnessError(f"stock engine is not the unmodified Jinja2 3.x of the environment: {f} {mod.__version__}")
    else:
        import nunavut.jinja.jinja2 as mod  # type: ignore

        f = str(getattr(mod, "__file__", ""))
        if not f.startswith(str(REPO)):
            raise HarnessError(f"bundled engine is not imported from {REPO}: {f}")
    _mods[engine] = mod
    return mod


def _pristine_lexer(env: typing.Any) -> typing.Any:
    """A private Lexer of the bundled engine whose root rule no longer contains Nunavut's marker alternatives."""
    import nunavut.jinja.jinja2.lexer as blexer

    lx = blexer.Lexer(env)  # constructor, not the shared get_lexer() cache
    regex, tokens, new_state = lx.rules["root"][0]
    pat = regex.pattern
    n = 0
    for start in (env.block_start_string, env.variable_start_string, env.comment_start_string):
        # `|[ \t]*<start>\*` as written by Nunavut; tolerate small variations of the blank class and of the star
        needle = re.compile(r"\|(?:\[ \\t\]|\\s)[*+]" + re.escape(re.escape(start)) + r"\\\*\??")
        pat, k = needle.subn("", pat)
        n += k
    pristine_info["alternatives_removed"] = n
    lx.rules["root"][0] = (re.compile(pat, regex.flags), tokens, new_state)
    return lx


def engine_markup(engine: str) -> typing.Any:
    """Each engine's own Markup class."""
    if engine == "stock":
        import markupsafe

        return markupsafe.Markup
    import nunavut.jinja.markupsafe as bms

    return bms.Markup


Flags = typing.Union[str, typing.Tuple[typing.Tuple[str, typing.Any], ...]]  # a name of FLAGS or explicit options


def get_env(
    engine: str,
    flags: Flags,
    le: str = "lf",
    extensions: typing.Sequence[typing.Any] = (),
    autoescape: bool = False,
) -> typing.Any:
    key = (engine, flags, le, tuple(str(e) for e in extensions), autoescape)
    env = _envs.get(key)
    if env is not None:
        return env
    mod = engine_module(engine)
    loader = mod.DictLoader({k: with_le(v, le) for k, v in LOADER_LF.items()})
    kw: typing.Dict[str, typing.Any] = dict(FLAGS[flags]) if isinstance(flags, str) else dict(flags)
    kw["autoescape"] = autoescape
    if extensions:
        kw["extensions"] = list(extensions)  # type: ignore
    if engine == "pristine":

        class PristineEnvironment(mod.Environment):  # type: ignore
            _c19_lexer = None

            @property
            def lexer(self) -> typing.Any:
                if self._c19_lexer is None:
                    type(self)._c19_lexer = _pristine_lexer(self)
                return self._c19_lexer

        env = PristineEnvironment(loader=loader, **kw)
    else:
        env = mod.Environment(loader=loader, **kw)
    env.c19_markup = engine_markup(engine)
    _envs[key] = env
    return env


_FAMILIES = (
    ("notfound", "TemplateNotFound"),
    ("assertion", "TemplateAssertionError"),
    ("syntax", "TemplateSyntaxError"),
    ("undefined", "UndefinedError"),
    ("security", "SecurityError"),
    ("runtime", "TemplateRuntimeError"),
    ("template", "TemplateError"),
)


def family(exc: BaseException) -> str:
    names = {c.__name__ for c in type(exc).__mro__}
    for tag, n in _FAMILIES:
        if n in names:
            return tag
    return "py:" + type(exc).__name__


Outcome = typing.Tuple[str, str]  # ("ok", text) | ("err", family)


COUNT = {"compiles": 0, "renders": 0}  # per process; workers report deltas


def render_env(env: typing.Any, src: str, ctxs: typing.Sequence[typing.Mapping[str, typing.Any]]) -> typing.List[Outcome]:
    COUNT["compiles"] += 1
    try:
        t = env.from_string(src)
    except Exception as e:  # pylint: disable=broad-except
        return [("err", family(e))] * len(ctxs)
    out: typing.List[Outcome] = []
    mk = getattr(env, "c19_markup", None)
    for c in ctxs:
        COUNT["renders"] += 1
        if mk is not None and any(isinstance(v, MarkupSpec) for v in c.values()):
            c = {k: (mk(v.text) if isinstance(v, MarkupSpec) else v) for k, v in c.items()}
        try:
            out.append(("ok", t.render(**c)))
        except Exception as e:  # pylint: disable=broad-except
            out.append(("err", family(e)))
    return out


def render(
    engine: str,
    flags: Flags,
    le: str,
    src: str,
    ctxs: typing.Sequence[typing.Mapping[str, typing.Any]],
    autoescape: bool = False,
) -> typing.List[Outcome]:
    return render_env(get_env(engine, flags, le, (), autoescape), with_le(src, le), ctxs)


# ------------------------------------------------------------------------------------------------ token streams
ROOT_ALTERNATIVES = ("comment", "block", "variable", "raw", "linestatement", "linecomment")
_DROPPED = {
    "whitespace",
    "comment_begin",
    "comment",
    "comment_end",
    "linecomment_begin",
    "linecomment",
    "linecomment_end",
    "raw_begin",
    "raw_end",
}
_VALUED = {"name", "integer", "float", "string", "operator"}

TokenResult = typing.Tuple[str, typing.Any]  # ("ok", tuple of (type, value|None)) | ("err", family)


def lex_norm(engine: str, flags: Flags, le: str, src: str) -> typing.Tuple[TokenResult, typing.FrozenSet[str]]:
    """The parser-visible token stream of `src` in a version-independent normal form, and the set of root-rule
    alternatives the lexer took.  Taken from Environment.lex() (raw tokens).  Normal form: tokens the parser never sees
    are dropped (whitespace, comments, line comments, raw delimiters), line statement delimiters become block
    delimiters (as Lexer.wrap does), delimiter tokens keep their type only (2.x keeps stripped blanks inside the
    delimiter token, 3.x removes them from the data token: same text reaches the output), adjacent data tokens are
    merged with newlines normalised, empty data is dropped."""
    env = get_env(engine, flags, le)
    alts: typing.Set[str] = set()
    out: typing.List[typing.Tuple[str, typing.Any]] = []
    try:
        for _lineno, tok, value in env.lex(with_le(src, le)):
            if tok.endswith("_begin") and tok[:-6] in ROOT_ALTERNATIVES:
                alts.add(tok[:-6])
            if tok in _DROPPED:
                continue
            if tok == "data":
                value = value.replace("\r\n", "\n").replace("\r", "\n")
                if not value:
                    continue
                if out and out[-1][0] == "data":
                    out[-1] = ("data", out[-1][1] + value)
                else:
                    out.append(("data", value))
                continue
            if tok.startswith("linestatement_"):
                tok = "block_" + tok[len("linestatement_") :]
            out.append((tok, value if tok in _VALUED else None))
    except Exception as e:  # pylint: disable=broad-except
        return ("err", family(e)), frozenset(alts)
    return ("ok", tuple(out)), frozenset(alts)
