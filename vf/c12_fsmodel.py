"""
E5 `fsmodel` as used by C12: the pieces needed to treat "the state of an output directory" as an explicit state.

* `drop_dac_caps()`     - make uid 0 obey file permission bits (drops CAP_DAC_OVERRIDE + CAP_DAC_READ_SEARCH of the
                          calling process through capget/capset, and from the bounding set so that programs it exec's
                          do not get them back) and prove it on a 0o444 probe file, in-process and through /bin/sh.
* `snap()` / `key_of()` - canonical snapshot of a tree: relative path -> (sha256 of the bytes | 'dir' | 'link:<to>',
                          st_mode & 0o7777).  Dropped on purpose: mtime/ctime/inode (the property speaks of content and
                          mode only), size (implied by the hash), owner (never changed by an unprivileged run).
* `copy_tree()`         - rebuild a state from a stored directory image, preserving the mode of every file and directory.
* `rm_tree()`           - remove a tree even if a run left non-writable directories behind.
* `freeze_clock()`      - the only two wall-clock reads that reach generated text (`datetime.utcnow()` in
                          nunavut.jinja, `time.time()` seen by gzip in the py `pickle` filter) return a constant, so that
                          "the bytes a run into an empty directory would produce" is a well-defined value.
* `install_template_bytecode_cache()` - Jinja's own `bytecode_cache` extension point, kept in memory per process
                          (compiling the templates is 85 % of an nnvg run and is unrelated to the property).
* `forked()`            - run a callable in a forked child and return its (pickled) result.
"""
from __future__ import annotations

import ctypes
import hashlib
import json
import os
import pathlib
import pickle
import stat
import types
import typing

from vf.core import HarnessError

CAP_DAC_OVERRIDE = 1
CAP_DAC_READ_SEARCH = 2
_LINUX_CAPABILITY_VERSION_3 = 0x20080522
_PR_CAPBSET_DROP = 24

Snapshot = typing.Dict[str, typing.Tuple[str, int]]


# ------------------------------------------------------------------------------------------ capabilities
class _CapHeader(ctypes.Structure):
    _fields_ = [("version", ctypes.c_uint32), ("pid", ctypes.c_int)]


class _CapData(ctypes.Structure):
    _fields_ = [("effective", ctypes.c_uint32), ("permitted", ctypes.c_uint32), ("inheritable", ctypes.c_uint32)]


_dropped_in_pid: typing.Optional[int] = None


def _probe_readonly_is_enforced(probe_dir: pathlib.Path) -> bool:
    p = probe_dir / f".c12-capprobe.{os.getpid()}"
    with open(p, "w", encoding="utf-8") as f:
        f.write("probe")
    os.chmod(p, 0o444)
    try:
        try:
            with open(p, "w", encoding="utf-8") as f:
                f.write("overwritten")
            return False
        except PermissionError:
            pass
        # a program exec'd by uid 0 gets its permitted set back from the bounding set: it must be refused as well
        # (external post-processor programs run as children of the generator)
        import subprocess

        sub = subprocess.run(["/bin/sh", "-c", 'echo child >> "$0"', str(p)], stderr=subprocess.DEVNULL, check=False)
        with open(p, "r", encoding="utf-8") as f:  # reading what we own must keep working
            if f.read() != "probe":
                if sub.returncode == 0:
                    return False
                raise HarnessError("capability probe file changed although the write was refused")
        if sub.returncode == 0:
            raise HarnessError("capability probe: shell reports success on a 0o444 file whose content did not change")
        return True
    finally:
        os.unlink(p)  # needs w+x on the directory only; we own it


def drop_dac_caps(probe_dir: pathlib.Path) -> None:
    """Idempotent per process (children inherit the reduced sets). Raises HarnessError if 0o444 is not enforced after."""
    global _dropped_in_pid  # pylint: disable=global-statement
    if _dropped_in_pid is not None:
        return
    if os.geteuid() != 0 and _probe_readonly_is_enforced(probe_dir):
        _dropped_in_pid = os.getpid()  # an ordinary user: nothing to drop
        return
    libc = ctypes.CDLL(None, use_errno=True)
    for cap in (CAP_DAC_OVERRIDE, CAP_DAC_READ_SEARCH):  # bounding set first (needs CAP_SETPCAP, which we still hold)
        if libc.prctl(_PR_CAPBSET_DROP, cap, 0, 0, 0) != 0:
            raise HarnessError(f"prctl(PR_CAPBSET_DROP, {cap}) failed: errno {ctypes.get_errno()}")
    hdr = _CapHeader(_LINUX_CAPABILITY_VERSION_3, 0)
    data = (_CapData * 2)()
    if libc.capget(ctypes.byref(hdr), data) != 0:
        raise HarnessError(f"capget failed: errno {ctypes.get_errno()}")
    for cap in (CAP_DAC_OVERRIDE, CAP_DAC_READ_SEARCH):
        word, bit = divmod(cap, 32)
        mask = ~(1 << bit) & 0xFFFFFFFF
        data[word].effective &= mask
        data[word].permitted &= mask
        data[word].inheritable &= mask
    hdr = _CapHeader(_LINUX_CAPABILITY_VERSION_3, 0)
    if libc.capset(ctypes.byref(hdr), data) != 0:
        raise HarnessError(f"capset failed: errno {ctypes.get_errno()}")
    if not _probe_readonly_is_enforced(probe_dir):
        raise HarnessError("a 0o444 file is still writable after dropping CAP_DAC_OVERRIDE/CAP_DAC_READ_SEARCH")
    _dropped_in_pid = os.getpid()


def caps_dropped() -> bool:
    return _dropped_in_pid is not None


# ------------------------------------------------------------------------------------------ snapshots
def _read_owned(path: str, mode: int) -> bytes:
    """Read a file we own even if its mode forbids it (a broken run may leave 0o000); the mode is restored."""
    try:
        with open(path, "rb") as f:
            return f.read()
    except PermissionError:
        os.chmod(path, mode | 0o400)
        try:
            with open(path, "rb") as f:
                return f.read()
        finally:
            os.chmod(path, mode)


def snap(root: pathlib.Path) -> Snapshot:
    out: Snapshot = {}
    root_s = str(root)

    def walk(d: str, rel: str) -> None:
        st_d = os.lstat(d)
        dmode = stat.S_IMODE(st_d.st_mode)
        if dmode & 0o500 != 0o500:
            os.chmod(d, dmode | 0o500)
        try:
            names = sorted(os.listdir(d))
            for name in names:
                p = d + "/" + name
                r = rel + name
                st = os.lstat(p)
                m = stat.S_IMODE(st.st_mode)
                if stat.S_ISLNK(st.st_mode):
                    out[r] = ("link:" + os.readlink(p), m)
                elif stat.S_ISDIR(st.st_mode):
                    out[r + "/"] = ("dir", m)
                    walk(p, r + "/")
                elif stat.S_ISREG(st.st_mode):
                    out[r] = (hashlib.sha256(_read_owned(p, m)).hexdigest(), m)
                else:
                    out[r] = ("special", m)
        finally:
            if dmode & 0o500 != 0o500:
                os.chmod(d, dmode)

    walk(root_s, "")
    return out


def key_of(snapshot: Snapshot) -> str:
    return hashlib.sha256(json.dumps(sorted(snapshot.items())).encode()).hexdigest()[:20]


def files_of(snapshot: Snapshot) -> Snapshot:
    """Only the non-directory entries (what the property speaks about)."""
    return {p: v for p, v in snapshot.items() if v[0] != "dir"}


# ------------------------------------------------------------------------------------------ images
def store_image(work: pathlib.Path, img: pathlib.Path) -> bool:
    """Turns the private directory `work` into the shared, read-only-by-convention image `img` (False: it exists already).
    Images are copied by several workers at the same time, so a copy must never chmod anything inside an image: entries
    the owner cannot read / traverse (a run may leave 0o000 or 0o200 files) are made readable ONCE, here, while the tree is
    still private, and their real mode is recorded in the side file `<img>.modes` that copy_tree applies to its copy."""
    real: typing.Dict[str, int] = {}
    for dirpath, dirnames, filenames in os.walk(str(work)):
        for name in dirnames + filenames:
            p = os.path.join(dirpath, name)
            st = os.lstat(p)
            if stat.S_ISLNK(st.st_mode):
                continue
            m = stat.S_IMODE(st.st_mode)
            need = 0o500 if stat.S_ISDIR(st.st_mode) else 0o400
            if m & need != need:
                real[os.path.relpath(p, str(work))] = m
                os.chmod(p, m | need)
    side = str(img) + ".modes"
    tmp = f"{side}.{os.getpid()}"
    with open(tmp, "w", encoding="utf-8") as f:
        json.dump(real, f)
    os.rename(tmp, side)  # every writer of one image writes the same content
    try:
        os.rename(str(work), str(img))
        return True
    except OSError:
        return False


def copy_tree(src: pathlib.Path, dst: pathlib.Path) -> None:
    """dst must not exist. Content and st_mode & 0o7777 of every entry are preserved (nothing else is); modes listed in
    the side file `<src>.modes` (see store_image) override the modes found in src. Nothing inside src is modified."""
    side = str(src) + ".modes"
    real: typing.Dict[str, int] = {}
    if os.path.exists(side):
        with open(side, encoding="utf-8") as f:
            real = json.load(f)
    src_s = str(src)

    def mode_of(path: str, found: int) -> int:
        return real.get(os.path.relpath(path, src_s), found) if real else found

    def rec(s: str, d: str) -> None:
        st_s = os.lstat(s)
        smode = stat.S_IMODE(st_s.st_mode)
        os.mkdir(d, 0o700)
        if smode & 0o500 != 0o500:
            raise HarnessError(f"image directory {s} is not traversable: images are stored through store_image()")
        try:
            for name in sorted(os.listdir(s)):
                sp, dp = s + "/" + name, d + "/" + name
                st = os.lstat(sp)
                m = stat.S_IMODE(st.st_mode)
                if stat.S_ISLNK(st.st_mode):
                    os.symlink(os.readlink(sp), dp)
                elif stat.S_ISDIR(st.st_mode):
                    rec(sp, dp)
                elif stat.S_ISREG(st.st_mode):
                    with open(sp, "rb") as f:
                        data = f.read()
                    with open(dp, "wb") as f:
                        f.write(data)
                    os.chmod(dp, mode_of(sp, m))
                else:
                    raise HarnessError(f"cannot copy special file {sp}")
        finally:
            pass
        os.chmod(d, mode_of(s, smode) if s != src_s else smode)

    rec(str(src), str(dst))


def rm_tree(path: pathlib.Path) -> None:
    p = str(path)
    if not os.path.lexists(p):
        return
    if os.path.islink(p) or not os.path.isdir(p):
        os.unlink(p)
        return
    for dirpath, dirnames, _ in os.walk(p):
        try:
            os.chmod(dirpath, 0o700)
        except OSError:
            pass
        for d in dirnames:
            dp = os.path.join(dirpath, d)
            if not os.path.islink(dp):
                try:
                    os.chmod(dp, 0o700)
                except OSError:
                    pass
    for dirpath, dirnames, filenames in os.walk(p, topdown=False):
        for f in filenames:
            os.unlink(os.path.join(dirpath, f))
        for d in dirnames:
            dp = os.path.join(dirpath, d)
            if os.path.islink(dp):
                os.unlink(dp)
            else:
                os.rmdir(dp)
    os.rmdir(p)


# ------------------------------------------------------------------------------------------ environment control
FROZEN_EPOCH = 1_600_000_000  # 2020-09-13T12:26:40Z


def freeze_clock() -> None:
    import datetime as real_datetime
    import gzip

    import nunavut.jinja

    fixed = real_datetime.datetime(2020, 9, 13, 12, 26, 40)  # == FROZEN_EPOCH, naive UTC like utcnow()

    class _FixedDateTime(real_datetime.datetime):
        @classmethod
        def utcnow(cls):  # type: ignore
            return fixed

        @classmethod
        def now(cls, tz=None):  # type: ignore
            return fixed if tz is None else real_datetime.datetime.fromtimestamp(FROZEN_EPOCH, tz)

    shim = types.ModuleType("datetime")
    shim.__dict__.update({k: v for k, v in vars(real_datetime).items() if not k.startswith("__")})
    shim.datetime = _FixedDateTime  # type: ignore
    nunavut.jinja.datetime = shim  # type: ignore

    import time as real_time

    tshim = types.ModuleType("time")
    tshim.__dict__.update({k: v for k, v in vars(real_time).items() if not k.startswith("__")})
    tshim.time = lambda: float(FROZEN_EPOCH)  # type: ignore
    gzip.time = tshim  # type: ignore


_BCC_ENABLED = False
_BCC_INSTALLED = False
_BCC_STORE: typing.Dict[str, typing.Tuple[str, typing.Any]] = {}


def install_template_bytecode_cache() -> None:
    """
    Every CodeGenEnvironment created from now on gets `bytecode_cache` = an in-memory cache (while enabled).
    The cache is keyed by template name+filename and validated by the checksum of the template source (Jinja's own
    Bucket protocol), i.e. it returns exactly the code object the engine compiled for the same source earlier in this
    process.
    """
    global _BCC_INSTALLED  # pylint: disable=global-statement
    if _BCC_INSTALLED:
        return
    import nunavut.jinja.environment as nje
    from nunavut.jinja.jinja2.bccache import BytecodeCache

    class _Mem(BytecodeCache):  # type: ignore
        def load_bytecode(self, bucket):  # type: ignore
            hit = _BCC_STORE.get(bucket.key)
            if hit is not None and hit[0] == bucket.checksum:
                bucket.code = hit[1]

        def dump_bytecode(self, bucket):  # type: ignore
            _BCC_STORE[bucket.key] = (bucket.checksum, bucket.code)

    mem = _Mem()
    orig_init = nje.CodeGenEnvironment.__init__

    def init(self, *a, **k):  # type: ignore
        orig_init(self, *a, **k)
        if _BCC_ENABLED:
            self.bytecode_cache = mem

    nje.CodeGenEnvironment.__init__ = init  # type: ignore
    _BCC_INSTALLED = True


def set_template_bytecode_cache(enabled: bool) -> None:
    global _BCC_ENABLED  # pylint: disable=global-statement
    _BCC_ENABLED = enabled


def template_bytecode_cache_size() -> int:
    return len(_BCC_STORE)


# ------------------------------------------------------------------------------------------ fork isolation
def forked(fn: typing.Callable[[], typing.Any]) -> typing.Any:
    """Runs fn() in a forked child (inherits imports, caches and the reduced capability sets) and returns its result."""
    r, w = os.pipe()
    pid = os.fork()
    if pid == 0:
        code = 0
        try:
            os.close(r)
            try:
                payload = pickle.dumps(("ok", fn()))
            except HarnessError as e:
                payload = pickle.dumps(("harness", str(e)))
            except BaseException as e:  # pylint: disable=broad-except
                import traceback

                payload = pickle.dumps(("error", f"{type(e).__name__}: {e}\n{traceback.format_exc()}"))
            with os.fdopen(w, "wb") as f:
                f.write(payload)
        except BaseException:  # pylint: disable=broad-except
            code = 70
        finally:
            os._exit(code)
    os.close(w)
    with os.fdopen(r, "rb") as f:
        raw = f.read()
    _, status = os.waitpid(pid, 0)
    if status != 0 or not raw:
        raise HarnessError(f"forked worker died (wait status {status}, {len(raw)} bytes of result)")
    kind, val = pickle.loads(raw)
    if kind == "ok":
        return val
    if kind == "harness":
        raise HarnessError(val)
    raise HarnessError(f"forked worker raised: {val}")
