"""
C13 reference model (independent of nunavut's merge code): canonical immutable values, the reference merge, the
reference builder, and the fixed alphabets (YAML documents, override values) used by the Part B history search.

Canonical value forms (hashable tuples, so the reference can never alias or mutate anything):
    ("m", ((key, value), ...))   a map, keys sorted
    ("d", value)                 a value marked "default" (nunavut.DefaultValue on the implementation side)
    ("l", (value, ...))          a list
    ("s", type_name, python)     an explicit scalar (type name keeps True and 1 apart)
"""
from __future__ import annotations

import typing

EMPTY = ("m", ())

Canon = typing.Any


class D:
    """Harness-side marker for 'this value is only a default' in the spec literals below."""

    def __init__(self, value: typing.Any) -> None:
        self.value = value


# ------------------------------------------------------------------------------------------- conversions
def to_canon(spec: typing.Any) -> Canon:
    """spec literal (dict/list/scalar/D) -> canonical."""
    if isinstance(spec, D):
        return ("d", to_canon(spec.value))
    if isinstance(spec, dict):
        return ("m", tuple(sorted(((str(k), to_canon(v)) for k, v in spec.items()), key=lambda kv: kv[0])))
    if isinstance(spec, (list, tuple)):
        return ("l", tuple(to_canon(x) for x in spec))
    return ("s", type(spec).__name__, spec)


def to_impl(spec: typing.Any) -> typing.Any:
    """spec literal -> fresh mutable objects for the implementation (D -> nunavut DefaultValue)."""
    from nunavut._utilities import DefaultValue  # only used to *construct* inputs, never to compute an expectation

    if isinstance(spec, D):
        return DefaultValue(to_impl(spec.value))
    if isinstance(spec, dict):
        return {k: to_impl(v) for k, v in spec.items()}
    if isinstance(spec, (list, tuple)):
        return [to_impl(x) for x in spec]
    return spec


def build(c: Canon) -> typing.Any:
    """canonical -> fresh mutable objects for the implementation."""
    from nunavut._utilities import DefaultValue

    tag = c[0]
    if tag == "m":
        return {k: build(v) for k, v in c[1]}
    if tag == "d":
        return DefaultValue(build(c[1]))
    if tag == "l":
        return [build(x) for x in c[1]]
    return c[2]


def canon_impl(obj: typing.Any, dv_type: type) -> Canon:
    """objects produced/held by the implementation -> canonical (marks preserved)."""
    if isinstance(obj, dv_type):
        return ("d", canon_impl(obj.value, dv_type))
    if isinstance(obj, dict):
        return ("m", tuple(sorted(((str(k), canon_impl(v, dv_type)) for k, v in obj.items()), key=lambda kv: kv[0])))
    if isinstance(obj, (list, tuple)):
        return ("l", tuple(canon_impl(x, dv_type) for x in obj))
    if hasattr(obj, "items") and hasattr(obj, "keys"):  # other mappings
        return ("m", tuple(sorted(((str(k), canon_impl(v, dv_type)) for k, v in obj.items()), key=lambda kv: kv[0])))
    return ("s", type(obj).__name__, obj)


def unwrap(c: Canon) -> Canon:
    """drop default marks (the *value* a reader sees)."""
    tag = c[0]
    if tag == "d":
        return unwrap(c[1])
    if tag == "m":
        return ("m", tuple((k, unwrap(v)) for k, v in c[1]))
    if tag == "l":
        return ("l", tuple(unwrap(x) for x in c[1]))
    return c


def plain(c: Canon) -> typing.Any:
    """canonical -> plain python without marks (for messages / json)."""
    tag = c[0]
    if tag == "d":
        return plain(c[1])
    if tag == "m":
        return {k: plain(v) for k, v in c[1]}
    if tag == "l":
        return [plain(x) for x in c[1]]
    return c[2]


def show(c: typing.Optional[Canon]) -> str:
    """short human form with marks."""
    if c is None:
        return "<absent>"
    tag = c[0]
    if tag == "d":
        return f"Default({show(c[1])})"
    if tag == "m":
        return "{" + ", ".join(f"{k}: {show(v)}" for k, v in c[1]) + "}"
    if tag == "l":
        return "[" + ", ".join(show(x) for x in c[1]) + "]"
    return repr(c[2])


def kind(c: typing.Optional[Canon]) -> str:
    if c is None:
        return "absent"
    return {"m": "map", "d": "default", "l": "list", "s": "explicit"}[c[0]]


def cget(m: typing.Optional[Canon], *path: str) -> typing.Optional[Canon]:
    cur = m
    for key in path:
        if cur is None or cur[0] != "m":
            return None
        nxt = None
        for k, v in cur[1]:
            if k == key:
                nxt = v
                break
        cur = nxt
    return cur


def cset(m: Canon, key: str, value: Canon) -> Canon:
    d = dict(m[1])
    d[key] = value
    return ("m", tuple(sorted(d.items(), key=lambda kv: kv[0])))


def first_diff(a: typing.Optional[Canon], b: typing.Optional[Canon], path: tuple = ()) -> typing.Optional[tuple]:
    """first difference (in sorted key order) between two canonical values: (path, a_sub, b_sub) or None."""
    if a == b:  # canonical scalars carry their type name, so True and 1 stay apart
        return None
    if a is not None and b is not None and a[0] == "m" and b[0] == "m":
        da, db = dict(a[1]), dict(b[1])
        for k in sorted(set(da) | set(db)):
            r = first_diff(da.get(k), db.get(k), path + (k,))
            if r is not None:
                return r
        return None
    return (path, a, b)


# ------------------------------------------------------------------------------------------- the reference merge
def ref_merge(target: Canon, source: Canon) -> Canon:
    """
    Deep union with default marks: later explicit > earlier explicit > any default; later default > earlier default;
    maps merge key-wise (a map replaces a non-map as a whole, and is itself explicit); unmentioned keys keep their value.
    """
    out = dict(target[1])
    for key, val in source[1]:
        cur = out.get(key)
        if val[0] == "m":
            out[key] = ref_merge(cur if cur is not None and cur[0] == "m" else EMPTY, val)
        elif val[0] == "d":
            if cur is None or cur[0] == "d":
                out[key] = val
        else:
            out[key] = val
    return ("m", tuple(sorted(out.items(), key=lambda kv: kv[0])))


def shallow_update(target: Canon, source: Canon) -> Canon:
    """dict.update semantics; only used to count the cases where deep/default semantics matter (non-trivial)."""
    out = dict(target[1])
    out.update(dict(source[1]))
    return ("m", tuple(sorted(out.items(), key=lambda kv: kv[0])))


# ------------------------------------------------------------------------------------------- Part A universes
LEAF = {
    "1": ("s", "int", 1),
    "2": ("s", "int", 2),
    "D1": ("d", ("s", "int", 1)),
    "D2": ("d", ("s", "int", 2)),
    "L": ("l", (("s", "int", 1), ("s", "int", 2))),
}
KEYS = ("a", "b")
# further leaf values (one-key universe X1): falsy explicit values, None, strings, empty containers and their defaults
EXTRA_LEAVES = (0, False, None, "", 1, "s", D(0), D(None), D(False), D(1), [], {}, {"b": D(0)})


def maps_full(depth: int, leaves: typing.Sequence[Canon]) -> typing.List[Canon]:
    """every map of depth <= depth over KEYS: each key absent | a leaf | a map of depth <= depth-1 (incl. empty)."""
    if depth <= 0:
        return []
    vals: typing.List[typing.Optional[Canon]] = [None] + list(leaves) + maps_full(depth - 1, leaves)
    out = []
    for va in vals:
        for vb in vals:
            items = []
            if va is not None:
                items.append(("a", va))
            if vb is not None:
                items.append(("b", vb))
            out.append(("m", tuple(items)))
    return out


def maps_chain(depth: int, leaves: typing.Sequence[Canon]) -> typing.List[Canon]:
    """maps of depth <= depth with at most ONE key (a or b) per map."""
    if depth <= 0:
        return []
    vals = list(leaves) + maps_chain(depth - 1, leaves)
    out = [EMPTY]
    for k in KEYS:
        for v in vals:
            out.append(("m", ((k, v),)))
    return out


# ------------------------------------------------------------------------------------------- Part B alphabets
LANGS = ("c", "cpp", "py")

# keys the C++ shorthands are documented to set (docs/languages.rst lists the seven option keys; the shorthand also
# resolves `std` itself: "cetl++14-17 means target C++14").
DOCUMENTED_GROUP_KEYS = (
    "variable_array_type_include",
    "variable_array_type_template",
    "variable_array_type_constructor_args",
    "allocator_include",
    "allocator_type",
    "allocator_is_default_constructible",
    "ctor_convention",
)
SHORTHAND_STD = {"c++17-pmr": "c++17", "cetl++14-17": "c++14"}
STD_CHOICES = ("c11", "c++14", "cetl++14-17", "c++17", "c++17-pmr", "c++20")


def section(lang: str) -> str:
    return "nunavut.lang." + lang


def file_docs(lang: str) -> typing.Dict[str, dict]:
    """The base document (initial state of every API builder) and the three override documents, as spec literals."""
    s = section(lang)
    base = {
        s: {
            "zz": 0,
            "zl": [1, 2],
            "zmap": {"x": {"y": "base", "k": "base"}, "w": "base"},
            "options": {"zz_opt": "base"},
        }
    }
    f0 = {
        s: {
            "extension": ".f0",
            "zz": 1,
            "zmap": {"x": {"y": "f0"}},
            "options": {"enable_serialization_asserts": True, "target_endianness": "big", "zz_opt": "f0"},
        }
    }
    f1 = {
        s: {
            "zz": {"x": {"y": "f1"}},
            "zl": {"x": "f1"},
            # a map where F2 has a scalar and F0 / the base have a map with OTHER keys: (base + F2) + F1 != base + (F2 + F1)
            "zmap": {"x": {"v": "f1"}},
            "options": {
                "target_endianness": "little",
                "omit_float_serialization_support": True,
                "zz_opt": {"n": {"m": "f1"}},
            },
        },
        # a section of a language that is NOT the target: what the context's other Language objects report
        "nunavut.lang.js": {"zjs": {"k": "f1", "j": "f1"}},
    }
    f2 = {
        s: {
            "namespace_file_stem": "f2stem",
            "zd": "f2",
            "zmap": {"x": 7},
            "options": {"enable_serialization_asserts": False, "zz_opt": "f2"},
        },
        "nunavut.lang.js": {"extension": ".f2js", "zjs": {"k": "f2"}},
    }
    if lang == "cpp":
        f1[s]["options"]["allocator_type"] = "f1::alloc"
        f2[s]["options"]["std"] = "cetl++14-17"
    return {"base": base, "F0": f0, "F1": f1, "F2": f2}


# override events: name -> (key, spec value).  The implementation-side objects are built ONCE per interpreter and shared
# by every builder of a history (a constant a user passes to several builders).
OVERRIDES: typing.Dict[str, typing.Tuple[str, typing.Any]] = {
    "S_def": (
        "options",
        {
            "enable_serialization_asserts": D(False),
            "omit_float_serialization_support": D(False),
            "zz_opt": D("d"),
            "zz_new": D("d"),
        },
    ),
    "S_exp": (
        "options",
        {"enable_serialization_asserts": True, "target_endianness": "api", "zz_opt": {"n": {"m": "api"}, "p": "api"}},
    ),
    "S_zd": ("zd", D(5)),
    "S_zz": ("zz", {"x": {"y": "api", "z": {"q": "api"}}, "l": [3]}),
    "S_ext": ("extension", ".ovr"),
    "S_pmr": ("options", {"std": "c++17-pmr"}),
    "S_cetl": ("options", {"std": "cetl++14-17", "allocator_type": "api::alloc"}),
}

API_ALPHABET = {
    "c": ("F0", "F1", "F2", "F21", "S_def", "S_exp", "S_zd", "S_zz", "S_ext", "CREATE"),
    "py": ("F0", "F1", "F2", "F21", "S_def", "S_exp", "S_zd", "S_zz", "S_ext", "CREATE"),
    "cpp": ("F0", "F1", "F2", "F21", "S_def", "S_exp", "S_zd", "S_zz", "S_ext", "S_pmr", "S_cetl", "CREATE"),
}
# events that hand a (possibly shared) mutable document to a builder or merge into one: enough to set up and to expose
# state shared between two builders.
PAIR_ALPHABET = ("F0", "F1", "S_def", "S_exp", "S_zz", "CREATE")


# ------------------------------------------------------------------------------------------- reference builder
class RefContext(typing.NamedTuple):
    cfg: typing.Dict[str, Canon]  # section -> canonical map (marks kept)
    lang: str
    pure_equal: bool  # sequential model == stateless precedence formula for this create()
    user_explicit_opts: typing.Dict[str, Canon]  # option keys the user gave explicitly (files / API), latest value
    requested_std: typing.Optional[str]  # value of options.std before the language rule was applied


class RefBuilder:
    """
    The documented behaviour of LanguageContextBuilder: configuration files are merged into the builder's
    configuration when they are added (later over earlier), the stored overrides (one value per key, the latest call
    wins, None ignored) are merged on top at create(), default-marked values never displace explicit ones, then the
    language rule (C++ shorthand group) is applied to the options.  The builder's configuration is cumulative
    ("Applies all pending configuration overrides to the internal LanguageConfig object").
    """

    def __init__(self, builtin: typing.Dict[str, Canon], lang: str) -> None:
        self.builtin = builtin
        self.lang = lang
        self.sec = section(lang)
        self.cfg: typing.Dict[str, Canon] = dict(builtin)
        self.files: typing.List[typing.Dict[str, Canon]] = []
        self.pending: typing.Dict[str, Canon] = {}
        self.user_explicit_opts: typing.Dict[str, Canon] = {}

    def _note_explicit(self, secmap: Canon) -> None:
        opts = cget(secmap, "options")
        if opts is not None and opts[0] == "m":
            for k, v in opts[1]:
                if v[0] != "d":
                    self.user_explicit_opts[k] = v

    def add_file(self, doc: typing.Dict[str, Canon]) -> None:
        for sec, m in doc.items():
            self.cfg[sec] = ref_merge(self.cfg.get(sec, EMPTY), m)
            if sec == self.sec:
                self._note_explicit(m)
        self.files.append(doc)

    def set(self, key: str, value: typing.Optional[Canon]) -> None:
        if value is not None:
            self.pending[key] = value

    def _pending_map(self) -> Canon:
        return ("m", tuple(sorted(self.pending.items(), key=lambda kv: kv[0])))

    def create(self) -> RefContext:
        pm = self._pending_map()
        self._note_explicit(pm)
        merged = ref_merge(self.cfg.get(self.sec, EMPTY), pm)
        requested_std = cget(merged, "options", "std")
        self.cfg[self.sec] = language_rule(self.lang, merged)
        # the stateless precedence formula: built-in < files in call order < overrides, then the language rule
        pure: typing.Dict[str, Canon] = dict(self.builtin)
        for doc in self.files:
            for sec, m in doc.items():
                pure[sec] = ref_merge(pure.get(sec, EMPTY), m)
        pure[self.sec] = language_rule(self.lang, ref_merge(pure.get(self.sec, EMPTY), pm))
        pure_equal = set(pure) == set(self.cfg) and all(unwrap(pure[k]) == unwrap(self.cfg[k]) for k in pure)
        std_plain = plain(requested_std) if requested_std is not None and unwrap(requested_std)[0] == "s" else None
        return RefContext(dict(self.cfg), self.lang, pure_equal, dict(self.user_explicit_opts), std_plain)


def language_rule(lang: str, secmap: Canon) -> Canon:
    """C++: a `std` naming a group under `defaults` sets that whole group of options (as a unit)."""
    if lang != "cpp":
        return secmap
    opts = cget(secmap, "options")
    defaults = cget(secmap, "defaults")
    if opts is None or opts[0] != "m" or defaults is None or defaults[0] != "m":
        return secmap
    std = cget(opts, "std")
    if std is None:
        return secmap
    std = unwrap(std)
    if std[0] != "s" or not isinstance(std[2], str):
        return secmap
    group = cget(defaults, std[2])
    if group is None or group[0] != "m":
        return secmap
    new_opts = opts
    for k, v in group[1]:
        new_opts = cset(new_opts, k, v)
    return cset(secmap, "options", new_opts)


# documented conversions of LanguageConfig.get_config_value*
def ref_as_str(v: typing.Any) -> str:
    return "" if v is None else str(v)


def ref_as_bool(v_str: str) -> bool:
    if v_str.lower() == "false" or v_str == "0":
        return False
    return bool(v_str)
