"""
Shared helpers: write DSDL namespaces, run the real generator (API and CLI) in-process on the working tree,
snapshot directories, compile generated code.
"""
from __future__ import annotations

import contextlib
import hashlib
import io
import os
import pathlib
import subprocess
import sys
import typing

from vf.core import REPO, HarnessError, setup_paths

setup_paths()


# ---------------------------------------------------------------------------------------------- DSDL on disk
def write_ns(root: pathlib.Path, files: typing.Mapping[str, str]) -> pathlib.Path:
    """files: relative path under `root` (first component = root namespace dir) -> DSDL text."""
    for rel, text in files.items():
        p = root / rel
        p.parent.mkdir(parents=True, exist_ok=True)
        p.write_text(text, encoding="utf-8")
    return root


def reset_process_state() -> None:
    """Reset the process-wide caches/singletons of nunavut (for long-lived workers; see DESIGN section 0)."""
    import nunavut.lang._common as common
    import nunavut.lang._language as language

    common.UniqueNameGenerator._singleton = None  # type: ignore
    for mod in list(sys.modules.values()):
        name = getattr(mod, "__name__", "")
        if not name.startswith("nunavut"):
            continue
        for v in list(vars(mod).values()):
            cc = getattr(v, "cache_clear", None)
            if callable(cc):
                try:
                    cc()
                except Exception:  # pylint: disable=broad-except
                    pass
            if isinstance(v, type):
                for vv in list(vars(v).values()):
                    f = getattr(vv, "__func__", vv)
                    cc = getattr(f, "cache_clear", None)
                    if callable(cc):
                        try:
                            cc()
                        except Exception:  # pylint: disable=broad-except
                            pass
    del language


# ---------------------------------------------------------------------------------------------- API generation
def language_context(
    lang: str,
    options: typing.Optional[typing.Mapping[str, typing.Any]] = None,
    extension: typing.Optional[str] = None,
    stem: typing.Optional[str] = None,
    config_files: typing.Sequence[pathlib.Path] = (),
) -> typing.Any:
    from nunavut.lang import Language, LanguageContextBuilder

    b = LanguageContextBuilder(include_experimental_languages=True).set_target_language(lang)
    if config_files:
        b.add_config_files(*config_files)
    if extension is not None:
        b.set_target_language_extension(extension)
    if stem is not None:
        b.set_target_language_configuration_override(Language.WKCV_NAMESPACE_FILE_STEM, stem)
    if options:
        b.set_target_language_configuration_override(Language.WKCV_LANGUAGE_OPTIONS, dict(options))
    return b.create()


def read_types(ns_dir: pathlib.Path, lookup: typing.Sequence[pathlib.Path] = ()) -> typing.List[typing.Any]:
    import pydsdl

    return list(pydsdl.read_namespace(str(ns_dir), [str(x) for x in lookup], allow_unregulated_fixed_port_id=True))


def generate(
    lang: str,
    ns_dir: pathlib.Path,
    out: pathlib.Path,
    lookup: typing.Sequence[pathlib.Path] = (),
    options: typing.Optional[typing.Mapping[str, typing.Any]] = None,
    omit_serialization_support: bool = False,
    support: bool = True,
    types: typing.Optional[typing.List[typing.Any]] = None,
    generator_args: typing.Optional[typing.Mapping[str, typing.Any]] = None,
    embed_auditing_info: bool = False,
    extension: typing.Optional[str] = None,
    stem: typing.Optional[str] = None,
) -> typing.Tuple[typing.Any, typing.List[pathlib.Path]]:
    """Runs the real generators the way nunavut.generate_types / the CLI do. Returns (namespace, generated paths)."""
    from nunavut import build_namespace_tree
    from nunavut._generators import create_default_generators

    lctx = language_context(lang, options, extension, stem)
    if types is None:
        types = read_types(ns_dir, lookup)
    ns = build_namespace_tree(types, str(ns_dir), str(out), lctx)
    g, sg = create_default_generators(ns, **dict(generator_args or {}))
    paths: typing.List[pathlib.Path] = []
    if support:
        paths += list(sg.generate_all(False, True, omit_serialization_support, embed_auditing_info))
    paths += list(g.generate_all(False, True, omit_serialization_support, embed_auditing_info))
    return ns, paths


# ---------------------------------------------------------------------------------------------- CLI in-process
class CliResult(typing.NamedTuple):
    rc: int
    out: str
    err: str
    exc: typing.Optional[str]


def cli(argv: typing.Sequence[str], cwd: typing.Optional[pathlib.Path] = None) -> CliResult:
    """Runs nunavut.cli.main() in this process with sys.argv replaced (0.03-0.3 s instead of 0.7 s per subprocess)."""
    import logging

    import nunavut.cli

    old_argv, old_cwd = sys.argv, os.getcwd()
    out, err = io.StringIO(), io.StringIO()
    rc, exc = 0, None
    root = logging.getLogger()
    old_handlers, old_level = root.handlers[:], root.level
    try:
        sys.argv = ["nnvg"] + [str(a) for a in argv]
        if cwd is not None:
            os.chdir(cwd)
        with contextlib.redirect_stdout(out), contextlib.redirect_stderr(err):
            try:
                rc = int(nunavut.cli.main() or 0)
            except SystemExit as e:
                rc = e.code if isinstance(e.code, int) else (0 if e.code is None else 1)
            except BaseException as e:  # pylint: disable=broad-except
                rc, exc = 1, f"{type(e).__name__}: {e}"
    finally:
        sys.argv = old_argv
        os.chdir(old_cwd)
        root.handlers[:] = old_handlers
        root.setLevel(old_level)
    return CliResult(rc, out.getvalue(), err.getvalue(), exc)


def cli_subprocess(
    argv: typing.Sequence[str], cwd: typing.Optional[pathlib.Path] = None, env: typing.Optional[dict] = None
) -> CliResult:
    e = dict(os.environ)
    e.update(env or {})
    p = subprocess.run(
        [sys.executable, "-m", "nunavut"] + [str(a) for a in argv],
        cwd=cwd,
        env=e,
        stdout=subprocess.PIPE,
        stderr=subprocess.PIPE,
        text=True,
        check=False,
    )
    return CliResult(p.returncode, p.stdout, p.stderr, None)


# ---------------------------------------------------------------------------------------------- snapshots
def snapshot(root: pathlib.Path, with_mtime: bool = False) -> typing.Dict[str, tuple]:
    """relative path -> (sha256 | 'dir', mode & 0o7777, size[, mtime_ns])"""
    snap: typing.Dict[str, tuple] = {}
    for dirpath, dirnames, filenames in os.walk(root):
        dirnames.sort()
        for d in dirnames:
            p = pathlib.Path(dirpath) / d
            st = p.lstat()
            rel = str(p.relative_to(root))
            snap[rel + "/"] = ("dir", st.st_mode & 0o7777, 0) + ((st.st_mtime_ns,) if with_mtime else ())
        for f in sorted(filenames):
            p = pathlib.Path(dirpath) / f
            st = p.lstat()
            try:
                h = hashlib.sha256(p.read_bytes()).hexdigest()[:16]
            except OSError:
                h = "unreadable"
            snap[str(p.relative_to(root))] = (h, st.st_mode & 0o7777, st.st_size) + (
                (st.st_mtime_ns,) if with_mtime else ()
            )
    return snap


# ---------------------------------------------------------------------------------------------- compilers
STRICT_COMMON = [
    "-pedantic",
    "-Wall",
    "-Wextra",
    "-Werror",
    "-Wfloat-equal",
    "-Wconversion",
    "-Wunused-parameter",
    "-Wunused-variable",
    "-Wunused-value",
    "-Wcast-align",
    "-Wmissing-declarations",
    "-Wmissing-field-initializers",
    "-Wdouble-promotion",
    "-Wswitch-enum",
    "-Wtype-limits",
]
STRICT_CXX = ["-Wsign-conversion", "-Wsign-promo", "-Wold-style-cast", "-Wzero-as-null-pointer-constant", "-Wnon-virtual-dtor", "-Woverloaded-virtual"]


def run_cmd(cmd: typing.Sequence[str], timeout: int = 600, **kw: typing.Any) -> subprocess.CompletedProcess:
    return subprocess.run(
        [str(c) for c in cmd], stdout=subprocess.PIPE, stderr=subprocess.STDOUT, text=True, timeout=timeout, check=False, **kw
    )


def must(cmd: typing.Sequence[str], what: str, **kw: typing.Any) -> str:
    p = run_cmd(cmd, **kw)
    if p.returncode != 0:
        raise HarnessError(f"{what} failed ({p.returncode}): {' '.join(map(str, cmd))}\n{p.stdout[-4000:]}")
    return p.stdout


__all__ = ["REPO"]
