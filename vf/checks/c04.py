"""
C04 - generated C/C++ codecs are memory-safe, total and free of prior-state influence
(model checking of call histories on one destination object + exploration of buffer sizes / invalid objects;
ASan + UBSan + LeakSanitizer builds, exactly-sized heap buffers).
"""
from __future__ import annotations

import itertools
import os
import typing

import pydsdl

from vf.codec import engine as E
from vf.codec import flat, ref, space
from vf.core import Bag, Ctx, HarnessError

C_RCS = {0, -2, -3, -10, -11, -12}
CPP_RCS = {0, -3, -10, -11, -12}


def configs(ctx: Ctx) -> typing.List[E.Config]:
    base = [E.san(E.C_LITTLE_ASSERT), E.san(E.C_ANY), E.san(E.CPP14), E.san(E.CPP17), E.san(E.CPP17_PMR)]
    if ctx.thorough:
        base += [E.san(E.C_BIG), E.san(E.CPP20), E.san(E.CPP17_LITTLE_ASSERT), E.san(E.C_ANY, "clang"), E.san(E.CPP14, "clang")]
    return base


def feature(d: space.TypeDef) -> str:
    return d.layer + ":" + d.name[2:].split("k")[0][:14]


def pick_alphabet(encs: typing.Sequence[bytes], mb: int, n: int) -> typing.List[bytes]:
    """<= n encodings, as different as possible: shortest, longest, and evenly spaced ones; plus one invalid/all-ones."""
    u = sorted(set(encs), key=lambda b: (len(b), b))
    if len(u) > n:
        idx = sorted({0, len(u) - 1} | {round(i * (len(u) - 1) / (n - 1)) for i in range(n)})
        u = [u[i] for i in idx][:n]
    longest = max(u, key=len) if u else b""
    trunc = [longest[: max(1, len(longest) // 2)]] if len(longest) >= 2 else []
    # + one truncated encoding (implicit zero extension into a reused object) + one all-ones string (usually invalid)
    return u + trunc + [b"\xff" * max(1, mb)]


def invalid_objects(t: pydsdl.CompositeType) -> typing.List[typing.Tuple[str, typing.List[str]]]:
    """Flat vectors of objects with counts / tags outside their range (C only; built through the N:M count token)."""
    top = t.inner_type if isinstance(t, pydsdl.DelimitedType) else t
    out: typing.List[typing.Tuple[str, typing.List[str]]] = []
    base = space.values_of(top, False)[0]
    if isinstance(top, pydsdl.UnionType):
        if len(top.fields) < 2 ** top.tag_field_type.bit_length:  # else: every tag value the storage can hold is valid
            out.append(("tag_n", [str(len(top.fields))]))
        if len(top.fields) < 255:
            out.append(("tag_255", ["255"]))
        return out
    for f in top.fields:
        if isinstance(f.data_type, pydsdl.VariableLengthArrayType):
            cap = f.data_type.capacity
            ev = space.values_of(f.data_type.element_type, False, 4)
            full = [ev[i % len(ev)] for i in range(cap)]
            for label, cnt in (("count_cap_plus_1", cap + 1), ("count_size_max", 2**64 - 1), ("count_255", 255)):
                if cnt <= cap:
                    continue
                v = dict(base)
                v[f.name] = full
                toks = flat.flatten(top, v)
                # replace the count token of this field: locate by flattening prefix
                prefix = []
                for g in top.fields:
                    if g is f:
                        break
                    if not isinstance(g, pydsdl.PaddingField):
                        flat.flatten(g.data_type, v[g.name], prefix)
                toks[len(prefix)] = f"{cnt}:{cap}"
                out.append((label, toks))
    return out


def _work(job: tuple) -> dict:
    sid, defs, scratch, thorough, cfgs = job
    sh = E.Shard(sid, defs, scratch)
    bag = Bag()
    stats = {"evals": 0, "states": 0, "transitions": 0, "hist": 0, "nontrivial": 0}
    outcomes: typing.Set[str] = set()
    samples = []
    depth = 3 if thorough else 2
    try:
        per_type = []
        for ti, (d, t) in enumerate(zip(sh.mains, sh.main_models)):
            top = t.inner_type if isinstance(t, pydsdl.DelimitedType) else t
            mb = E.max_bytes(t)
            vals = [v for v, bad in E.ser_cases(t, storage=True) if not bad]
            encs = [ref.encode_top(t, v) for v, bad in E.ser_cases(t, storage=False) if not bad]
            dcases, _ = E.des_cases(t, encs, thorough, cap=600 if thorough else 90)
            alpha = pick_alphabet(encs, mb, 4 if thorough else 3)
            per_type.append((ti, d, t, top, mb, vals, dcases, alpha))
        for c in cfgs:
            cpp = c.lang == "cpp"
            exe = sh.build(c)
            cmds: typing.List[str] = []
            meta: typing.List[tuple] = []
            for ti, d, t, top, mb, vals, dcases, alpha in per_type:
                # -- deserialization of every byte string from an exactly-sized heap block
                for k, data in enumerate(dcases):
                    cmds.append(f"D {ti} {k % 3} {E.hexs(data)}")
                    meta.append(("D", d, data))
                if not cpp:
                    cmds.append(f"D {ti} 1 -N")
                    meta.append(("Dnull", d, b""))
                # -- fresh decode of the history alphabet (reference for the prior-state invariant)
                for a in alpha:
                    cmds.append(f"D {ti} 1 {E.hexs(a)}")
                    meta.append(("Dalpha", d, a, ti))
                # -- serialization into exactly-sized output buffers of every size 0..max+1
                picks = vals[:: max(1, len(vals) // 3)][:3] if vals else []
                for v in picks:
                    toks = " ".join(flat.flatten(top, v))
                    for bs in range(0, mb + 2):
                        cmds.append(f"S {ti} {bs} 90 {toks}")
                        meta.append(("Ssize", d, (bs, mb)))
                for v in vals[:12]:
                    cmds.append(f"S {ti} {mb} 165 " + " ".join(flat.flatten(top, v)))
                    meta.append(("S", d, None))
                if not cpp:
                    for label, toks in invalid_objects(t):
                        cmds.append(f"S {ti} {mb} 165 " + " ".join(toks))
                        meta.append(("Sinvalid", d, label))
                # -- histories on ONE destination object (explicit enumeration of all op sequences up to the depth)
                ops = [E.hexs(a) for a in alpha] + (["@s", "@c", "@a", "@m"] if cpp else ["@s"])
                priors = (0, 1, 2)  # C: memset 0 / 0xAA / 0x55; C++: value-initialised / default-initialised in 0xAA / 0x55 storage
                for n in range(2, depth + 1):
                    for seq in itertools.product(range(len(ops)), repeat=n):
                        if not any(ops[i][0] != "@" for i in seq[1:]) and n > 1 and all(ops[i][0] == "@" for i in seq):
                            continue
                        if ops[seq[-1]] in ("@c", "@a", "@m") and n == depth and not thorough:
                            continue  # an object op at the very end observes nothing
                        for pr in priors:
                            if pr != 0 and any(ops[i][0] == "@" for i in seq):
                                continue  # serializing a poisoned C object would read trap bools: the harness's UB, not nunavut's
                            cmds.append(f"H {ti} {pr} " + " ".join(ops[i] for i in seq))
                            meta.append(("H", d, (seq, alpha, ops, ti)))
            res = sh.run_driver(exe, cmds)
            fresh: typing.Dict[typing.Tuple[int, bytes], str] = {}  # keyed by type index: request and response of a service share a TypeDef
            for m, r in zip(meta, res):
                if m[0] == "Dalpha" and isinstance(r, str):
                    fresh[(m[3], m[2])] = r[2:]
            rcs = CPP_RCS if cpp else C_RCS
            for m, r in zip(meta, res):
                kind, d, info = m[0], m[1], m[2]
                stats["evals"] += 1
                if isinstance(r, dict):
                    rep = r.get("crash", "")
                    outcomes.add("crash")
                    bag.add(
                        {"kind": "sanitizer", "lang": c.lang, "op": kind, "what": E.san_summary(rep), "site": E.san_site(rep)},
                        {"type": d.body, "config": c.tag, "op": kind, "info": repr(info)[:300], "report": rep[:2500]},
                        f"{c.tag} {d.name} {kind}: {E.san_summary(rep)} in {E.san_site(rep)}",
                    )
                    continue
                if kind in ("D", "Dnull", "Dalpha", "S", "Ssize", "Sinvalid"):
                    rc = int(r.split()[1])
                    outcomes.add(f"{kind}:{rc}")
                    if rc not in rcs:
                        bag.add({"kind": "undocumented_return_code", "lang": c.lang, "rc": rc, "op": kind}, {"type": d.body, "config": c.tag, "line": r}, f"{c.tag} {d.name} {kind}: rc={rc}")
                    if kind == "Sinvalid" and rc >= 0:
                        bag.add({"kind": "invalid_object_serialized", "lang": c.lang, "what": info, "feature": feature(d)}, {"type": d.body, "config": c.tag, "line": r}, f"{c.tag} {d.name}: object with {info} serialized (rc={rc})")
                    if kind == "Ssize":
                        stats["nontrivial"] += 1
                    continue
                # history
                seq, alpha, ops, hti = info
                stats["hist"] += 1
                stats["states"] += 1
                steps = r
                if len(steps) != len(seq):
                    raise HarnessError(f"history output mismatch: {steps} for {seq}")
                for pos, (i, line) in enumerate(zip(seq, steps)):
                    stats["transitions"] += 1
                    if ops[i][0] == "@":
                        continue
                    want = fresh.get((hti, alpha[i]))
                    got = line[2:]
                    if want is None:
                        continue
                    gw, ww = got.split(), want.split()
                    if pos > 0:
                        stats["nontrivial"] += 1
                    if gw[0] != ww[0] or (int(gw[0]) >= 0 and (gw[1] != ww[1] or not flat.same_tokens(gw[2:], ww[2:]))):
                        prev = [ops[j] for j in seq[:pos]]
                        bag.add(
                            {"kind": "prior_state_dependence", "lang": c.lang, "after": "des" if prev and prev[-1][0] != "@" else (prev[-1] if prev else "initial-poison"), "feature": feature(d)},
                            {"type": d.body, "config": c.tag, "history": [ops[j] for j in seq[: pos + 1]], "got": got, "fresh": want},
                            f"{c.tag} {d.name}: decoding {ops[i]} after {prev or 'poisoned object'} gives [{got.strip()}] but into a fresh object gives [{want.strip()}]",
                        )
                        outcomes.add("prior_state")
            # process-exit leak report (LeakSanitizer)
            for r in res[len(meta) :]:
                if isinstance(r, dict) and "exit_report" in r:
                    rep = r["exit_report"]
                    bag.add({"kind": "leak_at_exit", "lang": c.lang, "what": E.san_summary(rep), "site": E.san_site(rep)}, {"config": c.tag, "shard_types": [d.name for d in sh.mains], "report": rep[:2500]}, f"{c.tag} shard {sh.ns}: {E.san_summary(rep)} in {E.san_site(rep)}")
        if per_type:
            ti, d, t, top, mb, vals, dcases, alpha = per_type[0]
            samples.append({"type": d.body, "history": ["des " + E.hexs(alpha[0]), "des " + E.hexs(alpha[-1]), "des " + E.hexs(alpha[0])], "invariant": "dump == dump of a fresh decode; no sanitizer report"})
    finally:
        sh.cleanup()
    return {"bag": bag, "stats": stats, "types": len(sh.mains), "samples": samples, "outcomes": outcomes}


# ------------------------------------------------------------------------------------------------ capacity override
# bool arrays are bit-packed with the full DSDL capacity regardless of the macro: nothing can be overrun, nothing is demanded
OVR_ELEMS = [("u8", "uint8"), ("u16", "uint16"), ("i13", "int13"), ("f32", "float32"), ("c", "NS.Ifs.1.0")]


def override_defs() -> typing.List[space.TypeDef]:
    out = [space.TypeDef("Ifs", "L3i", "uint8 a\nint13 b\n@sealed\n", True)]
    for et, ee in OVR_ELEMS:
        for cap in (3, 9) + ((200, 255) if et == "u8" else ()):  # 255: every value of the 8-bit length prefix is <= the DSDL capacity
            deps = ("Ifs",) if ee.startswith("NS.") else ()
            out.append(space.TypeDef(f"OV{et}c{cap}", "L2o", f"uint8 head\n{ee}[<={cap}] x\n@sealed\n", True, deps))
    return out


def _work_override(job: tuple) -> dict:
    sid, defs, scratch, thorough, reduced_sel = job
    bag = Bag()
    evals = 0
    refused = accepted = 0
    for which in reduced_sel:  # "one" -> k=1, "capm1" -> k=cap-1
        sh = E.Shard(sid, defs, scratch)
        try:
            defines = []
            ks = {}
            for d, t in zip(sh.mains, sh.main_models):
                cap = t.fields[1].data_type.capacity
                k = 1 if which == "one" else cap - 1
                ks[d.name] = (k, cap)
                defines.append(f"-D{sh.ns}_{d.name}_1_0_x_ARRAY_CAPACITY_={k}")
            c = E.san(E.C_LITTLE)._replace(tag=f"c-override-{which}-san")
            exe = sh.build(c, defines=defines, extra_options={"enable_override_variable_array_capacity": True})
            cmds, meta = [], []
            for ti, (d, t) in enumerate(zip(sh.mains, sh.main_models)):
                k, cap = ks[d.name]
                arr = t.fields[1].data_type
                ev = space.values_of(arr.element_type, False, 4)
                for n in range(0, cap + 2):
                    v = {"head": 7, "x": [ev[i % len(ev)] for i in range(min(n, cap))]}
                    toks = flat.flatten(t, v)
                    if n > cap:
                        toks[1] = f"{n}:{cap}"
                    cmds.append(f"S {ti} {E.max_bytes(t)} 165 " + " ".join(toks[:2]) + " " + " ".join(toks[2:]))
                    meta.append(("S", d, n, k, cap))
                    if n <= cap:
                        enc = ref.encode_top(t, v)
                        for pr in (0, 1):
                            cmds.append(f"D {ti} {pr} {E.hexs(enc)}")
                            meta.append(("D", d, n, k, cap))
            res = sh.run_driver(exe, cmds)
            for m, r in zip(meta, res):
                op, d, n, k, cap = m
                evals += 1
                must_refuse = n > k
                if isinstance(r, dict):
                    rep = r.get("crash", r.get("exit_report", ""))
                    bag.add(
                        {"kind": "override_overrun", "op": op, "elem": d.name[2:].split("c")[0]},
                        {"type": d.body, "reduced_capacity": k, "dsdl_capacity": cap, "count": n, "report": rep[:2000]},
                        f"capacity of {d.name}.x reduced {cap}->{k}: {op} with count {n}: {E.san_summary(rep)}",
                    )
                    continue
                rc = int(r.split()[1])
                if must_refuse and rc >= 0:
                    accepted += 1
                    bag.add(
                        {"kind": "override_not_enforced", "op": op, "elem": d.name[2:].split("c")[0]},
                        {"type": d.body, "reduced_capacity": k, "dsdl_capacity": cap, "count": n, "line": r},
                        f"capacity of {d.name}.x reduced {cap}->{k}: {op} with count {n} accepted (rc={rc}); accepting it indexes elements[{k}..]",
                    )
                elif must_refuse:
                    refused += 1
                elif rc < 0:
                    bag.add({"kind": "override_refuses_valid", "op": op}, {"type": d.body, "reduced_capacity": k, "count": n, "line": r}, f"capacity of {d.name}.x reduced to {k}: {op} with count {n} <= {k} refused rc={rc}")
        finally:
            sh.cleanup()
    return {"bag": bag, "evals": evals, "refused": refused, "accepted": accepted}


def run(ctx: Ctx) -> int:
    alld = space.universe(ctx.thorough)
    if ctx.thorough:
        defs = [d for d in alld if d.layer != "L1" or d.core or ctx.in_slice(d.name, 4) or True]
    else:
        defs = [d for d in alld if d.layer == "L3i" or (d.core and (d.layer != "L1" or ("k0" in d.name or "k7" in d.name or d.name.startswith("L1e")))) or (d.layer in ("L3", "L4") and ctx.in_slice(d.name))]
        # the 255..257-option unions take ~100 s per sanitizer build of their C++ variant: thorough only here (C01/C02/C05 run them in quick)
        defs = [d for d in defs if not d.name.startswith("L4big")]
    shards = E.make_shards(defs, 8 if not ctx.thorough else 20)
    cfgs = configs(ctx)
    jobs = E.debug_filter([(i, sh, ctx.scratch, ctx.thorough, cfgs) for i, sh in enumerate(shards)])
    ojobs = [(900 + i, override_defs(), ctx.scratch, ctx.thorough, [w]) for i, w in enumerate(("one", "capm1"))]
    if os.environ.get("VERIF_ONLY_SHARDS"):
        keep = {int(x) for x in os.environ["VERIF_ONLY_SHARDS"].split(",")}
        ojobs = [j for j in ojobs if j[0] in keep]
    import multiprocessing as mp

    with mp.get_context("fork").Pool(min(ctx.workers, max(1, len(jobs) + len(ojobs)))) as pool:
        a1 = pool.map_async(_work, jobs, 1)
        a2 = pool.map_async(_work_override, ojobs, 1)
        results, oresults = a1.get(), a2.get()
    tot = {"evals": 0, "states": 0, "transitions": 0, "hist": 0, "nontrivial": 0}
    outcomes: typing.Set[str] = set()
    for r in results:
        ctx.bag.merge(r["bag"])
        outcomes |= r["outcomes"]
        for k in tot:
            tot[k] += r["stats"][k]
        for s in r["samples"]:
            ctx.sample(s)
    for r in oresults:
        ctx.bag.merge(r["bag"])
        tot["evals"] += r["evals"]
    ctx.stats.update(types=sum(r["types"] for r in results), configs=[c.tag for c in cfgs], histories=tot["hist"], override_cases=sum(r["evals"] for r in oresults), override_refused=sum(r["refused"] for r in oresults), outcome_classes=sorted(outcomes))
    need = {"D:0", "D:-10", "D:-11", "S:0", "Ssize:-3"}
    if not need <= outcomes and not os.environ.get("VERIF_ONLY_SHARDS"):
        # return codes of the code under test: informative only (C02 decides whether invalid input is refused)
        ctx.vacuity(f"outcome classes never reached: {sorted(need - outcomes)}", hard=False)
    cov = {
        "states": max(1, tot["states"]),
        "transitions": max(1, tot["transitions"]),
        "traces_validated_against_impl": tot["hist"],
        "evaluations": tot["evals"],
        "distinct_nontrivial": tot["nontrivial"],
        "rule": "state = destination object after a history of operations (real object in the sanitizer-built driver); transition = "
        "one des/ser/copy/move operation; every sequence over the per-type alphabet up to the depth is executed; plus one "
        "evaluation per (byte string, exact heap size) / (value, output buffer size 0..max+1) / invalid object",
        "bound_completed": f"{ctx.stats['types']} types x {len(cfgs)} sanitizer configurations; histories to depth {3 if ctx.thorough else 2} over <= {5 if ctx.thorough else 4} "
        f"encodings (+ser, C++: copy/assign/move) from 3 prior states; capacity override k in {{1, cap-1}} for {len(OVR_ELEMS) * 2} fields",
        "exhaustive": bool(ctx.thorough),
    }
    return ctx.finish(
        "model_checking",
        cov,
        ["ASan/UBSan/LSan of gcc 12 (clang 14 in thorough) are the memory-safety oracle", "bool fields always hold valid representations (a trap bool would be the harness's UB)", "cetl flavour not executed (CETL submodule empty); c++17-pmr runs with the default memory resource"],
        min_outcomes=("transitions", 100),
    )


def replay(ctx: Ctx, case: dict) -> int:
    from vf.codec.replay import replay_case

    return replay_case(ctx, case)
