"""
C18 - generated Python data objects validate, reflect and convert faithfully
(exploration over field x candidate; explicit-state search over union setter histories; in-process with NumPy).
"""
from __future__ import annotations

import itertools
import math
import os
import typing

import pydsdl

from vf.codec import engine as E
from vf.codec import flat, ref, space
from vf.core import Bag, Ctx, HarnessError


def feature(d: space.TypeDef) -> str:
    return d.layer + ":" + d.name[2:].split("k")[0][:14]


def same(a: typing.Any, b: typing.Any) -> bool:
    import numpy as np

    if a is None or b is None:
        return a is b
    if isinstance(a, np.ndarray) or isinstance(b, np.ndarray) or isinstance(a, list) or isinstance(b, list):
        if not hasattr(a, "__len__") or not hasattr(b, "__len__"):
            return False
        la, lb = list(a), list(b)
        return len(la) == len(lb) and all(same(x, y) for x, y in zip(la, lb))
    try:
        if bool(a != a) and bool(b != b):  # NaN (Python or NumPy scalar) equals NaN here
            return True
    except Exception:  # pylint: disable=broad-except
        pass
    try:
        return bool(a == b)
    except Exception:  # pylint: disable=broad-except
        return a is b


def snapshot(o: typing.Any, names: typing.Sequence[str]) -> typing.List[typing.Any]:
    import numpy as np

    out = []
    for n in names:
        v = getattr(o, n)
        out.append(list(v) if isinstance(v, np.ndarray) else v)
    return out


def scalar_candidates(t: pydsdl.PrimitiveType) -> typing.Tuple[typing.List[typing.Any], typing.List[typing.Any], typing.List[typing.Any]]:
    """(accept, reject -> ValueError demanded, wrong-type -> any exception or an in-range stored value)"""
    import numpy as np

    if isinstance(t, pydsdl.BooleanType):
        return [True, False, 1, 0], [], ["x", None, 2.5]
    if isinstance(t, pydsdl.IntegerType):
        lo, hi = int(t.inclusive_value_range.min), int(t.inclusive_value_range.max)
        acc = sorted({lo, hi, 0, 1 if hi >= 1 else 0, hi - 1 if hi > lo else hi})
        rej = [lo - 1, hi + 1, 2**70, -(2**70)]
        if hi + 1 < 2**63:
            rej.append(np.int64(hi + 1))
        if lo - 1 >= -(2**63):
            rej.append(np.int64(lo - 1))
        return acc, rej, ["abc", None, float("nan"), float("inf"), [1], 1.5]
    if isinstance(t, pydsdl.FloatType):
        mx = float(ref.float_max(t.bit_length))
        acc = [0.0, -0.0, 1.5, mx, -mx, math.inf, -math.inf, math.nan, 1]
        rej = [] if t.bit_length == 64 else [mx * 2, -mx * 2, math.nextafter(mx, math.inf), 1e300]
        return acc, rej, ["abc", None, [1.0]]
    raise TypeError(t)


def elem_value(et: pydsdl.SerializableType, py: typing.Any, i: int) -> typing.Any:
    if isinstance(et, pydsdl.CompositeType):
        return py.build(et, space.values_of(et.inner_type if isinstance(et, pydsdl.DelimitedType) else et, False)[0])
    vals = space.leaf_values(et, False)
    return vals[i % len(vals)]


def model_fingerprint(t: pydsdl.CompositeType) -> typing.Any:
    def attrs(c: pydsdl.CompositeType) -> typing.Any:
        return [(type(a).__name__, a.name, str(a.data_type), str(getattr(a, "value", None) and a.value.native_value)) for a in c.attributes]

    if isinstance(t, pydsdl.ServiceType):
        return [type(t).__name__, t.full_name, (t.version.major, t.version.minor), t.deprecated, t.fixed_port_id, model_fingerprint(t.request_type), model_fingerprint(t.response_type)]
    parts = [type(t).__name__, t.full_name, (t.version.major, t.version.minor), t.deprecated, t.fixed_port_id, t.extent, (t.bit_length_set.min, t.bit_length_set.max), attrs(t)]
    if isinstance(t, pydsdl.DelimitedType):
        parts.append(model_fingerprint(t.inner_type))
    return parts


def _work(job: tuple) -> dict:
    sid, defs, scratch, thorough = job
    sh = E.Shard(sid, defs, scratch)
    bag = Bag()
    evals = nontrivial = 0
    states: typing.Set[tuple] = set()
    transitions = 0
    samples = []
    outcomes: typing.Set[str] = set()
    try:
        py = sh.py()
        ns = py.ns
        for d, t in zip(sh.mains, sh.main_models):
            try:
                cls = py.cls(t)
                top = t.inner_type if isinstance(t, pydsdl.DelimitedType) else t
                fields = [f for f in top.fields if not isinstance(f, pydsdl.PaddingField)]
                names = [f.name for f in fields]
                base_val = space.values_of(top, False)[0]
                # ---------------- D: embedded model
                evals += 1
                m = getattr(cls, "_MODEL_", None)
                if m is None or model_fingerprint(m) != model_fingerprint(t) or not (m == t):
                    bag.add({"kind": "model_differs", "feature": feature(d)}, {"type": d.body}, f"{d.name}: Class._MODEL_ differs from the source PyDSDL model")
                try:
                    if ns.get_model(cls) is not m or ns.get_model(py.build(t, base_val)) is not m or ns.get_class(t) is not cls:
                        bag.add({"kind": "model_lookup", "feature": feature(d)}, {"type": d.body}, f"{d.name}: get_model/get_class do not round trip")
                except Exception as e:  # pylint: disable=broad-except
                    bag.add({"kind": "model_lookup", "feature": feature(d), "exc": type(e).__name__}, {"type": d.body}, f"{d.name}: get_model/get_class raised {type(e).__name__}: {e}")
                # ---------------- E: builtin round trip for every in-range value
                for v, bad in E.ser_cases(t, storage=False):
                    if bad:
                        continue
                    evals += 1
                    try:
                        o = py.build(t, v)
                        s1 = b"".join(bytes(x) for x in ns.serialize(o))
                        b = ns.to_builtin(o)
                        o2 = ns.update_from_builtin(cls(), b)
                        s2 = b"".join(bytes(x) for x in ns.serialize(o2))
                        if s1 != s2:
                            bag.add({"kind": "builtin_roundtrip_differs", "feature": feature(d)}, {"type": d.body, "value": flat.flatten(top, v), "builtin": repr(b)[:300], "first": s1.hex(), "second": s2.hex()}, f"{d.name}: serialize(update_from_builtin(Class(), to_builtin(o))) = {s2.hex()} != serialize(o) = {s1.hex()} for {flat.flatten(top, v)}")
                    except Exception as e:  # pylint: disable=broad-except
                        bag.add({"kind": "builtin_roundtrip_raises", "feature": feature(d), "exc": type(e).__name__}, {"type": d.body, "value": flat.flatten(top, v)}, f"{d.name}: builtin round trip of {flat.flatten(top, v)} raised {type(e).__name__}: {e}")
                if isinstance(top, pydsdl.UnionType):
                    # ---------------- C: union histories (explicit-state search; state = which option is active)
                    good = {f.name: py.build(f.data_type, space.values_of(f.data_type, False, 4)[-1]) for f in fields}
                    bad_of: typing.Dict[str, typing.Any] = {}
                    for f in fields:
                        if isinstance(f.data_type, pydsdl.IntegerType):
                            bad_of[f.name] = int(f.data_type.inclusive_value_range.max) + 1
                        elif isinstance(f.data_type, pydsdl.FloatType) and f.data_type.bit_length < 64:
                            bad_of[f.name] = 1e300
                        elif isinstance(f.data_type, pydsdl.VariableLengthArrayType):
                            bad_of[f.name] = [elem_value(f.data_type.element_type, py, i) for i in range(f.data_type.capacity + 1)]
                        elif isinstance(f.data_type, pydsdl.FixedLengthArrayType):
                            bad_of[f.name] = [elem_value(f.data_type.element_type, py, i) for i in range(f.data_type.capacity + 1)]
                        elif isinstance(f.data_type, pydsdl.CompositeType):
                            bad_of[f.name] = 12345
                    # a union with many options (the 257-alternative one) is explored over a fixed subset of its options
                    # (first two, middle, last two): one template loop generates every setter, only the positions differ
                    sel = names if len(names) <= 5 else [names[0], names[1], names[len(names) // 2], names[-2], names[-1]]
                    if len(names) > 5:
                        outcomes.add("union_option_subset")
                    events = [("ok", n) for n in sel] + [("bad", n) for n in sel if n in bad_of]
                    inits = [None] + sel
                    depth = 3 if ((thorough and len(events) <= 10) or len(events) <= 6) else 2
                    for init in inits:
                        for n in range(0, depth + 1):
                            for seq in itertools.product(events, repeat=n):
                                o = cls() if init is None else cls(**{init: good[init]})
                                active = names[0] if init is None else init
                                path = [("ctor", init)]
                                for kind, name in seq:
                                    transitions += 1
                                    before = snapshot(o, names)
                                    try:
                                        setattr(o, name, good[name] if kind == "ok" else bad_of[name])
                                        raised = None
                                    except Exception as e:  # pylint: disable=broad-except
                                        raised = e
                                    path.append((kind, name))
                                    if kind == "ok":
                                        if raised is not None:
                                            bag.add({"kind": "union_valid_set_raises", "feature": feature(d)}, {"type": d.body, "history": path}, f"{d.name}: history {path}: valid assignment raised {type(raised).__name__}")
                                        else:
                                            active = name
                                    else:
                                        if raised is None:
                                            bag.add({"kind": "union_invalid_set_accepted", "feature": feature(d), "option_kind": type(next(f for f in fields if f.name == name).data_type).__name__}, {"type": d.body, "history": path}, f"{d.name}: history {path}: invalid value for option {name} was stored")
                                            active = name
                                        elif not isinstance(raised, ValueError):
                                            outcomes.add("union_bad_other_exc:" + type(raised).__name__)
                                        if raised is not None and not same(before, snapshot(o, names)):
                                            bag.add({"kind": "union_failed_set_changed_state", "feature": feature(d)}, {"type": d.body, "history": path}, f"{d.name}: history {path}: a rejected assignment changed the object")
                                    held = [nm for nm in names if getattr(o, nm) is not None]
                                    states.add((d.name, tuple(held)))
                                    if len(held) != 1:
                                        bag.add({"kind": "union_option_count", "held": len(held), "feature": feature(d)}, {"type": d.body, "history": path, "held": held}, f"{d.name}: history {path}: union holds {len(held)} options {held}")
                                    elif raised is None and held[0] != active:
                                        bag.add({"kind": "union_wrong_active_option", "feature": feature(d)}, {"type": d.body, "history": path, "held": held}, f"{d.name}: history {path}: active option is {held[0]}, expected {active}")
                    # two options at once in the constructor must be refused
                    if len(names) >= 2:
                        evals += 1
                        try:
                            cls(**{names[0]: good[names[0]], names[1]: good[names[1]]})
                            bag.add({"kind": "union_two_options_accepted", "feature": feature(d)}, {"type": d.body}, f"{d.name}: constructor accepted two options at once")
                        except ValueError:
                            pass
                    continue
                # ---------------- A/B: struct fields
                for f in fields:
                    ft = f.data_type
                    o = py.build(t, base_val)
                    if isinstance(ft, pydsdl.PrimitiveType):
                        acc, rej, wrong = scalar_candidates(ft)
                        for cand in acc:
                            evals += 1
                            try:
                                setattr(o, f.name, cand)
                                got = getattr(o, f.name)
                                if not same(got, bool(cand) if isinstance(ft, pydsdl.BooleanType) else (float(cand) if isinstance(ft, pydsdl.FloatType) else int(cand))):
                                    bag.add({"kind": "valid_value_altered", "field": type(ft).__name__, "feature": feature(d)}, {"type": d.body, "field": f.name, "value": repr(cand), "stored": repr(got)}, f"{d.name}.{f.name} = {cand!r} stored {got!r}")
                            except Exception as e:  # pylint: disable=broad-except
                                bag.add({"kind": "valid_value_rejected", "field": type(ft).__name__, "exc": type(e).__name__, "feature": feature(d)}, {"type": d.body, "field": f.name, "value": repr(cand)}, f"{d.name}.{f.name} = {cand!r} (in range) raised {type(e).__name__}: {e}")
                        for cand in rej:
                            for via in ("setter", "ctor"):
                                evals += 1
                                nontrivial += 1
                                before = snapshot(o, names)
                                try:
                                    if via == "setter":
                                        setattr(o, f.name, cand)
                                    else:
                                        kw = {g.name: getattr(o, g.name) for g in fields}
                                        kw[f.name] = cand
                                        cls(**kw)
                                    bag.add({"kind": "out_of_range_accepted", "via": via, "field": type(ft).__name__ + str(ft.bit_length), "feature": feature(d)}, {"type": d.body, "field": f.name, "value": repr(cand), "stored": repr(getattr(o, f.name))}, f"{d.name}.{f.name}: out-of-range {cand!r} accepted via {via}")
                                    setattr(o, f.name, before[names.index(f.name)])
                                except ValueError:
                                    outcomes.add("reject:ValueError")
                                except Exception as e:  # pylint: disable=broad-except
                                    bag.add({"kind": "out_of_range_wrong_exception", "via": via, "exc": type(e).__name__, "field": type(ft).__name__, "cand": type(cand).__name__}, {"type": d.body, "field": f.name, "value": repr(cand)}, f"{d.name}.{f.name}: out-of-range {cand!r} via {via} raised {type(e).__name__} instead of ValueError")
                                if via == "setter" and not same(before, snapshot(o, names)):
                                    bag.add({"kind": "rejected_value_changed_state", "field": type(ft).__name__, "feature": feature(d)}, {"type": d.body, "field": f.name, "value": repr(cand)}, f"{d.name}.{f.name}: rejected {cand!r} changed the stored value")
                        for cand in wrong:
                            evals += 1
                            before = snapshot(o, names)
                            try:
                                setattr(o, f.name, cand)
                                got = getattr(o, f.name)
                                ok = True
                                if isinstance(ft, pydsdl.IntegerType):
                                    ok = isinstance(got, int) and int(ft.inclusive_value_range.min) <= got <= int(ft.inclusive_value_range.max)
                                if not ok:
                                    bag.add({"kind": "wrong_type_stored_out_of_range", "field": type(ft).__name__}, {"type": d.body, "field": f.name, "value": repr(cand), "stored": repr(got)}, f"{d.name}.{f.name} = {cand!r} stored {got!r}")
                                setattr(o, f.name, before[names.index(f.name)])
                            except Exception as e:  # pylint: disable=broad-except
                                outcomes.add("wrong_type:" + type(e).__name__)
                                if not same(before, snapshot(o, names)):
                                    bag.add({"kind": "rejected_value_changed_state", "field": type(ft).__name__, "feature": feature(d)}, {"type": d.body, "field": f.name, "value": repr(cand)}, f"{d.name}.{f.name}: rejected {cand!r} changed the stored value")
                    elif isinstance(ft, pydsdl.ArrayType):
                        import numpy as np

                        cap = ft.capacity
                        fixed = isinstance(ft, pydsdl.FixedLengthArrayType)
                        good_lens = [cap] if fixed else sorted({0, 1 if cap >= 1 else 0, cap})
                        bad_lens = sorted({cap + 1, cap + 7} | ({cap - 1, 0} if fixed else set()))
                        bad_lens = [n for n in bad_lens if n >= 0 and (n != cap)]
                        forms: typing.List[typing.Tuple[str, typing.Callable[[list], typing.Any]]] = [("list", lambda L: L)]
                        et = ft.element_type
                        if isinstance(et, pydsdl.PrimitiveType):
                            npdt = {"BooleanType": np.bool_}.get(type(et).__name__)
                            if npdt is None and isinstance(et, pydsdl.FloatType):
                                npdt = {16: np.float16, 32: np.float32, 64: np.float64}[et.bit_length]
                            if npdt is None and isinstance(et, pydsdl.IntegerType) and et.bit_length in (8, 16, 32, 64):
                                npdt = getattr(np, ("u" if isinstance(et, pydsdl.UnsignedIntegerType) else "") + f"int{et.bit_length}")
                            if npdt is not None:
                                forms.append(("ndarray_same_dtype", lambda L, dt=npdt: np.array(L, dtype=dt)))
                            forms.append(("ndarray_float64", lambda L: np.array([float(x) if not isinstance(x, bool) else float(x) for x in L], dtype=np.float64)))
                            if isinstance(et, pydsdl.UnsignedIntegerType) and et.bit_length == 8:
                                forms.append(("bytes", lambda L: bytes(int(x) & 0xFF for x in L)))
                                forms.append(("str", lambda L: "".join(chr(65 + (int(x) % 26)) for x in L)))
                            if isinstance(et, pydsdl.IntegerType):
                                # other objects that expose the buffer protocol: the ELEMENTS are what is assigned, whatever the
                                # item size or shape of the buffer (None = this form cannot express L)
                                import array as _array

                                def _fits(L: list, hi: int) -> bool:
                                    return all(isinstance(x, int) and not isinstance(x, bool) and 0 <= x <= hi for x in L)

                                forms.append(("bytearray", lambda L: bytearray(L) if _fits(L, 255) else None))
                                forms.append(("memoryview_B", lambda L: memoryview(bytes(L)) if _fits(L, 255) else None))
                                forms.append(("memoryview_H", lambda L: memoryview(_array.array("H", L)) if _fits(L, 65535) else None))
                                forms.append(("memoryview_2d", lambda L: memoryview(bytes(L)).cast("B", (2, len(L) // 2)) if _fits(L, 255) and len(L) >= 2 and len(L) % 2 == 0 else None))
                        for n in good_lens:
                            L = [elem_value(et, py, i) for i in range(n)]
                            for fname, fn in forms:
                                if fname == "ndarray_float64" and any(isinstance(x, float) and (x != x or math.isinf(x)) for x in L) and not isinstance(et, pydsdl.FloatType):
                                    continue
                                val = fn(L)
                                if val is None:
                                    continue
                                evals += 1
                                try:
                                    setattr(o, f.name, val)
                                    if len(getattr(o, f.name)) != n:
                                        bag.add({"kind": "array_length_altered", "form": fname}, {"type": d.body, "field": f.name, "n": n}, f"{d.name}.{f.name}: length {n} stored as {len(getattr(o, f.name))}")
                                    elif fname not in ("str", "ndarray_float64") and isinstance(et, pydsdl.PrimitiveType) and not same(list(getattr(o, f.name)), L if fname != "bytes" else [int(x) & 0xFF for x in L]):
                                        bag.add({"kind": "array_elements_altered", "form": fname, "feature": feature(d)}, {"type": d.body, "field": f.name, "value": repr(L)[:200], "stored": repr(list(getattr(o, f.name)))[:200]}, f"{d.name}.{f.name}: {fname} of {L!r:.80} stored as {list(getattr(o, f.name))!r:.80}")
                                except Exception as e:  # pylint: disable=broad-except
                                    if fname in ("list", "ndarray_same_dtype", "bytearray", "memoryview_B", "memoryview_H", "memoryview_2d"):
                                        bag.add({"kind": "valid_array_rejected", "form": fname, "exc": type(e).__name__, "feature": feature(d)}, {"type": d.body, "field": f.name, "n": n, "value": repr(L)[:200]}, f"{d.name}.{f.name}: valid array of length {n} ({fname}) raised {type(e).__name__}: {e}")
                        for n in bad_lens:
                            L = [elem_value(et, py, i) for i in range(n)]
                            for fname, fn in forms:
                                if fname == "ndarray_float64" and not isinstance(et, pydsdl.FloatType):
                                    L = [x if not (isinstance(x, float) and (x != x or math.isinf(x))) else 0 for x in L]
                                if fname == "memoryview_2d" and len(L) % 2:
                                    L = L + L[:1]  # a 2-D view needs an even element count: one more element beyond the capacity
                                if fn(L) is None or (len(L) == cap if fixed else len(L) <= cap):
                                    continue
                                for via in ("setter", "ctor"):
                                    evals += 1
                                    nontrivial += 1
                                    before = snapshot(o, names)
                                    try:
                                        val = fn(L)
                                        if via == "setter":
                                            setattr(o, f.name, val)
                                        else:
                                            kw = {g.name: getattr(o, g.name) for g in fields}
                                            kw[f.name] = val
                                            cls(**kw)
                                        bag.add({"kind": "bad_array_length_accepted", "via": via, "form": fname, "fixed": fixed, "feature": feature(d)}, {"type": d.body, "field": f.name, "n": n, "capacity": cap}, f"{d.name}.{f.name}: array of length {n} ({'!=' if fixed else '>'} {cap}) accepted via {via} as {fname}")
                                        setattr(o, f.name, before[names.index(f.name)])
                                    except ValueError:
                                        outcomes.add("array_reject:ValueError")
                                    except Exception as e:  # pylint: disable=broad-except
                                        bag.add({"kind": "bad_array_length_wrong_exception", "via": via, "form": fname, "exc": type(e).__name__}, {"type": d.body, "field": f.name, "n": n, "capacity": cap}, f"{d.name}.{f.name}: array of length {n} via {via} as {fname} raised {type(e).__name__} instead of ValueError: {e}")
                                    if via == "setter" and not same(before, snapshot(o, names)):
                                        bag.add({"kind": "rejected_value_changed_state", "field": "array", "feature": feature(d)}, {"type": d.body, "field": f.name, "n": n}, f"{d.name}.{f.name}: rejected array of length {n} changed the stored value")
                        # nested / ragged lists: any exception is fine, nothing longer than the capacity may be stored
                        for cand in ([[1, 0], [1]], [[1] * (cap + 1)], "x" * (cap + 1) if isinstance(et, pydsdl.UnsignedIntegerType) and et.bit_length == 8 else [[0] * (cap + 2)]):
                            evals += 1
                            before = snapshot(o, names)
                            try:
                                setattr(o, f.name, cand)
                                ln = len(getattr(o, f.name))
                                if ln > cap or (fixed and ln != cap):
                                    bag.add({"kind": "bad_array_length_accepted", "via": "setter", "form": "nested", "fixed": fixed, "feature": feature(d)}, {"type": d.body, "field": f.name, "value": repr(cand), "stored_len": ln}, f"{d.name}.{f.name}: {cand!r} stored with length {ln}")
                                setattr(o, f.name, before[names.index(f.name)])
                            except Exception as e:  # pylint: disable=broad-except
                                outcomes.add("nested:" + type(e).__name__)
                    elif isinstance(ft, pydsdl.CompositeType):
                        for cand in (123, None, "x", py.build(t, base_val) if ft is not t else 5):
                            evals += 1
                            before = snapshot(o, names)
                            try:
                                setattr(o, f.name, cand)
                                if not isinstance(getattr(o, f.name), py.cls(ft)):
                                    bag.add({"kind": "wrong_composite_accepted"}, {"type": d.body, "field": f.name, "value": repr(cand)}, f"{d.name}.{f.name} = {cand!r} accepted")
                            except Exception:  # pylint: disable=broad-except
                                if not same(before, snapshot(o, names)):
                                    bag.add({"kind": "rejected_value_changed_state", "field": "composite", "feature": feature(d)}, {"type": d.body, "field": f.name}, f"{d.name}.{f.name}: rejected value changed state")
            except Exception as e:  # pylint: disable=broad-except
              # the harness builds objects from in-range values only: a failure here means a valid value was refused
              import traceback

              tb = traceback.extract_tb(e.__traceback__)
              gen_frames = [f for f in tb if "/out_py/" in f.filename]
              if not gen_frames:
                  raise
              bag.add({"kind": "valid_object_refused", "exc": type(e).__name__, "feature": feature(d)}, {"type": d.body, "error": str(e), "where": f"{gen_frames[-1].name}:{gen_frames[-1].lineno}"}, f"{d.name}: generated class raised {type(e).__name__} for an in-range value: {e}")
        if sh.mains:
            samples.append({"type": sh.mains[0].body, "candidates": "min, max, min-1, max+1, 2**70, numpy scalars, wrong types via setter and constructor"})
    finally:
        sh.cleanup()
    return {"bag": bag, "evals": evals, "nontrivial": nontrivial, "states": len(states), "transitions": transitions, "types": len(sh.mains), "samples": samples, "outcomes": outcomes}


def _work_namesakes(job: tuple) -> dict:
    """Types that share short name and version but live in different namespaces, all resolved in ONE interpreter in every order:
    class lookup by model must be per full name, arrays of namesakes must survive the builtin round trip."""
    scratch, thorough = job
    import importlib
    import itertools as it
    import pathlib
    import sys

    from vf import gen

    bag = Bag()
    evals = 0
    root = pathlib.Path(scratch) / "namesakes"
    files = {
        "nsk/a/Point.1.0.dsdl": "uint8 x\nuint8 y\n@sealed\n",
        "nsk/b/Point.1.0.dsdl": "uint16 x\nuint16 y\n@sealed\n",
        "nsk/b/c/Point.1.0.dsdl": "int32 x\nint32 y\n@extent 128\n",
        "nsk/a/Point.2.0.dsdl": "uint8 x\nuint8 y\nuint8 z\n@sealed\n",
        "nsk/Path.1.0.dsdl": "nsk.a.Point.1.0[<=2] coarse\nnsk.b.Point.1.0[<=2] fine\nnsk.b.c.Point.1.0[2] wide\nnsk.a.Point.2.0 last\n@sealed\n",
        "nsk/Pick.1.0.dsdl": "@union\nnsk.a.Point.1.0 p\nnsk.b.Point.1.0 q\nnsk.b.c.Point.1.0[<=2] r\n@sealed\n",
    }
    gen.write_ns(root / "dsdl", files)
    out = root / "out"
    gen.generate("py", root / "dsdl" / "nsk", out)
    types = gen.read_types(root / "dsdl" / "nsk")
    if str(out) not in sys.path:
        sys.path.insert(0, str(out))
    importlib.invalidate_caches()
    py = __import__("vf.codec.pyrun", fromlist=["PyTarget"]).PyTarget(str(out))
    ns = py.ns
    points = [t for t in types if t.short_name == "Point"]
    # every order of first-time class resolution (the support module is re-imported fresh for every order)
    for order in it.permutations(range(len(points))):
        for m in [k for k in list(sys.modules) if k == "nunavut_support" or k == "nsk" or k.startswith("nsk.")]:
            del sys.modules[m]
        importlib.invalidate_caches()
        ns = importlib.import_module("nunavut_support")
        py = __import__("vf.codec.pyrun", fromlist=["PyTarget"]).PyTarget(str(out))
        py.ns = ns
        for i in order:
            t = points[i]
            evals += 1
            want = py.cls(t)
            try:
                got = ns.get_class(t)
            except Exception as e:  # pylint: disable=broad-except
                got = e
            if got is not want:
                bag.add({"kind": "get_class_wrong_for_namesake", "history": "after_namesake" if i != order[0] else "first"}, {"order": [str(points[j]) for j in order], "asked": str(t), "got": repr(got)}, f"get_class({t}) returned {got!r} after resolving {[str(points[j]) for j in order[:order.index(i)]]}")
            if ns.get_model(want) != t or str(ns.get_model(want)) != str(t):
                bag.add({"kind": "get_model_wrong_for_namesake"}, {"asked": str(t)}, f"get_model of the class of {t} is {ns.get_model(want)}")
        for t in [x for x in types if x.short_name in ("Path", "Pick")]:
            top = t
            for v in space.values_of(top, False)[:: 1 if thorough else 3]:
                evals += 1
                try:
                    o = py.build(t, v)
                    s1 = b"".join(bytes(x) for x in ns.serialize(o))
                    o2 = ns.update_from_builtin(py.cls(t)(), ns.to_builtin(o))
                    s2 = b"".join(bytes(x) for x in ns.serialize(o2))
                    if s1 != s2:
                        bag.add({"kind": "builtin_roundtrip_differs", "feature": "namesakes"}, {"type": str(t), "first": s1.hex(), "second": s2.hex(), "order": [str(points[j]) for j in order]}, f"{t}: builtin round trip changed the serialized form {s1.hex()} -> {s2.hex()} (namesake element classes)")
                except Exception as e:  # pylint: disable=broad-except
                    bag.add({"kind": "builtin_roundtrip_raises", "feature": "namesakes", "exc": type(e).__name__}, {"type": str(t), "order": [str(points[j]) for j in order]}, f"{t}: builtin round trip raised {type(e).__name__}: {e}")
    return {"bag": bag, "evals": evals}


REDEFINITIONS: typing.List[typing.Tuple[str, typing.Dict[str, str], typing.Dict[str, str]]] = [
    # (label, definition A, definition B): same full name and version, same kind, same bit length set
    ("field_renamed", {"rg/T.1.0.dsdl": "uint8 level\n@sealed\n"}, {"rg/T.1.0.dsdl": "uint8 depth\n@sealed\n"}),
    ("field_signedness", {"rg/T.1.0.dsdl": "uint8 x\n@sealed\n"}, {"rg/T.1.0.dsdl": "int8 x\n@sealed\n"}),
    ("constant_value", {"rg/T.1.0.dsdl": "uint8 K = 1\nuint8 x\n@sealed\n"}, {"rg/T.1.0.dsdl": "uint8 K = 2\nuint8 x\n@sealed\n"}),
    ("port_id", {"rg/300.T.1.0.dsdl": "uint8 x\n@sealed\n"}, {"rg/301.T.1.0.dsdl": "uint8 x\n@sealed\n"}),
    ("deprecated", {"rg/T.1.0.dsdl": "uint8 x\n@sealed\n"}, {"rg/T.1.0.dsdl": "@deprecated\nuint8 x\n@sealed\n"}),
    ("array_kind", {"rg/T.1.0.dsdl": "uint8 n\nuint8[3] v\n@sealed\n"}, {"rg/T.1.0.dsdl": "uint8[4] v\n@sealed\n"}),
    ("union_option_renamed", {"rg/T.1.0.dsdl": "@union\nuint8 a\nuint16 b\n@sealed\n"}, {"rg/T.1.0.dsdl": "@union\nuint8 a\nuint16 c\n@sealed\n"}),
    ("service_response", {"rg/400.T.1.0.dsdl": "uint8 q\n@sealed\n---\nuint8 ok\n@sealed\n"}, {"rg/401.T.1.0.dsdl": "uint8 q\n@sealed\n---\nuint8 status\n@sealed\n"}),
    ("nested_changed", {"rg/I.1.0.dsdl": "uint8 a\n@sealed\n", "rg/T.1.0.dsdl": "rg.I.1.0 i\n@sealed\n"}, {"rg/I.1.0.dsdl": "uint8 b\n@sealed\n", "rg/T.1.0.dsdl": "rg.I.1.0 i\n@sealed\n"}),
]


def _work_redefinitions(job: tuple) -> dict:
    """One interpreter generates Python for a definition, then for a DIFFERENT definition of the same full name and version
    (an edited .dsdl file in a long-lived process: language server, build daemon, test session). After every generation the
    freshly imported classes must embed the model of the definition they were generated from. Histories: A,B / B,A / A,B,A."""
    scratch, thorough = job
    import importlib
    import pathlib
    import sys

    from vf import gen

    bag = Bag()
    evals = 0
    root = pathlib.Path(scratch) / "redef"
    for label, da, db in REDEFINITIONS:
        for hname, hist in (("A,B", (da, db)), ("B,A", (db, da)), ("A,B,A", (da, db, da))):
            for step, files in enumerate(hist):
                work = root / f"{label}_{hname.replace(',', '')}_{step}"
                gen.write_ns(work / "dsdl", files)
                out = work / "out"
                try:
                    gen.generate("py", work / "dsdl" / "rg", out)
                except Exception as e:  # pylint: disable=broad-except
                    bag.add({"kind": "regeneration_raises", "what": label, "exc": type(e).__name__}, {"history": hname, "step": step, "files": files}, f"redefinition {label} [{hname}] step {step}: generation raised {type(e).__name__}: {e}")
                    break
                types = pydsdl.read_namespace(str(work / "dsdl" / "rg"), [], allow_unregulated_fixed_port_id=True)
                for m in [k for k in list(sys.modules) if k == "nunavut_support" or k == "rg" or k.startswith("rg.")]:
                    del sys.modules[m]
                sys.path.insert(0, str(out))
                importlib.invalidate_caches()
                try:
                    mod = importlib.import_module("rg")
                    ns = importlib.import_module("nunavut_support")
                    for t in types:
                        cls = getattr(mod, f"{t.short_name}_{t.version.major}_{t.version.minor}")
                        pairs = [(cls, t)] if not isinstance(t, pydsdl.ServiceType) else [(cls, t), (cls.Request, t.request_type), (cls.Response, t.response_type)]
                        for c, model in pairs:
                            evals += 1
                            m = getattr(c, "_MODEL_", None)
                            if m is None or model_fingerprint(m) != model_fingerprint(model):
                                bag.add(
                                    {"kind": "model_stale_after_redefinition", "what": label, "history": hname if step else "first"},
                                    {"history": hname, "step": step, "files": files, "embedded": repr(model_fingerprint(m))[:400] if m is not None else None, "source": repr(model_fingerprint(model))[:400]},
                                    f"redefinition {label} [{hname}] step {step}: {c.__name__}._MODEL_ is not the model of the definition it was generated from",
                                )
                            if isinstance(model, pydsdl.ServiceType):
                                continue
                            try:
                                o = c()
                                b = ns.to_builtin(o)
                                o2 = ns.update_from_builtin(c(), b)
                                if b"".join(bytes(x) for x in ns.serialize(o)) != b"".join(bytes(x) for x in ns.serialize(o2)):
                                    bag.add({"kind": "builtin_roundtrip_differs", "feature": "redefinition:" + label}, {"history": hname, "step": step}, f"redefinition {label} [{hname}] step {step}: builtin round trip changed the bytes")
                            except Exception as e:  # pylint: disable=broad-except
                                bag.add({"kind": "builtin_roundtrip_raises", "feature": "redefinition:" + label, "exc": type(e).__name__}, {"history": hname, "step": step, "files": files}, f"redefinition {label} [{hname}] step {step}: builtin round trip raised {type(e).__name__}: {e}")
                finally:
                    sys.path.remove(str(out))
    return {"bag": bag, "evals": evals}


def run(ctx: Ctx) -> int:
    defs = E.select(ctx, space.universe(ctx.thorough))
    shards = E.make_shards(defs, 16 if not ctx.thorough else 40)
    jobs = E.debug_filter([(i, sh, ctx.scratch, ctx.thorough) for i, sh in enumerate(shards)])
    import multiprocessing as mp

    with mp.get_context("fork").Pool(min(ctx.workers, len(jobs) + 2)) as pool:
        a1 = pool.map_async(_work, jobs, 1)
        a2 = pool.apply_async(_work_namesakes, ((str(ctx.scratch), ctx.thorough),))
        a3 = pool.apply_async(_work_redefinitions, ((str(ctx.scratch), ctx.thorough),))
        results, nres, rres = a1.get(), a2.get(), a3.get()
    ctx.bag.merge(nres["bag"])
    ctx.bag.merge(rres["bag"])
    ctx.stats["namesake_evaluations"] = nres["evals"]
    ctx.stats["redefinition_evaluations"] = rres["evals"]
    outcomes: typing.Set[str] = set()
    for r in results:
        ctx.bag.merge(r["bag"])
        outcomes |= r["outcomes"]
        for s in r["samples"]:
            ctx.sample(s)
    need = {"reject:ValueError", "array_reject:ValueError"}
    if not need <= outcomes and not os.environ.get("VERIF_ONLY_SHARDS"):
        # from the classes under test; a class that stopped rejecting is reported as a violation, which takes precedence
        ctx.vacuity(f"never saw {sorted(need - outcomes)}", hard=True)
    ctx.stats.update(types=sum(r["types"] for r in results), union_states=sum(r["states"] for r in results), union_transitions=sum(r["transitions"] for r in results), outcome_classes=sorted(outcomes))
    cov = {
        "evaluations": sum(r["evals"] for r in results) + sum(r["transitions"] for r in results),
        "distinct_nontrivial": sum(r["nontrivial"] for r in results) + sum(r["transitions"] for r in results),
        "states": max(1, sum(r["states"] for r in results)),
        "transitions": max(1, sum(r["transitions"] for r in results)),
        "rule": "one evaluation = one candidate assigned to one field through the setter or the constructor, one union setter event, one "
        "model comparison or one builtin round trip; non-trivial = out-of-range / wrong-length candidates and union events",
        "bound_completed": f"{ctx.stats['types']} types; per field: min, max, min-1, max+1, +-2^70, numpy scalars, wrong types; arrays: lengths 0, cap, cap+1, cap+7, "
        f"fixed+-1 as list / ndarray / bytes / str / bytearray / memoryview (1-D bytes, 16-bit items, 2-D); unions: all histories of <=3 (valid|invalid) setter events from every "
        f"constructor; {len(REDEFINITIONS)} redefinitions of one type x histories A,B / B,A / A,B,A in one interpreter",
        "exhaustive": bool(ctx.thorough),
    }
    return ctx.finish(
        "exploration",
        cov,
        ["CPython 3.12 + NumPy 2.5", "out-of-range ELEMENTS of arrays are not demanded to raise (statement names capacity and fixed length only)", "for wrong-type candidates any exception is acceptable; only 'no out-of-range value stored' is demanded"],
        min_outcomes=("evaluations", 1000),
    )


def replay(ctx: Ctx, case: dict) -> int:
    print("C18 replay case:", case)
    return 0
