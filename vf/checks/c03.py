"""
C03 - round trip, cross-target and cross-option agreement of generated codecs (exploration; relational oracle only,
independent of the reference codec).  Same types/values/byte strings as C01/C02 plus inexact float16 values around
rounding ties; every case runs under every (target, option set) and all results are compared pairwise.
"""
from __future__ import annotations

import math
import os
import typing
from fractions import Fraction

import pydsdl

from vf.codec import engine as E
from vf.codec import flat, ref, space
from vf.core import Bag, Ctx, HarnessError


def configs(ctx: Ctx) -> typing.List[E.Config]:
    if ctx.thorough:
        return [E.C_ANY, E.C_LITTLE, E.C_BIG, E.C_ANY_ASSERT, E.C_LITTLE_ASSERT, E.C_BIG_ASSERT, E.C_LITTLE_OVERRIDE, E.CPP14, E.CPP17, E.CPP20, E.CPP14_LITTLE, E.CPP17_LITTLE_ASSERT, E.CPP17_PMR, E.PY]
    return [E.C_ANY, E.C_LITTLE, E.C_BIG_ASSERT, E.C_LITTLE_OVERRIDE, E.CPP14, E.CPP17_LITTLE_ASSERT, E.CPP17_PMR, E.PY]


def feature(d: space.TypeDef) -> str:
    return d.layer + ":" + d.name[2:].split("k")[0][:14]


def is_f16_tie(x: float) -> bool:
    """x lies exactly halfway between two adjacent half-precision values."""
    if x != x or math.isinf(x):
        return False
    a = ref.float_to_bits_exact(x, 16, "even")
    b = ref.float_to_bits_exact(x, 16, "away")
    return a != b


def has_f16(t: pydsdl.SerializableType) -> bool:
    if isinstance(t, pydsdl.FloatType):
        return t.bit_length == 16
    if isinstance(t, pydsdl.ArrayType):
        return has_f16(t.element_type)
    if isinstance(t, pydsdl.DelimitedType):
        return has_f16(t.inner_type)
    if isinstance(t, pydsdl.CompositeType):
        return any(has_f16(f.data_type) for f in t.fields)
    return False


def f16_leaves(t: pydsdl.SerializableType, v: typing.Any) -> typing.List[float]:
    if isinstance(t, pydsdl.FloatType):
        return [v] if t.bit_length == 16 else []
    if isinstance(t, pydsdl.ArrayType):
        return [y for x in v for y in f16_leaves(t.element_type, x)]
    if isinstance(t, pydsdl.DelimitedType):
        return f16_leaves(t.inner_type, v)
    if isinstance(t, pydsdl.UnionType):
        f = next(f for f in t.fields if f.name == v[0])
        return f16_leaves(f.data_type, v[1])
    if isinstance(t, pydsdl.StructureType):
        return [y for f in t.fields if not isinstance(f, pydsdl.PaddingField) for y in f16_leaves(f.data_type, v[f.name])]
    return []


def all_exact(t: pydsdl.SerializableType, v: typing.Any) -> bool:
    return all(ref.is_exact(x, 16) for x in f16_leaves(t, v))


def _work(job: tuple) -> dict:
    sid, defs, scratch, thorough, cfgs = job
    sh = E.Shard(sid, defs, scratch)
    bag = Bag()
    evals = 0
    pairs = 0
    nontrivial = 0
    samples = []
    try:
        splan = []  # (ti, d, t, top, value, toks, in_range, exact, tie)
        dplan = []  # (ti, d, t, data)
        for ti, (d, t) in enumerate(zip(sh.mains, sh.main_models)):
            top = t.inner_type if isinstance(t, pydsdl.DelimitedType) else t
            vals = [v for v, bad in E.ser_cases(t, storage=True) if not bad]
            if d.layer == "L1" and has_f16(top):
                base = vals[0]
                for x in space.f16_inexact_values():
                    v = dict(base)
                    v["x"] = x
                    vals.append(v)
            for v in vals:
                leaves = f16_leaves(top, v)
                splan.append((ti, d, t, top, v, flat.flatten(top, v), E.in_dsdl_range(top, v), all(ref.is_exact(x, 16) for x in leaves), any(is_f16_tie(x) for x in leaves)))
            encs = [ref.encode_top(t, v) for v, bad in E.ser_cases(t, storage=False) if not bad]
            cases, _ = E.des_cases(t, encs, thorough, cap=1200 if thorough else 120)
            for data in cases:
                dplan.append((ti, d, t, data))
        nontrivial = sum(1 for s in splan if not s[6] or not s[7]) + len(dplan)
        sres: typing.Dict[str, typing.List[typing.Any]] = {}
        dres: typing.Dict[str, typing.List[typing.Any]] = {}
        for c in cfgs:
            if c.lang == "py":
                py = sh.py()
                out = []
                for ti, d, t, top, v, toks, inr, exact, tie in splan:
                    if not inr:
                        out.append(None)
                        continue
                    st, data = py.serialize(t, v)
                    evals += 1
                    if st != "ok":
                        out.append(("err", st))
                        continue
                    st2, val2 = py.deserialize(t, data)
                    if st2 != "ok":
                        out.append(("ok", data.hex(), "deserr", None, None))
                        continue
                    st3, data3 = py.serialize(t, val2)
                    out.append(("ok", data.hex(), "ok", flat.flatten(top, val2), data3.hex() if st3 == "ok" else "err:" + st3))
                sres[c.tag] = out
                outd = []
                for ti, d, t, data in dplan:
                    top = t.inner_type if isinstance(t, pydsdl.DelimitedType) else t
                    try:
                        st, val = py.deserialize(t, data)
                        outd.append(("ok", flat.flatten(top, val)) if st == "ok" else ("err",))
                    except Exception as e:  # pylint: disable=broad-except
                        outd.append(("exception", type(e).__name__))
                    evals += 1
                dres[c.tag] = outd
                continue
            exe = sh.build(c)
            cmds = [f"R {ti} {E.max_bytes(t)} 255 " + " ".join(toks) for ti, d, t, top, v, toks, inr, exact, tie in splan]
            cmds += [f"D {ti} {1 + (k % 2)} {E.hexs(data)}" for k, (ti, d, t, data) in enumerate(dplan)]
            res = sh.run_driver(exe, cmds)
            out = []
            for r in res[: len(splan)]:
                evals += 1
                if isinstance(r, dict):
                    out.append(("crash", E.san_summary(r.get("crash", r.get("exit_report", "")))))
                    continue
                segs = [s.split() for s in r[2:].split("|")]
                rc1 = int(segs[0][0])
                if rc1 < 0:
                    out.append(("err", rc1))
                    continue
                hex1 = segs[0][1] if len(segs[0]) > 1 else "-"
                hex1 = "" if hex1 == "-" else hex1
                rc2 = int(segs[1][0])
                if rc2 < 0:
                    out.append(("ok", hex1, "deserr", None, None))
                    continue
                toks2 = segs[1][2:]
                rc3 = int(segs[2][0])
                hex3 = (segs[2][1] if len(segs[2]) > 1 else "-") if rc3 >= 0 else f"err:{rc3}"
                out.append(("ok", hex1, "ok", toks2, "" if hex3 == "-" else hex3))
            sres[c.tag] = out
            outd = []
            for r in res[len(splan) : len(splan) + len(dplan)]:
                evals += 1
                if isinstance(r, dict):
                    outd.append(("crash", E.san_summary(r.get("crash", r.get("exit_report", "")))))
                    continue
                parts = r.split()
                outd.append(("ok", parts[3:]) if int(parts[1]) >= 0 else ("err",))
            dres[c.tag] = outd
        tags = [c.tag for c in cfgs]
        lang_of = {c.tag: c.lang for c in cfgs}
        # ---- per-implementation round trip
        for k, (ti, d, t, top, v, toks, inr, exact, tie) in enumerate(splan):
            for tag in tags:
                r = sres[tag][k]
                if r is None or r[0] != "ok":
                    if r is not None and r[0] == "crash":
                        bag.add({"kind": "crash", "lang": lang_of[tag], "what": r[1]}, {"type": d.body, "tokens": toks, "config": tag}, f"{tag} {d.name} {toks}: {r[1]}")
                    continue
                if r[2] != "ok":
                    bag.add({"kind": "own_output_rejected", "lang": lang_of[tag], "feature": feature(d)}, {"type": d.body, "tokens": toks, "config": tag, "bytes": r[1]}, f"{tag} {d.name}: deserializer rejects the bytes its own serializer produced for {toks}: {r[1]}")
                    continue
                if r[4] != r[1]:
                    bag.add({"kind": "reserialization_differs", "lang": lang_of[tag], "feature": feature(d)}, {"type": d.body, "tokens": toks, "config": tag, "first": r[1], "second": r[4]}, f"{tag} {d.name} {toks}: ser(des(ser(v))) = {r[4]} != ser(v) = {r[1]}")
                if inr and exact and not flat.same_tokens(r[3], toks):
                    bag.add({"kind": "roundtrip_value_differs", "lang": lang_of[tag], "feature": feature(d)}, {"type": d.body, "tokens": toks, "config": tag, "decoded": r[3]}, f"{tag} {d.name}: des(ser(v)) = {r[3]} != v = {toks} (v is in range, no cast adjustment applies)")
            # ---- pairwise agreement (all pairs: compare everything with the first config that ran the case)
            ran = [(tag, sres[tag][k]) for tag in tags if sres[tag][k] is not None and sres[tag][k][0] != "crash"]
            for i in range(len(ran)):
                for j in range(i + 1, len(ran)):
                    (ta, ra), (tb, rb) = ran[i], ran[j]
                    pairs += 1
                    ka = (ra[0], ra[1] if ra[0] == "ok" else None)
                    kb = (rb[0], rb[1] if rb[0] == "ok" else None)
                    la, lb = lang_of[ta], lang_of[tb]
                    if ka != kb:
                        feat = "float16_inexact" if not exact else feature(d)
                        if tie and ka[0] == kb[0] == "ok" and {la, lb} in ({"c", "py"}, {"cpp", "py"}):
                            # classification of the recorded finding only: the native side rounds the tie away from zero,
                            # NumPy rounds it to even, and nothing else differs
                            native, pyr = (ra, rb) if lb == "py" else (rb, ra)
                            if native[1] == ref.encode_top(t, v, "away").hex() and pyr[1] == ref.encode_top(t, v, "even").hex():
                                feat = "float16_tie_rounding"
                        bag.add(
                            {"kind": "bytes_differ", "targets": "-".join(sorted({la, lb})) if la != lb else la + "-options", "feature": feat},
                            {"type": d.body, "tokens": toks, "a": ta, "b": tb, "a_result": ra[:2], "b_result": rb[:2]},
                            f"{d.name} value {toks}: {ta} -> {ra[:2]} but {tb} -> {rb[:2]}",
                        )
                    elif ra[0] == "ok" and ra[2] == rb[2] == "ok" and not flat.same_tokens(ra[3], rb[3]):
                        bag.add(
                            {"kind": "decoded_values_differ", "targets": "-".join(sorted({la, lb})) if la != lb else la + "-options", "feature": feature(d)},
                            {"type": d.body, "bytes": ra[1], "a": ta, "b": tb, "a_value": ra[3], "b_value": rb[3]},
                            f"{d.name} bytes {ra[1]}: {ta} decodes {ra[3]} but {tb} decodes {rb[3]}",
                        )
        for k, (ti, d, t, data) in enumerate(dplan):
            ran = [(tag, dres[tag][k]) for tag in tags]
            for tag, r in ran:
                if r[0] == "crash":
                    bag.add({"kind": "crash", "lang": lang_of[tag], "what": r[1]}, {"type": d.body, "bytes": data.hex(), "config": tag}, f"{tag} {d.name} {data.hex()}: {r[1]}")
            ran = [x for x in ran if x[1][0] != "crash"]
            for i in range(len(ran)):
                for j in range(i + 1, len(ran)):
                    (ta, ra), (tb, rb) = ran[i], ran[j]
                    pairs += 1
                    la, lb = lang_of[ta], lang_of[tb]
                    same = ra[0] == rb[0] and (ra[0] != "ok" or flat.same_tokens(ra[1], rb[1]))
                    if not same:
                        bag.add(
                            {"kind": "decode_disagreement", "targets": "-".join(sorted({la, lb})) if la != lb else la + "-options", "feature": feature(d), "verdicts": f"{ra[0]}/{rb[0]}"},
                            {"type": d.body, "bytes": data.hex(), "a": ta, "b": tb, "a_result": ra, "b_result": rb},
                            f"{d.name} bytes {data.hex()!r}: {ta} -> {ra} but {tb} -> {rb}",
                        )
        for s in splan[:: max(1, len(splan) // 2)][:2]:
            samples.append({"type": s[1].body, "tokens": s[5], "results": {tag: (sres[tag][splan.index(s)] or ["not run"])[:2] for tag in tags}})
    finally:
        sh.cleanup()
    return {"bag": bag, "evals": evals, "pairs": pairs, "nontrivial": nontrivial, "types": len(sh.mains), "samples": samples, "scases": len(splan), "dcases": len(dplan)}


def run(ctx: Ctx) -> int:
    defs = E.select(ctx, space.universe(ctx.thorough, big=True))
    shards = E.make_shards(defs, 10 if not ctx.thorough else 24)
    cfgs = configs(ctx)
    jobs = E.debug_filter([(i, sh, ctx.scratch, ctx.thorough, cfgs) for i, sh in enumerate(shards)])
    results = ctx.pool_map(_work, jobs)
    for r in results:
        ctx.bag.merge(r["bag"])
        for s in r["samples"]:
            ctx.sample(s)
    ctx.stats.update(types=sum(r["types"] for r in results), value_cases=sum(r["scases"] for r in results), byte_string_cases=sum(r["dcases"] for r in results), pair_comparisons=sum(r["pairs"] for r in results), configs=[c.tag for c in cfgs])
    cov = {
        "evaluations": sum(r["evals"] for r in results),
        "distinct_nontrivial": sum(r["nontrivial"] for r in results),
        "rule": "one evaluation = one ser->des->ser round trip or one decode under one configuration; every case is compared "
        "across ALL pairs of configurations; non-trivial = value needing a cast adjustment / inexact float16, or any byte string",
        "bound_completed": f"{ctx.stats['types']} types, {ctx.stats['value_cases']} values + {ctx.stats['byte_string_cases']} byte strings x {len(cfgs)} configurations, {ctx.stats['pair_comparisons']} pairwise comparisons",
        "exhaustive": bool(ctx.thorough),
    }
    return ctx.finish(
        "exploration",
        cov,
        ["no reference codec is used: oracle is purely relational", "little-endian host: target_endianness=big is checked for equivalence only", "cetl flavour not executed (CETL submodule empty); c++17-pmr runs with the default memory resource"],
        min_outcomes=("evaluations", 1000),
    )


def replay(ctx: Ctx, case: dict) -> int:
    from vf.codec.replay import replay_case

    return replay_case(ctx, case)
