"""
C11 - types map one-to-one onto files in the output tree; the namespace model is a tree (exploration).

Enumerated space
    every subset of <= 4 types (794 sets, the empty one included) of a fixed universe of 12 composite types that lives
    below one root namespace `r` (depth 1..3, empty intermediate namespaces, three versions of one type, components and
    short names that need stropping, one pair of components per language family that the stropping folds onto one
    identifier, a type named like a sibling namespace)
      x target language {c, cpp, py, html}
      x definition-file extension {default, .hxx, .gen.h} x namespace-file stem {default, nsidx}
      x output directory spelling {out, out/, ./o/ut, <abs>/out, <abs>/out/} (relative ones with cwd set)
      x EVERY order of the type list handed to build_namespace_tree
      (+ two forced iteration orders of every `set` built inside nunavut._namespace, on one configuration per set)
    and, for every non-empty set, a second root namespace `s` whose only type has one field of every type of the set
    (parsed with `r` as a look-up directory).
    The .dsdl files are really written, PyDSDL parses them, the real build_namespace_tree builds the model.

Oracle on the model (computed from the input set; only the stropping of ONE token is taken from the language object)
    get_all_datatypes / get_all_types / get_nested_types yield each input type exactly once, get_all_namespaces yields
    exactly the prefix closure of the types' namespaces once each, child sets / parent pointers / root pointer agree
    with that closure, find_output_path_for_type asked at EVERY node for EVERY type and namespace answers, and every
    type's path is <out>/<strop(component)>.../<strop(Short_major_minor)><ext>.  Two types may share a path only where
    that formula folds them.  The include list of the second root's type names the same relative paths.  The canonical
    model must not depend on the order of the type list.

Oracle on disk (sets of <= 2 types, all spellings, CLI in-process inside a sandbox that encloses the output directory)
    files created == type files by the formula (required) + namespace files the model names + support files (allowed);
    nothing else appears, nothing appears outside the output directory, inputs stay untouched; the second root,
    generated into the same directory, refers (#include / import) to exactly the files the first run produced.

The far end of the legal sizes (same oracles; one root namespace `r`, one-line types, really written and parsed)
    N runs over the boundary series P-1, P, P+1 for every power of two P = 32 .. 512 (31 .. 513):
      wide      N sibling namespaces r.s000 .. with one type each (N + 1 namespaces)
      types     N types in the one namespace r.x
      versions  N versions of the one type r.x.A (major 0..255 x minor 0..2, 0.0 excepted)
      chain     one chain r.a.a...a of N namespaces for N in the series up to the LONGEST LEGAL full name (255
                characters = 127 namespaces; 125, 126 added), one type at the bottom (every intermediate namespace
                empty) or one type at every level
      chainwide the longest chain + 1..3 sibling namespaces (128, 129, 130 namespaces)
      grid      a x b namespaces on two levels with 1 + a + a*b = P + 1 namespaces, first level empty or populated
    Model: target c with the type list ascending and reversed (the two models must agree), the other languages with
    one order (quick: the seed-selected eighth of the (shape, language) cells, and of `types` / `versions` with 511,
    512, 513 the seed-selected one; thorough: everything, both orders).
    Path lookup is asked for every type at the root and at its own namespace, for three types at three more nodes
    (asking every node for every type is cubic in N).  Disk: nnvg in-process for a fixed list of shapes up to 130
    namespaces (quick) / every shape (thorough).
"""
from __future__ import annotations

import collections
import itertools
import os
import pathlib
import re
import shutil
import typing

from vf.core import Bag, Ctx, HarnessError, stable_hash

# ----------------------------------------------------------------------------------------------------- the universe
# (namespace components, short name, major, minor)
UNIVERSE: typing.List[typing.Tuple[typing.Tuple[str, ...], str, int, int]] = [
    (("r",), "A", 1, 0),  # type directly in the root namespace
    (("r", "x"), "A", 1, 0),
    (("r", "x"), "A", 1, 1),  # second minor version of the same type
    (("r", "x"), "A", 2, 0),  # second major version of the same type
    (("r", "x"), "B", 1, 0),
    (("r", "x"), "y", 1, 0),  # a type named like the sibling namespace r.x.y
    (("r", "x", "y"), "A", 1, 0),  # depth 3: r.x may be an empty intermediate namespace
    (("r", "x", "y"), "Struct_", 1, 1),  # Struct__1_1: double underscore inside the file name
    (("r", "if"), "A", 1, 0),  # component stropped by c, cpp (_if) and py (if_)
    (("r", "if", "y"), "_A", 2, 0),  # below a stropped, possibly empty namespace; short name stropped by c/cpp (_a_2_0)
    (("r", "_if"), "A", 1, 0),  # folds with r.if in c and cpp, and its file with the file of r.if.A.1.0
    (("r", "if_"), "B", 1, 0),  # folds with r.if in py (the namespaces fold, no two type files do)
]
ROOT = "r"
SECOND_ROOT = "s"
LANGS = ["c", "cpp", "py", "html"]
# The same language with the `enable_stropping: false` configuration override.  Only c and cpp: with the override the
# py templates fail on any type that has a field (filter_longest_id_length takes len() of Field objects), which is not
# this property's subject, and html never strops.
NOSTROP = "-nostrop"
NOSTROP_TARGETS = ["c" + NOSTROP, "cpp" + NOSTROP]
NOSTROP_SPELLINGS = ["rel", "abs_slash"]
DEFAULT_EXT = {"c": ".h", "cpp": ".hpp", "py": ".py", "html": ".html"}  # written down here, not read from nunavut
EXTS: typing.List[typing.Optional[str]] = [None, ".hxx", ".gen.h"]
STEMS: typing.List[typing.Optional[str]] = [None, "nsidx"]
SPELLINGS = ["rel", "rel_slash", "rel_dot_nested", "abs", "abs_slash"]
SETORDERS = ["asc", "desc"]
MAX_SET = 4
MAX_DISK_SET = 2

TypeSpec = typing.Tuple[typing.Tuple[str, ...], str, int, int]


def split_target(target: str) -> typing.Tuple[str, bool]:
    """'c' -> ('c', stropping enabled), 'c-nostrop' -> ('c', stropping disabled by configuration)"""
    if target.endswith(NOSTROP):
        return target[: -len(NOSTROP)], False
    return target, True


def sig_for(target: str, folded_ns: bool, kind: typing.Optional[str] = None) -> dict:
    base, strop = split_target(target)
    sig: dict = {"lang": base, "folded_ns": folded_ns}
    if not strop:
        sig["strop"] = "off"
    if kind is not None:
        sig["kind"] = kind
    return sig


def tname(s: TypeSpec) -> str:
    return ".".join(s[0]) + f".{s[1]}.{s[2]}.{s[3]}"


BY_NAME = {tname(s): s for s in UNIVERSE}


def tid_of(t: typing.Any) -> str:
    return f"{t.full_name}.{t.version.major}.{t.version.minor}"


def uname_for(names: typing.Sequence[str]) -> str:
    """The type of the second root. Its name encodes the set it refers to: PyDSDL types compare equal by name, version
    and bit length set, and nunavut caches dependency lists per (equal) type for the life of the process - that cache
    is C10's subject, so this check never presents two different types under one name."""
    order = [tname(u) for u in UNIVERSE]
    mask = sum(1 << order.index(n) for n in names)
    return f"{SECOND_ROOT}.U{mask:03x}.1.0"


def subset_key(names: typing.Sequence[str]) -> str:
    return "+".join(names) if names else "<empty>"


def all_subsets() -> typing.List[typing.Tuple[str, ...]]:
    names = [tname(s) for s in UNIVERSE]
    out: typing.List[typing.Tuple[str, ...]] = []
    for k in range(0, MAX_SET + 1):
        out.extend(itertools.combinations(names, k))
    return out


def out_spelling(spelling: str, sandbox: pathlib.Path) -> str:
    if spelling == "rel":
        return "out"
    if spelling == "rel_slash":
        return "out/"
    if spelling == "rel_dot_nested":
        return "./o/ut"
    if spelling == "abs":
        return str(sandbox / "out")
    if spelling == "abs_slash":
        return str(sandbox / "out") + "/"
    raise HarnessError(f"unknown spelling {spelling}")


def in_spelling(spelling: str, sandbox: pathlib.Path, root: str) -> str:
    return f"dsdl/{root}" if spelling.startswith("rel") else str(sandbox / "dsdl" / root)


def write_dsdl(sandbox: pathlib.Path, names: typing.Sequence[str]) -> None:
    """Writes root namespace `r` with the chosen types and root `s` with one type that has a field of each."""
    r = sandbox / "dsdl" / ROOT
    r.mkdir(parents=True, exist_ok=True)
    for n in names:
        ns, short, major, minor = BY_NAME[n]
        d = sandbox / "dsdl" / pathlib.Path(*ns)
        d.mkdir(parents=True, exist_ok=True)
        (d / f"{short}.{major}.{minor}.dsdl").write_text("@sealed\n", encoding="utf-8")
    if names:
        s = sandbox / "dsdl" / SECOND_ROOT
        s.mkdir(parents=True, exist_ok=True)
        body = "".join(f"{n} f{i}\n" for i, n in enumerate(names)) + "@sealed\n"
        short = uname_for(names).split(".")[1]
        (s / f"{short}.1.0.dsdl").write_text(body, encoding="utf-8")


# ------------------------------------------------------------------------------------------------ language objects
_LCTX: typing.Dict[tuple, typing.Any] = {}


def lctx_for(lang: str, ext: typing.Optional[str], stem: typing.Optional[str]) -> typing.Any:
    key = (lang, ext, stem)
    if key not in _LCTX:
        from vf import gen

        base, strop = split_target(lang)
        if strop:
            _LCTX[key] = gen.language_context(base, None, ext, stem)
        else:
            from nunavut.lang import Language, LanguageContextBuilder

            b = LanguageContextBuilder(include_experimental_languages=True).set_target_language(base)
            if ext is not None:
                b.set_target_language_extension(ext)
            if stem is not None:
                b.set_target_language_configuration_override(Language.WKCV_NAMESPACE_FILE_STEM, stem)
            b.set_target_language_configuration_override(Language.WKCV_ENABLE_STROPPING, False)
            _LCTX[key] = b.create()
            if _LCTX[key].get_target_language().enable_stropping:
                raise HarnessError("glue: the enable_stropping override did not take effect")
    return _LCTX[key]


def strop1(lctx: typing.Any, token: str) -> str:
    """The one thing taken from the code under test: the stropping of a single path token."""
    return str(lctx.get_target_language().filter_id(token, "path"))


class Expect:
    """Everything the oracle needs, computed from the specs of the input set (not from nunavut's tree code)."""

    def __init__(self, specs: typing.Sequence[TypeSpec], lctx: typing.Any, lang: str, ext: typing.Optional[str]):
        base_lang, self.strop = split_target(lang)
        self.ext = DEFAULT_EXT[base_lang] if ext is None else ext
        # Acceptable relative paths per type, most expected first.  Stropping enabled: stropped components, file-name
        # token stropped or as written.  Stropping disabled by configuration: every component (and the token) may be
        # the unstropped or the stropped name - the statement does not say which; what it does say (one file per type,
        # the same path whether generated or referenced, model == disk) is checked on top of this.
        self.cands: typing.Dict[str, typing.Tuple[typing.Tuple[str, ...], ...]] = {}
        self.types: typing.Dict[str, TypeSpec] = {tname(s): s for s in specs}
        self.rel: typing.Dict[str, typing.Tuple[str, ...]] = {}
        self.raw: typing.Dict[str, typing.Tuple[str, ...]] = {}
        # The statement writes the file name as <ShortName>_<major>_<minor><extension> and only calls the namespace
        # components "(stropped)"; nunavut strops the file-name token too (documented one-way stropping).  Both
        # readings are accepted: `rel` = stropped token, `alt` = the token as written in the statement.
        self.alt: typing.Dict[str, typing.Tuple[str, ...]] = {}
        self.closure: typing.Set[typing.Tuple[str, ...]] = set()
        self.stropped_any = False
        for s in specs:
            ns, short, major, minor = s
            token = f"{short}_{major}_{minor}"
            parts = tuple(strop1(lctx, c) for c in ns) + (strop1(lctx, token) + self.ext,)
            self.rel[tname(s)] = parts
            self.alt[tname(s)] = parts[:-1] + (token + self.ext,)
            self.raw[tname(s)] = tuple(ns) + (token + self.ext,)
            if self.strop:
                cands = [self.rel[tname(s)], self.alt[tname(s)]]
            else:
                choices = [(c, strop1(lctx, c)) for c in ns] + [(token + self.ext, strop1(lctx, token) + self.ext)]
                cands = [tuple(x) for x in itertools.product(*choices)]
            self.cands[tname(s)] = tuple(dict.fromkeys(cands))
            if parts != self.raw[tname(s)]:
                self.stropped_any = True
            for i in range(1, len(ns) + 1):
                self.closure.add(tuple(ns[:i]))
        self.ns_stropped = {n: tuple(strop1(lctx, c) for c in n) for n in self.closure}
        inv: typing.Dict[tuple, int] = collections.Counter(self.ns_stropped.values())
        self.folded_ns = any(v > 1 for v in inv.values())
        relinv: typing.Dict[tuple, int] = collections.Counter(self.rel.values())
        self.folded_types = self.strop and any(v > 1 for v in relinv.values())
        self.gap = any(not any(s[0] == n for s in specs) for n in self.closure)
        self.multi_version = len({(s[0], s[1]) for s in specs}) < len(specs)
        self.multi_ns = len({s[0] for s in specs}) > 1
        self._want: typing.Dict[tuple, typing.Dict[str, typing.Tuple[str, ...]]] = {}
        # namespace -> its expected child namespaces / the types expected directly in it (both sorted)
        kids: typing.Dict[tuple, list] = collections.defaultdict(list)
        for c in self.closure:
            if len(c) > 1:
                kids[c[:-1]].append(c)
        self.kids_of: typing.Dict[tuple, list] = {k: sorted(v_) for k, v_ in kids.items()}
        nested: typing.Dict[tuple, list] = collections.defaultdict(list)
        for n, s in self.types.items():
            nested[tuple(s[0])].append(n)
        self.nested_in: typing.Dict[tuple, list] = {k: sorted(v_) for k, v_ in nested.items()}

    def want_paths(self, out: str, cwd: pathlib.Path) -> typing.Dict[str, typing.Tuple[str, ...]]:
        """type name -> the acceptable paths (one, or two where the file-name token is changed by the stropping)"""
        key = (out, str(cwd))
        if key not in self._want:
            self._want[key] = {
                n: tuple(dict.fromkeys(norm(cwd, pathlib.PurePath(out, *c)) for c in self.cands[n]))
                for n in self.types
            }
        return self._want[key]

    def nontrivial(self) -> bool:
        return self.gap or self.multi_version or self.multi_ns or self.stropped_any or self.folded_ns


def norm(cwd: pathlib.Path, p: typing.Any) -> str:
    """A path as the file it names: relative paths are taken from the working directory; nothing is resolved.
    (Same equivalence as pathlib.Path(cwd, p) == ..., computed on strings because it runs millions of times.)"""
    s = str(p) if isinstance(p, pathlib.PurePath) else str(pathlib.PurePath(p))
    return s if s.startswith("/") else f"{cwd}/{s}"


# ----------------------------------------------------------------------------------------------- permuting the sets
def _make_ordered_set(reverse: bool) -> type:
    class _OrderedSet(set):  # type: ignore
        def __iter__(self) -> typing.Iterator:  # type: ignore
            return iter(sorted(set.__iter__(self), key=str, reverse=reverse))

    return _OrderedSet


class SetOrder:
    """Replaces the name `set` seen by nunavut._namespace by a set that iterates in a forced order."""

    def __init__(self, order: typing.Optional[str]):
        self.order = order

    def __enter__(self) -> None:
        if self.order is not None:
            import nunavut._namespace as m

            m.__dict__["set"] = _make_ordered_set(self.order == "desc")

    def __exit__(self, *a: typing.Any) -> None:
        if self.order is not None:
            import nunavut._namespace as m

            m.__dict__.pop("set", None)


# ------------------------------------------------------------------------------------------------ the model oracle
def ns_identity(node: typing.Any, root_resolved: pathlib.Path, root_name: str) -> typing.Tuple[str, ...]:
    """Names a namespace node by where its DSDL lives (unstropped), the only public unstropped identity it has."""
    src, root = str(node.source_file_path), str(root_resolved)
    if src == root:
        return (root_name,)
    if src.startswith(root + "/"):
        return (root_name,) + tuple(src[len(root) + 1 :].split("/"))
    return ("?", src)


def check_model(
    root_node: typing.Any,
    types: typing.Sequence[typing.Any],
    ex: Expect,
    out: str,
    cwd: pathlib.Path,
    root_resolved: pathlib.Path,
    root_name: str,
    light: bool = False,
) -> typing.Tuple[typing.List[typing.Tuple[str, str]], tuple]:
    """Returns (violations as (kind, text), canonical form of the model).
    light (large trees only): path lookup is asked for every type and namespace at the root, for three types (first,
    middle, last by name) and every namespace at three more nodes (first, middle, last by name), and at every node
    for the types expected directly in it - not at every node for everything, which is cubic in the size of the
    tree."""
    v: typing.List[typing.Tuple[str, str]] = []
    want_path = ex.want_paths(out, cwd)
    by_tid = {tid_of(t): t for t in types}
    if set(by_tid) != set(ex.types):
        raise HarnessError(f"glue: parsed types {sorted(by_tid)} are not the requested {sorted(ex.types)}")

    # -- every type exactly once, at the path the formula gives
    seen = [(tid_of(t), p) for t, p in root_node.get_all_datatypes()]
    cnt = collections.Counter(n for n, _ in seen)
    for n in ex.types:
        if cnt.get(n, 0) == 0:
            v.append(("type_missing", f"get_all_datatypes() does not yield {n}"))
        elif cnt[n] > 1:
            v.append(("type_duplicated", f"get_all_datatypes() yields {n} {cnt[n]} times"))
    for n in cnt:
        if n not in ex.types:
            v.append(("type_unknown", f"get_all_datatypes() yields {n} which was not in the input"))
    for n, p in seen:
        if n in want_path and norm(cwd, p) not in want_path[n]:
            v.append(("type_path", f"{n} mapped to {p}, expected {pathlib.Path(out, *ex.cands[n][0])}"))
    first_path = {}
    for n, p in seen:
        first_path.setdefault(n, norm(cwd, p))

    # -- injectivity (folds of the one-way stropping excepted, exactly)
    groups: typing.Dict[str, typing.Set[str]] = collections.defaultdict(set)
    for n, p in seen:
        groups[norm(cwd, p)].add(n)
    for p, ns_ in groups.items():
        if len(ns_) > 1:
            # excused only where one acceptable (stropped) path is common to all of them
            common = set.intersection(*[set(ex.cands.get(n, ())) for n in ns_])
            if not common:
                shown = p[len(str(cwd)) + 1 :] if p.startswith(str(cwd) + "/") else p
                v.append(("shared_file", f"distinct types {sorted(ns_)} share {shown} without a stropping fold"))

    # -- every namespace of the prefix closure exactly once
    nodes = [(node, p) for node, p in root_node.get_all_namespaces()]
    idents = [ns_identity(node, root_resolved, root_name) for node, _ in nodes]
    id_cache = {id(node): ident for (node, _), ident in zip(nodes, idents)}

    def ident_of(k: typing.Any) -> typing.Tuple[str, ...]:
        got = id_cache.get(id(k))
        return got if got is not None else ns_identity(k, root_resolved, root_name)

    ncnt = collections.Counter(idents)
    for c in sorted(ex.closure):
        if ncnt.get(c, 0) == 0:
            v.append(("ns_missing", f"get_all_namespaces() does not yield {'.'.join(c)}"))
        elif ncnt[c] > 1:
            v.append(("ns_duplicated", f"get_all_namespaces() yields {'.'.join(c)} {ncnt[c]} times"))
    for c in ncnt:
        if c not in ex.closure:
            v.append(("ns_unknown", f"get_all_namespaces() yields {'.'.join(c)} which is on no path to a type"))

    # -- root
    rid = ns_identity(root_node, root_resolved, root_name)
    if rid != (root_name,):
        v.append(("root_wrong", f"the returned root is {'.'.join(rid)}, expected {root_name}"))
    if getattr(root_node, "_parent", "absent") is not None:
        v.append(("root_wrong", "the returned root has a parent"))

    # -- links, nested types, path lookup from every node
    canon_ns = []
    ask_all = set(range(len(nodes)))
    ask_some: typing.Set[int] = set()
    some_types: typing.List[str] = []
    if light:
        by_name = sorted(range(len(nodes)), key=lambda i_: idents[i_])
        ask_all = {i_ for i_, ident_ in enumerate(idents) if ident_ == (root_name,)}
        ask_some = ({by_name[0], by_name[len(by_name) // 2], by_name[-1]} if by_name else set()) - ask_all
        tnames = sorted(by_tid)
        some_types = list(dict.fromkeys([tnames[0], tnames[len(tnames) // 2], tnames[-1]])) if tnames else []
    for idx, ((node, npath), ident) in enumerate(zip(nodes, idents)):
        if node.get_root_namespace() is not root_node:
            v.append(("link_root", f"{'.'.join(ident)}.get_root_namespace() is not the root"))
        kids = list(node.get_nested_namespaces())
        kid_ids = [ident_of(k) for k in kids]
        want_kids = ex.kids_of.get(ident, [])
        if sorted(kid_ids) != want_kids:
            v.append(
                (
                    "link_children",
                    f"children of {'.'.join(ident)} are {sorted('.'.join(k) for k in kid_ids)}, "
                    f"expected {['.'.join(k) for k in want_kids]}",
                )
            )
        for k, kid in zip(kids, kid_ids):
            if getattr(k, "_parent", None) is not node:
                v.append(("link_parent", f"parent pointer of {'.'.join(kid)} is not {'.'.join(ident)}"))
        nested = [(tid_of(t), p) for t, p in node.get_nested_types()]
        want_nested = ex.nested_in.get(ident, [])
        if sorted(n for n, _ in nested) != want_nested:
            v.append(
                (
                    "nested_types",
                    f"types directly in {'.'.join(ident)} are {sorted(n for n, _ in nested)}, expected {want_nested}",
                )
            )
        if sorted(tid_of(t) for t in node.data_types) != sorted(n for n, _ in nested):
            v.append(("nested_types", f"data_types and get_nested_types() of {'.'.join(ident)} disagree"))
        for n, p in nested:
            if n in want_path and (norm(cwd, p) not in want_path[n] or norm(cwd, p) != first_path.get(n, norm(cwd, p))):
                v.append(("type_path", f"{n} mapped to {p} in get_nested_types(), expected {want_path[n][0]}"))
        if idx in ask_all:
            asked = list(by_tid.items())
        else:
            asked = [(n_, by_tid[n_]) for n_ in dict.fromkeys(want_nested + (some_types if idx in ask_some else []))]
        for n, t in asked:
            try:
                p = node.find_output_path_for_type(t)
            except Exception as e:  # pylint: disable=broad-except
                v.append(
                    ("lookup_failed", f"find_output_path_for_type({n}) asked at {'.'.join(ident)}: {type(e).__name__}")
                )
                continue
            if norm(cwd, p) not in want_path[n] or norm(cwd, p) != first_path.get(n, norm(cwd, p)):
                v.append(("lookup_path", f"find_output_path_for_type({n}) at {'.'.join(ident)} gives {p}"))
        for (other, opath), oid in zip(nodes, idents) if idx in ask_all or idx in ask_some else [((node, npath), ident)]:
            try:
                p = node.find_output_path_for_type(other)
            except Exception as e:  # pylint: disable=broad-except
                v.append(("lookup_failed", f"find_output_path_for_type(namespace {'.'.join(oid)}): {type(e).__name__}"))
                continue
            if p is not opath and str(p) != str(opath):
                v.append(("lookup_path", f"namespace {'.'.join(oid)}: lookup gives {p}, get_all_namespaces {opath}"))
        canon_ns.append(
            (
                ident,
                norm(cwd, npath),
                norm(cwd, node.output_folder),
                str(node.full_name),
                tuple(sorted(kid_ids)),
                tuple(sorted(n for n, _ in nested)),
            )
        )

    # -- get_all_types: namespaces and data types, each once
    mixed: typing.Counter = collections.Counter()
    for obj, _p in root_node.get_all_types():
        if hasattr(obj, "get_nested_namespaces"):
            mixed[("ns",) + ident_of(obj)] += 1
        else:
            mixed[("t", tid_of(obj))] += 1
    want_mixed = collections.Counter([("ns",) + c for c in ex.closure] + [("t", n) for n in ex.types])
    if mixed != want_mixed:
        diff = sorted(str(k) for k in (set(mixed) | set(want_mixed)) if mixed.get(k, 0) != want_mixed.get(k, 0))
        v.append(("all_types", f"get_all_types() multiset differs from namespaces + types at {diff}"))

    canon = (tuple(sorted((n, norm(cwd, p)) for n, p in seen)), tuple(sorted(canon_ns)))
    return v, canon


def rel_canon(canon: tuple, base: str) -> tuple:
    """The canonical model with the output directory factored out (to count distinct outcomes)."""
    b = base

    def strip(s: str) -> str:
        return s[len(b) :] if s.startswith(b) else s

    return (
        tuple((n, strip(p)) for n, p in canon[0]),
        tuple((i, strip(p), strip(f), fn, k, t) for i, p, f, fn, k, t in canon[1]),
    )


def include_targets(lctx: typing.Any, t: typing.Any) -> typing.List[str]:
    """What the include filter of the c/cpp templates evaluates (shared mechanism IncludeGenerator.make_path)."""
    from nunavut.lang._common import IncludeGenerator

    lang = lctx.get_target_language()
    return [x.strip('<>"') for x in IncludeGenerator(lang, t, True).generate_include_filepart_list(lang.extension, True)]


# ------------------------------------------------------------------------------------------------ one model case
def model_case(
    sandbox: pathlib.Path,
    parsed: typing.Dict[str, typing.Any],
    order: typing.Sequence[str],
    lang: str,
    ext: typing.Optional[str],
    stem: typing.Optional[str],
    spelling: str,
    setorder: typing.Optional[str],
    root_name: str,
    ex: typing.Optional[Expect] = None,
    light: bool = False,
) -> typing.Tuple[typing.List[typing.Tuple[str, str]], typing.Optional[tuple], Expect]:
    from nunavut import build_namespace_tree

    lctx = lctx_for(lang, ext, stem)
    if ex is None:
        ex = Expect([_spec_of(n) for n in order], lctx, lang, ext)
    out = out_spelling(spelling, sandbox)
    rdir = in_spelling(spelling, sandbox, root_name)
    types = [parsed[n] for n in order]
    try:
        with SetOrder(setorder):
            root_node = build_namespace_tree(list(types), rdir, out, lctx)
            vio, canon = check_model(
                root_node, types, ex, out, sandbox, (sandbox / "dsdl" / root_name).resolve(), root_name, light
            )
    except HarnessError:
        raise
    except Exception as e:  # pylint: disable=broad-except
        return [("build_failed", f"build_namespace_tree / model traversal raised {type(e).__name__}: {e}")], None, ex
    return vio, canon, ex


def _spec_of(name: str) -> TypeSpec:
    if name in BY_NAME:
        return BY_NAME[name]
    if name.startswith(f"{SECOND_ROOT}.U") and name.endswith(".1.0"):
        return ((SECOND_ROOT,), name.split(".")[1], 1, 0)
    raise HarnessError(f"unknown type name {name}")


def parse_roots(sandbox: pathlib.Path, names: typing.Sequence[str]) -> typing.Tuple[dict, dict, typing.Optional[str]]:
    """Real PyDSDL front end. Returns ({name: type} of r, {name: type} of s, rejection text)."""
    from vf import gen

    try:
        r_types = gen.read_types(sandbox / "dsdl" / ROOT)
    except Exception as e:  # pylint: disable=broad-except
        return {}, {}, f"{type(e).__name__}: {e}"
    r = {tid_of(t): t for t in r_types}
    if sorted(r) != sorted(names):
        raise HarnessError(f"glue: PyDSDL returned {sorted(r)} for the set {sorted(names)}")
    s: dict = {}
    if names:
        try:
            s_types = gen.read_types(sandbox / "dsdl" / SECOND_ROOT, [sandbox / "dsdl" / ROOT])
        except Exception as e:  # pylint: disable=broad-except
            return r, {}, f"second root: {type(e).__name__}: {e}"
        s = {tid_of(t): t for t in s_types}
        if sorted(s) != [uname_for(names)]:
            raise HarnessError(f"glue: PyDSDL returned {sorted(s)} for the second root")
    return r, s, None


def xroot_model(
    sandbox: pathlib.Path,
    names: typing.Sequence[str],
    r_canon: typing.Optional[tuple],
    s_parsed: dict,
    lang: str,
    ext: typing.Optional[str],
    stem: typing.Optional[str],
    spelling: str,
    ex_r: Expect,
) -> typing.List[typing.Tuple[str, str]]:
    """Second root: its own tree obeys the oracle, and its references name the paths the first tree assigned."""
    uname = uname_for(names)
    vio, _canon, _ex = model_case(sandbox, s_parsed, [uname], lang, ext, stem, spelling, None, SECOND_ROOT)
    vio = [(k, "second root: " + w) for k, w in vio]
    lctx = lctx_for(lang, ext, stem)
    try:
        targets = include_targets(lctx, s_parsed[uname])
    except Exception as e:  # pylint: disable=broad-except
        return vio + [("xroot_failed", f"include list of {uname} raised {type(e).__name__}: {e}")]
    out = out_spelling(spelling, sandbox)
    base = norm(sandbox, out)
    generated = dict(r_canon[0]) if r_canon is not None else {}
    root_prefix = strop1(lctx, ROOT) + "/"
    want = set()
    for n in names:
        cands = ["/".join(c) for c in ex_r.cands[n]]
        want.update(cands)
        found = [c for c in cands if c in targets]
        if not found:
            v = ("xroot_ref", f"{uname} refers to {sorted(t for t in targets if t.startswith(root_prefix))}, not {cands[0]}")
            vio.append(v)
        g = generated.get(n)
        if g is not None and found and g not in [f"{base}/{c}" for c in found]:
            shown = g[len(str(sandbox)) + 1 :] if g.startswith(str(sandbox) + "/") else g
            vio.append(("xroot_ref", f"{n} is generated to {shown} but referenced as {found[0]} below {out}"))
    for t in targets:
        if t.startswith(root_prefix) and t not in want:
            vio.append(("xroot_ref", f"{uname} refers to {t} which is the path of none of its dependencies"))
    return vio


# ------------------------------------------------------------------------------------------------ model worker
def _model_job(job: typing.Tuple[typing.Tuple[str, ...], str, typing.Optional[int]]) -> dict:
    """seed None = thorough: every order of the type list in every configuration.  Otherwise (quick) every order in the
    core configurations (default extension and stem x all spellings; every extension/stem x spelling `rel`) and in the
    seed-selected 1/16 of the other (set, language, extension, stem, spelling) cells; identity and reversed order in
    the rest."""
    names, scratch, seed = job
    key = subset_key(names)
    bag = Bag()
    res = {
        "bag": bag,
        "evals": 0,
        "nontrivial": 0,
        "outcomes": set(),
        "rejected": 0,
        "feat": collections.Counter(),
        "sample": None,
    }
    sandbox = pathlib.Path(scratch) / "m" / f"{stable_hash(key):016x}"
    shutil.rmtree(sandbox, ignore_errors=True)
    sandbox.mkdir(parents=True)
    write_dsdl(sandbox, names)
    os.chdir(sandbox)
    r_parsed, s_parsed, rejected = parse_roots(sandbox, names)
    if rejected is not None:
        res["rejected"] = 1
        res["feat"]["rejected_by_pydsdl"] += 1
        return res
    if not names:
        # the empty set: no type may appear; the rest of the statement is vacuous here
        from nunavut import build_namespace_tree

        for lang in LANGS:
            root_node = build_namespace_tree([], in_spelling("rel", sandbox, ROOT), "out", lctx_for(lang, None, None))
            res["evals"] += 1
            if list(root_node.get_all_datatypes()):
                bag.add(
                    sig_for(lang, False, "type_unknown"),
                    {"mode": "model", "types": [], "lang": lang},
                    "a tree built from no types contains a type",
                )
        res["feat"]["empty_set"] += 1
        return res
    perms = list(itertools.permutations(names))
    for lang in LANGS + NOSTROP_TARGETS:
        nostrop = not split_target(lang)[1]
        for ext in EXTS[:1] if nostrop else EXTS:
            for stem in STEMS[:1] if nostrop else STEMS:
                lctx = lctx_for(lang, ext, stem)
                ex = Expect([BY_NAME[n] for n in names], lctx, lang, ext)
                for spelling in NOSTROP_SPELLINGS if nostrop else SPELLINGS:
                    core_cfg = (ext is None and stem is None) or spelling == "rel"
                    cell = f"{key}|{lang}|{ext}|{stem}|{spelling}"
                    every_order = seed is None or core_cfg or stable_hash(cell) % 16 == seed % 16
                    first_canon: typing.Optional[tuple] = None
                    first_order: typing.Optional[tuple] = None
                    sig_base = sig_for(lang, ex.folded_ns)
                    case_base = {"mode": "model", "lang": lang, "ext": ext, "stem": stem, "spelling": spelling}
                    runs = [(p, None) for p in (perms if every_order else perms[:1] + perms[-1:][: len(perms) - 1])]
                    res["feat"]["cells_every_order"] += every_order
                    res["feat"]["cells"] += 1
                    if ext is None and stem is None and spelling == "rel":
                        runs += [(perms[0], o) for o in SETORDERS] + [(perms[-1], o) for o in SETORDERS]
                    for order, setorder in runs:
                        vio, canon, _ = model_case(
                            sandbox, r_parsed, order, lang, ext, stem, spelling, setorder, ROOT, ex
                        )
                        res["evals"] += 1
                        case = dict(case_base, types=list(order), setorder=setorder)
                        for kind, what in vio:
                            bag.add(dict(sig_base, kind=kind), case, f"[{lang}] {what}")
                        if canon is not None:
                            if first_canon is None:
                                first_canon, first_order = canon, order
                                res["outcomes"].add(
                                    stable_hash(repr((lang, rel_canon(canon, norm(sandbox, out_spelling(spelling, sandbox))))))
                                )
                            elif canon != first_canon:
                                bag.add(
                                    dict(sig_base, kind="order_dependence"),
                                    dict(case, reference_order=list(first_order or ())),
                                    f"[{lang}] the model built from order {list(order)} (set order {setorder}) differs "
                                    f"from the one built from {list(first_order or ())}",
                                )
                    # second root namespace referring to the first
                    for kind, what in xroot_model(sandbox, names, first_canon, s_parsed, lang, ext, stem, spelling, ex):
                        bag.add(
                            dict(sig_base, kind=kind),
                            dict(case_base, types=list(names), setorder=None, second_root=True),
                            f"[{lang}] {what}",
                        )
                    res["evals"] += 1
                    if ex.nontrivial():
                        res["nontrivial"] += 1
                    if nostrop:
                        res["feat"]["nostrop_cells"] += 1
                        res["feat"]["nostrop_cells_with_reserved_token"] += ex.stropped_any
                        if first_canon is not None:
                            # statistic only (the statement does not place namespace files): a namespace node whose
                            # output folder is not the folder its types are written to
                            folder = {i: f_ for i, _p, f_, _fn, _k, _t in first_canon[1]}
                            res["feat"]["nostrop_cells_ns_folder_differs"] += any(
                                folder.get(tuple(BY_NAME[n][0])) != os.path.dirname(p_) for n, p_ in first_canon[0]
                            )
                f = res["feat"]
                f["configs"] += 1
                f["gap"] += ex.gap
                f["multi_version"] += ex.multi_version
                f["stropped"] += ex.stropped_any
                f["folded_ns"] += ex.folded_ns
                f["folded_type_paths"] += ex.folded_types
                if res["sample"] is None and ex.gap and ex.stropped_any and lang == "c":
                    res["sample"] = {
                        "types": list(names),
                        "lang": lang,
                        "ext": ext,
                        "stem": stem,
                        "out": "out/",
                        "expected_files": ["/".join(ex.cands[n][0]) for n in names],
                        "orders": len(perms),
                    }
    return res


# ------------------------------------------------------------------------------------------------ disk oracle
INCLUDE_RE = re.compile(r'^\s*#\s*include\s*[<"]([^>"]+)[>"]', re.M)
IMPORT_RE = re.compile(r"^\s*import\s+([A-Za-z_][A-Za-z0-9_.]*)\s*$", re.M)


NOSTROP_YAML = "nostrop.yaml"


def _cli(lang: str, out: str, ext: typing.Optional[str], stem: typing.Optional[str], extra: typing.List[str]) -> list:
    base, strop = split_target(lang)
    a = ["--target-language", base, "--experimental-languages", "--outdir", out]
    if not strop:
        # written into the sandbox (= cwd) before the first snapshot; the option takes a list (nargs=*), so it must be
        # followed by another option, never by the positional root namespace
        a = ["--configuration", NOSTROP_YAML] + a
    if ext is not None:
        a += ["--output-extension", ext]
    if stem is not None:
        a += ["--namespace-output-stem", stem]
    return a + extra


def disk_case(
    sandbox: pathlib.Path,
    names: typing.Sequence[str],
    lang: str,
    ext: typing.Optional[str],
    stem: typing.Optional[str],
    spelling: str,
    large: typing.Optional[typing.Sequence[typing.Any]] = None,
) -> typing.Tuple[typing.List[typing.Tuple[str, str]], Expect, int]:
    """Runs nnvg (in-process) for root r, then for root s with r as look-up directory, inside `sandbox`.
    large: a shape of the far-end family instead of `names` (root r only, no second root)."""
    from nunavut import build_namespace_tree

    from vf import gen

    shutil.rmtree(sandbox, ignore_errors=True)
    sandbox.mkdir(parents=True)
    if large is not None:
        specs = large_specs(large)
        names = tuple(tname(s) for s in specs)
        write_specs(sandbox, specs)
    else:
        specs = [BY_NAME[n] for n in names]
        write_dsdl(sandbox, names)
    os.chdir(sandbox)
    base_lang, strop = split_target(lang)
    if not strop:
        (sandbox / NOSTROP_YAML).write_text(f"nunavut.lang.{base_lang}:\n  enable_stropping: false\n", encoding="utf-8")
    lctx = lctx_for(lang, ext, stem)
    ex = Expect(specs, lctx, lang, ext)
    out = out_spelling(spelling, sandbox)
    out_abs = pathlib.Path(os.path.normpath(os.path.join(str(sandbox), out)))
    out_rel = str(out_abs.relative_to(sandbox))
    vio: typing.List[typing.Tuple[str, str]] = []
    runs = 0

    def classify(
        before: dict,
        after: dict,
        required: typing.List[typing.Tuple[str, ...]],
        model: typing.Optional[typing.Tuple[typing.Set[str], typing.Dict[str, str]]],
        tag: str,
    ) -> None:
        ns_files = model[0] if model is not None else set()
        for k in sorted(before):
            if k not in after:
                vio.append(("outside_outdir", f"{tag}: {k} was removed"))
            elif not k.endswith("/") and before[k] != after[k] and not k.startswith(out_rel + "/"):
                vio.append(("outside_outdir", f"{tag}: {k} (outside the output directory) was modified"))
        created = sorted(k for k in after if k not in before)
        files = set()
        for k in created:
            inside = k.startswith(out_rel + "/")
            if k.endswith("/"):
                if not inside and not (out_rel + "/").startswith(k):
                    vio.append(("outside_outdir", f"{tag}: directory {k} created outside {out_rel}/"))
                continue
            if not inside:
                vio.append(("outside_outdir", f"{tag}: file {k} created outside {out_rel}/"))
                continue
            files.add(k)
        allowed = set()
        for cands in required:
            present = [k for k in cands if k in after]
            if not present:
                vio.append(("type_file_missing", f"{tag}: no file {cands[0]}"))
            allowed.update(cands)
        if model is not None:
            # the model and the disk agree: every type's file is where find_output_path_for_type says, and every
            # type file that was written is the file of a type in the model (so no type is written twice)
            for n, mp in sorted(model[1].items()):
                if mp not in after:
                    vio.append(("model_disk_mismatch", f"{tag}: the model maps {n} to {mp} but no such file was written"))
            claimed = set(model[1].values())
            for k in sorted(files):
                if k in allowed and k not in claimed and k not in ns_files:
                    vio.append(("unexpected_file", f"{tag}: type file {k} was written but the model maps no type to it"))
        for k in sorted(files):
            if k in allowed or k in ns_files:
                continue
            if k.startswith(out_rel + "/nunavut/") or k == f"{out_rel}/nunavut_support{ex.ext}":
                continue
            vio.append(("unexpected_file", f"{tag}: file {k} is neither a type, a namespace nor a support file"))

    def rel_to_sandbox(p_: typing.Any) -> typing.Optional[str]:
        q = pathlib.Path(os.path.normpath(os.path.join(str(sandbox), str(p_))))
        try:
            return str(q.relative_to(sandbox))
        except ValueError:
            return None

    def model_files(
        parsed: dict, order: typing.Sequence[str], root: str
    ) -> typing.Optional[typing.Tuple[typing.Set[str], typing.Dict[str, str]]]:
        """(namespace files, {type: file}) as the in-process model names them, relative to the sandbox."""
        try:
            types_ = [parsed[n] for n in order]
            node = build_namespace_tree(types_, in_spelling(spelling, sandbox, root), out, lctx)
            nsf_ = {r_ for r_ in (rel_to_sandbox(p_) for _n, p_ in node.get_all_namespaces()) if r_ is not None}
            tmap = {}
            for t_ in types_:
                r_ = rel_to_sandbox(node.find_output_path_for_type(t_))
                tmap[tid_of(t_)] = r_ if r_ is not None else "<outside the sandbox>"
            return nsf_, tmap
        except Exception:  # pylint: disable=broad-except
            return None  # the model oracle reports this; here the namespace files are simply not excused

    if large is not None:
        r_parsed, s_parsed, rejected = parse_large(sandbox, names), {}, None
    else:
        r_parsed, s_parsed, rejected = parse_roots(sandbox, names)
    if rejected is not None:
        return [], ex, 0
    snap0 = gen.snapshot(sandbox)
    res = gen.cli(_cli(lang, out, ext, stem, [in_spelling(spelling, sandbox, ROOT)]), cwd=sandbox)
    runs += 1
    snap1 = gen.snapshot(sandbox)
    if res.rc != 0:
        vio.append(("generation_failed", f"nnvg for root {ROOT} failed: {res.exc or res.err.strip()[-200:]}"))
    required = [
        tuple(f"{out_rel}/" + "/".join(c) for c in ex.cands[n]) for n in names
    ]
    model_r = model_files(r_parsed, list(names), ROOT)  # (for the empty set: the file of the nameless root)
    classify(snap0, snap1, required, model_r, f"root {ROOT}")
    if not names or large is not None:
        return vio, ex, runs

    # second root into the same output directory
    res = gen.cli(
        _cli(
            lang,
            out,
            ext,
            stem,
            ["--lookup-dir", in_spelling(spelling, sandbox, ROOT), in_spelling(spelling, sandbox, SECOND_ROOT)],
        ),
        cwd=sandbox,
    )
    runs += 1
    snap2 = gen.snapshot(sandbox)
    if res.rc != 0:
        vio.append(("generation_failed", f"nnvg for root {SECOND_ROOT} failed: {res.exc or res.err.strip()[-200:]}"))
        return vio, ex, runs
    uname = uname_for(names)
    ex_s = Expect([_spec_of(uname)], lctx, lang, ext)
    ufile = f"{out_rel}/" + "/".join(ex_s.rel[uname])
    if ex_s.rel[uname] != ex_s.alt[uname]:
        raise HarnessError("glue: the second root's type name is not expected to be changed by the stropping")
    model_s = model_files(s_parsed, [uname], SECOND_ROOT)
    classify(snap1, snap2, [(ufile,)], model_s, f"root {SECOND_ROOT}")
    upath = sandbox / ufile
    if upath.exists() and base_lang in ("c", "cpp", "py"):
        text = upath.read_text(encoding="utf-8")
        if base_lang in ("c", "cpp"):
            targets = set(INCLUDE_RE.findall(text))
            prefix = strop1(lctx, ROOT) + "/"
            want = set()
            for n in names:
                cands = ["/".join(c) for c in ex.cands[n]]
                want.update(cands)
                found = [c for c in cands if c in targets]
                if not found:
                    vio.append(("xroot_ref_disk", f"{ufile} does not include {cands[0]}"))
                elif not any(f"{out_rel}/{c}" in snap1 for c in found):
                    vio.append(
                        ("xroot_ref_disk", f"{ufile} includes {found[0]} but the run for {ROOT} created no such file")
                    )
                elif model_r is not None and model_r[1].get(n) not in [f"{out_rel}/{c}" for c in found]:
                    vio.append(
                        (
                            "xroot_ref_disk",
                            f"{ufile} includes {found[0]} for {n}, which the run for {ROOT} generated to {model_r[1].get(n)}",
                        )
                    )
            for t in sorted(targets):
                if t.startswith(prefix) and t not in want:
                    vio.append(("xroot_ref_disk", f"{ufile} includes {t}, the file of none of its dependencies"))
        else:
            imports = set(IMPORT_RE.findall(text))
            for n in names:
                mod = ".".join(ex.rel[n][:-1])
                if mod not in imports:
                    vio.append(("xroot_ref_disk", f"{ufile} does not import {mod}"))
                ok = False
                for parts in dict.fromkeys([ex.rel[n], ex.alt[n]]):
                    cls = parts[-1][: -len(ex.ext)] if ex.ext else parts[-1]
                    if re.search(rf"(?<![A-Za-z0-9_.]){re.escape(mod)}\.{re.escape(cls)}(?![A-Za-z0-9_])", text):
                        ok = ok or (f"{out_rel}/" + "/".join(parts) in snap1)
                if not ok:
                    vio.append(
                        (
                            "xroot_ref_disk",
                            f"{ufile} does not name {mod}.<{n}> by the module file that the run for {ROOT} created",
                        )
                    )
    return vio, ex, runs


def _disk_job(job: typing.Tuple[typing.Tuple[str, ...], str, typing.Optional[str], typing.Optional[str], str, str]) -> dict:
    names, lang, ext, stem, spelling, scratch = job
    key = subset_key(names) + f"|{lang}|{ext}|{stem}|{spelling}"
    sandbox = pathlib.Path(scratch) / "d" / f"{stable_hash(key):016x}"
    bag = Bag()
    vio, ex, runs = disk_case(sandbox, names, lang, ext, stem, spelling)
    case = {"mode": "disk", "types": list(names), "lang": lang, "ext": ext, "stem": stem, "spelling": spelling}
    for kind, what in vio:
        bag.add(sig_for(lang, ex.folded_ns, kind), case, f"[{lang}, {spelling}] {what}")
    os.chdir("/")
    shutil.rmtree(sandbox, ignore_errors=True)
    return {"bag": bag, "runs": runs, "nontrivial": int(ex.nontrivial() and runs > 0), "folded": int(ex.folded_ns)}


DISK_CONFIGS: typing.List[typing.Tuple[typing.Optional[str], typing.Optional[str], str]] = [
    (None, None, sp) for sp in SPELLINGS
] + [(".hxx", None, "rel"), (None, "nsidx", "abs_slash"), (".gen.h", "nsidx", "rel_dot_nested")]

NOSTROP_DISK_CONFIGS: typing.List[typing.Tuple[typing.Optional[str], typing.Optional[str], str]] = [
    (None, None, "rel"),
    (".hxx", "nsidx", "abs_slash"),
]

# pairs the quick tier always runs on disk (one per feature); the other pairs come from the seed slice
DISK_CORE_PAIRS = [
    ("r.x.A.1.0", "r.x.A.1.1"),  # two minor versions side by side
    ("r.A.1.0", "r.x.y.Struct_.1.1"),  # root level type + depth 3 with an empty intermediate namespace
    ("r.x.y.1.0", "r.x.y.A.1.0"),  # type named like the sibling namespace
    ("r.if.A.1.0", "r.if.y._A.2.0"),  # stropped components, stropped short name
    ("r.if.A.1.0", "r._if.A.1.0"),  # fold in c / cpp
    ("r.if.A.1.0", "r.if_.B.1.0"),  # fold in py
]


# ------------------------------------------------------------------------------------- the far end of legal sizes
LARGE_POWERS = [32, 64, 128, 256, 512]
LARGE_SERIES = [p + d for p in LARGE_POWERS for d in (-1, 0, 1)]
MAX_FULL_NAME = 255  # Cyphal Specification / PyDSDL: longest legal full name of a type (written down, probed in run())
# namespaces of the longest legal chain r.a.a...a that still holds a type T: len("r") + 2 * (n - 1) + len(".T") <= 255
CHAIN_MAX_NS = 1 + (MAX_FULL_NAME - len(ROOT) - len(".T")) // len(".a")
CHAIN_SERIES = sorted({n for n in LARGE_SERIES if n <= CHAIN_MAX_NS} | {CHAIN_MAX_NS - 2, CHAIN_MAX_NS - 1, CHAIN_MAX_NS})
# versions of one type in a fixed order: every major with minor 0, then minor 1, then minor 2 (0.0 is not a version)
VERSIONS = [(major, minor) for minor in range(3) for major in range(256) if major + minor > 0]
GRIDS = [(4, 7), (8, 7), (8, 15), (16, 15), (16, 31)]  # 1 + a + a*b = 33, 65, 129, 257, 513 namespaces
LARGE_SPELLING = {"c": "rel", "cpp": "abs_slash", "py": "rel_dot_nested", "html": "abs"}
Shape = typing.Tuple[typing.Any, ...]


def large_shapes() -> typing.List[Shape]:
    shapes: typing.List[Shape] = []
    for n in LARGE_SERIES:
        shapes += [("wide", n), ("types", n), ("versions", n)]
    for n in CHAIN_SERIES:
        shapes += [("chain", n, "bottom"), ("chain", n, "every")]
    shapes += [("chainwide", w) for w in (1, 2, 3)]
    for a, b in GRIDS:
        shapes += [("grid", a, b, "gaps"), ("grid", a, b, "full")]
    return shapes


# shapes the quick tier always generates to disk, per language (thorough: every shape x c, the wide series x all)
LARGE_DISK_CORE: typing.List[typing.Tuple[Shape, str]] = [
    (("wide", 33), "c"),
    (("wide", 128), "c"),  # 129 namespaces
    (("wide", 129), "c"),
    (("wide", 128), "py"),
    (("types", 129), "c"),
    (("versions", 129), "c"),
    (("chain", CHAIN_MAX_NS, "bottom"), "c"),
    (("chainwide", 2), "c"),
    (("grid", 8, 15, "gaps"), "c"),
]


def large_specs(shape: typing.Sequence[typing.Any]) -> typing.List[TypeSpec]:
    kind = shape[0]
    if kind == "wide":
        return [((ROOT, f"s{i:03d}"), "T", 1, 0) for i in range(int(shape[1]))]
    if kind == "types":
        return [((ROOT, "x"), f"T{i:03d}", 1, 0) for i in range(int(shape[1]))]
    if kind == "versions":
        if int(shape[1]) > len(VERSIONS):
            raise HarnessError(f"no {shape[1]} versions of one type")
        return [((ROOT, "x"), "A", major, minor) for major, minor in VERSIONS[: int(shape[1])]]
    if kind == "chain":
        full = tuple([ROOT] + ["a"] * (int(shape[1]) - 1))
        if shape[2] == "bottom":
            return [(full, "T", 1, 0)]
        return [(full[:i], "T", 1, 0) for i in range(1, len(full) + 1)]
    if kind == "chainwide":
        chain = tuple([ROOT] + ["a"] * (CHAIN_MAX_NS - 1))
        return [(chain, "T", 1, 0)] + [((ROOT, f"s{i:03d}"), "T", 1, 0) for i in range(int(shape[1]))]
    if kind == "grid":
        out: typing.List[TypeSpec] = []
        for i in range(int(shape[1])):
            if shape[3] == "full":
                out.append(((ROOT, f"s{i:02d}"), "T", 1, 0))
            for j in range(int(shape[2])):
                out.append(((ROOT, f"s{i:02d}", f"t{j:02d}"), "T", 1, 0))
        return out
    raise HarnessError(f"unknown large shape {shape}")


def write_specs(sandbox: pathlib.Path, specs: typing.Sequence[TypeSpec]) -> None:
    made: typing.Set[tuple] = set()
    for ns, short, major, minor in specs:
        d = sandbox / "dsdl" / pathlib.Path(*ns)
        if tuple(ns) not in made:
            d.mkdir(parents=True, exist_ok=True)
            made.add(tuple(ns))
        (d / f"{short}.{major}.{minor}.dsdl").write_text("@sealed\n", encoding="utf-8")


def parse_large(sandbox: pathlib.Path, names: typing.Sequence[str]) -> dict:
    """Every shape of the family is legal DSDL: a rejection by PyDSDL is a harness problem, not an outcome."""
    from vf import gen

    try:
        types = gen.read_types(sandbox / "dsdl" / ROOT)
    except Exception as e:  # pylint: disable=broad-except
        raise HarnessError(f"glue: PyDSDL rejects a tree of the large family: {type(e).__name__}: {str(e)[:300]}") from e
    parsed = {tid_of(t): t for t in types}
    if len(parsed) != len(types) or set(parsed) != set(names):
        raise HarnessError(f"glue: PyDSDL returned {len(types)} types for a large tree of {len(names)}")
    return parsed


def large_sig(lang: str, ex: Expect, kind: str, shape: typing.Sequence[typing.Any]) -> dict:
    return dict(sig_for(lang, ex.folded_ns, kind), scale=str(shape[0]))


def large_model_runs(
    sandbox: pathlib.Path, shape: typing.Sequence[typing.Any], lang: str, orders: typing.Sequence[str]
) -> typing.Tuple[typing.List[typing.Tuple[str, str, str]], Expect, typing.Optional[tuple], int]:
    """Writes + parses the tree and builds the model once per order ('fwd' = ascending type list, 'rev' = reversed).
    Returns ((kind, text, order) per violation, the expectation, the canonical model relative to the output, runs)."""
    shutil.rmtree(sandbox, ignore_errors=True)
    sandbox.mkdir(parents=True)
    specs = large_specs(shape)
    names = [tname(s) for s in specs]
    write_specs(sandbox, specs)
    os.chdir(sandbox)
    parsed = parse_large(sandbox, names)
    return _large_model_on(sandbox, specs, parsed, shape, lang, orders)


def _large_model_on(
    sandbox: pathlib.Path,
    specs: typing.Sequence[TypeSpec],
    parsed: dict,
    shape: typing.Sequence[typing.Any],
    lang: str,
    orders: typing.Sequence[str],
) -> typing.Tuple[typing.List[typing.Tuple[str, str, str]], Expect, typing.Optional[tuple], int]:
    names = [tname(s) for s in specs]
    lctx = lctx_for(lang, None, None)
    ex = Expect(specs, lctx, lang, None)
    spelling = LARGE_SPELLING[lang]
    out: typing.List[typing.Tuple[str, str, str]] = []
    first: typing.Optional[tuple] = None
    runs = 0
    for oname in orders:
        order = names if oname == "fwd" else names[::-1]
        vio, canon, _ = model_case(sandbox, parsed, order, lang, None, None, spelling, None, ROOT, ex, light=True)
        runs += 1
        out += [(k, w, oname) for k, w in vio]
        if canon is not None:
            if first is None:
                first = canon
            elif canon != first:
                out.append(("order_dependence", f"the model built from the reversed type list differs ({shape})", oname))
    rel = rel_canon(first, norm(sandbox, out_spelling(spelling, sandbox))) if first is not None else None
    return out, ex, rel, runs


def _large_job(job: typing.Tuple[str, Shape, typing.Any, str]) -> dict:
    """('model', shape, [(lang, [orders])], scratch) or ('disk', shape, lang, scratch)"""
    mode, shape, plan, scratch = job
    bag = Bag()
    res: dict = {"bag": bag, "mode": mode, "evals": 0, "nontrivial": 0, "outcomes": set(), "runs": 0, "shape": shape}
    sandbox = pathlib.Path(scratch) / "L" / f"{stable_hash(repr((mode, shape, plan))):016x}"
    try:
        if mode == "disk":
            lang = plan
            spelling = LARGE_SPELLING[lang]
            vio, ex, runs = disk_case(sandbox, (), lang, None, None, spelling, large=shape)
            case = {"mode": "large_disk", "shape": list(shape), "lang": lang, "spelling": spelling}
            for kind, what in vio:
                bag.add(large_sig(lang, ex, kind, shape), case, f"[{lang}, {shape}] {what}")
            res.update(runs=runs, nontrivial=int(runs > 0), namespaces=len(ex.closure), types=len(ex.types))
            return res
        shutil.rmtree(sandbox, ignore_errors=True)
        sandbox.mkdir(parents=True)
        specs = large_specs(shape)
        write_specs(sandbox, specs)
        os.chdir(sandbox)
        parsed = parse_large(sandbox, [tname(s) for s in specs])
        res.update(namespaces=0, types=len(specs), longest_name=max(len(t.full_name) for t in parsed.values()))
        for lang, orders in plan:
            vio, ex, rel, runs = _large_model_on(sandbox, specs, parsed, shape, lang, orders)
            res["namespaces"] = len(ex.closure)
            res["evals"] += runs
            res["nontrivial"] += 1
            for kind, what, oname in vio:
                case = {"mode": "large", "shape": list(shape), "lang": lang, "order": oname}
                bag.add(large_sig(lang, ex, kind, shape), case, f"[{lang}, {shape}, {oname}] {what}")
            if rel is not None:
                res["outcomes"].add(stable_hash(repr((lang, rel))))
        return res
    finally:
        os.chdir("/")
        shutil.rmtree(sandbox, ignore_errors=True)


def large_jobs(ctx: Ctx) -> typing.List[tuple]:
    jobs: typing.List[tuple] = []
    shapes = large_shapes()
    for shape in shapes:
        if (
            not ctx.thorough
            and shape[0] in ("types", "versions")
            and shape[1] >= LARGE_POWERS[-1] - 1
            and shape[1] != LARGE_POWERS[-1] - 1 + ctx.seed % 3
        ):
            # PyDSDL's reading of one namespace is quadratic in its size: of the three biggest trees of these two
            # families (two namespaces each) quick takes the seed-selected one
            continue
        plan = [("c", ["fwd", "rev"])]
        for lang in LANGS[1:]:
            if ctx.thorough:
                plan.append((lang, ["fwd", "rev"]))
            elif ctx.in_slice(f"large:{shape}|{lang}", 8):
                plan.append((lang, ["fwd"]))
        jobs.append(("model", shape, plan, str(ctx.scratch)))
    disk = list(LARGE_DISK_CORE)
    if ctx.thorough:
        disk += [(s, "c") for s in shapes] + [(s, lang) for s in shapes if s[0] == "wide" for lang in LANGS[1:]]
    for shape, lang in dict.fromkeys(disk):
        if shape not in shapes:
            raise HarnessError(f"disk core shape {shape} is not a shape of the large family")
        jobs.append(("disk", shape, lang, str(ctx.scratch)))
    # biggest first: better balance of the pool
    return sorted(jobs, key=lambda j: (-len(large_specs(j[1])) * (len(j[2]) if j[0] == "model" else 3), repr(j)))


def probe_longest_name(ctx: Ctx) -> None:
    """The chain family claims to end at the longest legal full name: one more namespace must be illegal DSDL."""
    from vf import gen

    sandbox = ctx.scratch / "longest"
    shutil.rmtree(sandbox, ignore_errors=True)
    specs = large_specs(("chain", CHAIN_MAX_NS + 1, "bottom"))
    if len(tname(specs[0])) - len(".1.0") <= MAX_FULL_NAME:
        raise HarnessError("glue: the chain one beyond the longest one does not exceed the name limit")
    write_specs(sandbox, specs)
    try:
        gen.read_types(sandbox / "dsdl" / ROOT)
    except Exception:  # pylint: disable=broad-except
        ctx.stats["chain_beyond_longest_name_rejected_by_pydsdl"] = True
        return
    finally:
        shutil.rmtree(sandbox, ignore_errors=True)
    raise HarnessError(
        f"bound text is wrong: PyDSDL accepts a full name longer than {MAX_FULL_NAME} characters, the chain family "
        "does not reach the far end of the legal depths"
    )


# ------------------------------------------------------------------------------------------------ entry points
def run(ctx: Ctx) -> int:
    subsets = all_subsets()
    small = [s for s in subsets if len(s) < MAX_SET]
    big = [s for s in subsets if len(s) == MAX_SET]
    big_sel = [s for s in big if ctx.in_slice(subset_key(s))]
    chosen = small + big_sel
    # largest first: better balance of the pool
    jobs = [
        (s, str(ctx.scratch), None if ctx.thorough else ctx.seed) for s in sorted(chosen, key=lambda s: (-len(s), s))
    ]
    results = ctx.pool_map(_model_job, jobs)

    evals = sum(r["evals"] for r in results)
    nontrivial = sum(r["nontrivial"] for r in results)
    outcomes: typing.Set[int] = set()
    feat: typing.Counter = collections.Counter()
    for r in results:
        outcomes |= r["outcomes"]
        feat.update(r["feat"])
        ctx.bag.merge(r["bag"])
        if r["sample"] is not None and len(ctx.samples) < 3:
            ctx.samples.append(r["sample"])

    # disk
    disk_sets = [s for s in subsets if len(s) <= MAX_DISK_SET]
    pairs = [s for s in disk_sets if len(s) == 2]
    core_pairs = [tuple(sorted(p, key=[tname(u) for u in UNIVERSE].index)) for p in DISK_CORE_PAIRS]
    for p in core_pairs:
        if p not in pairs:
            raise HarnessError(f"core pair {p} is not a pair of the universe")
    disk_sel = [s for s in disk_sets if len(s) < 2 or s in core_pairs or ctx.in_slice("disk:" + subset_key(s))]
    djobs = [
        (s, lang, ext, stem, sp, str(ctx.scratch))
        for s in sorted(disk_sel, key=lambda s: (-len(s), s))
        for lang in LANGS + NOSTROP_TARGETS
        for (ext, stem, sp) in (DISK_CONFIGS if split_target(lang)[1] else NOSTROP_DISK_CONFIGS)
    ]
    dresults = ctx.pool_map(_disk_job, djobs, chunksize=2)
    druns = sum(r["runs"] for r in dresults)
    for r in dresults:
        ctx.bag.merge(r["bag"])
    dnontrivial = sum(r["nontrivial"] for r in dresults)
    if djobs:
        j = djobs[len(djobs) // 3]
        ctx.samples.append(
            {"disk_run": {"types": list(j[0]), "lang": j[1], "ext": j[2], "stem": j[3], "outdir_spelling": j[4]}}
        )
    ctx.samples.append(
        {
            "types": ["r.if.A.1.0", "r._if.A.1.0", "r.x.y.Struct_.1.1"],
            "lang": "c",
            "orders": 6,
            "closure": ["r", "r.if", "r._if", "r.x", "r.x.y"],
            "second_root": uname_for(["r.if.A.1.0", "r._if.A.1.0", "r.x.y.Struct_.1.1"]) + " with one field of each",
        }
    )

    # the far end of the legal sizes
    probe_longest_name(ctx)
    ljobs = large_jobs(ctx)
    lresults = ctx.pool_map(_large_job, ljobs)
    lmodel = [r for r in lresults if r["mode"] == "model"]
    ldisk = [r for r in lresults if r["mode"] == "disk"]
    for r in sorted(lresults, key=lambda r_: (r_["types"], r_["namespaces"], repr(r_["shape"]))):
        ctx.bag.merge(r["bag"])  # smallest tree first: among equally long cases the bag keeps the first
        outcomes |= r["outcomes"]
    levals = sum(r["evals"] for r in lmodel)
    ldruns = sum(r["runs"] for r in ldisk)
    lnontrivial = sum(r["nontrivial"] for r in lresults)
    lmax_ns = max(r["namespaces"] for r in lmodel)
    lmax_types = max(r["types"] for r in lmodel)
    llongest = max(r["longest_name"] for r in lmodel)
    ldisk_max_ns = max(r["namespaces"] for r in ldisk)
    if lmax_ns < LARGE_SERIES[-1] + 1 or lmax_types < LARGE_SERIES[-1]:
        raise HarnessError(f"vacuous exploration: the largest tree has {lmax_ns} namespaces / {lmax_types} types")
    if llongest != MAX_FULL_NAME:
        raise HarnessError(f"vacuous exploration: the longest full name explored has {llongest} characters")
    if ldisk_max_ns < LARGE_POWERS[2] + 2 or ldruns < len(ldisk):
        raise HarnessError("vacuous exploration: the disk oracle did not generate a large tree")
    lbig = max(lmodel, key=lambda r: (r["namespaces"], r["types"]))
    ctx.samples.append(
        {"large_shape": list(lbig["shape"]), "namespaces": lbig["namespaces"], "types": lbig["types"], "lang": "c",
         "orders": ["ascending", "reversed"]}
    )

    confirm(ctx)

    ctx.stats.update(
        large_shapes=len(lmodel),
        large_model_cells=lnontrivial - len(ldisk),
        large_model_builds=levals,
        large_disk_cases=len(ldisk),
        large_disk_generator_runs=ldruns,
        large_max_namespaces_in_one_tree=lmax_ns,
        large_max_types_in_one_tree=lmax_types,
        large_longest_full_name=llongest,
        large_disk_max_namespaces_in_one_tree=ldisk_max_ns,
        subsets_total=len(subsets),
        subsets_explored=len(chosen),
        four_sets_total=len(big),
        four_sets_explored=len(big_sel),
        rejected_by_pydsdl=int(feat.get("rejected_by_pydsdl", 0)),
        configs_with_gap=int(feat.get("gap", 0)),
        configs_with_several_versions=int(feat.get("multi_version", 0)),
        configs_with_stropped_token=int(feat.get("stropped", 0)),
        configs_with_folded_namespaces=int(feat.get("folded_ns", 0)),
        configs_with_folded_type_paths=int(feat.get("folded_type_paths", 0)),
        disk_sets_total=len(disk_sets),
        disk_sets_explored=len(disk_sel),
        disk_generator_runs=druns,
        disk_cases=len(djobs),
        nostrop_model_cells=int(feat.get("nostrop_cells", 0)),
        nostrop_model_cells_with_reserved_token=int(feat.get("nostrop_cells_with_reserved_token", 0)),
        nostrop_model_cells_ns_folder_differs_from_type_folder=int(feat.get("nostrop_cells_ns_folder_differs", 0)),
        nostrop_disk_cases=sum(1 for j in djobs if not split_target(j[1])[1]),
    )
    for need in (
        "gap",
        "multi_version",
        "stropped",
        "folded_ns",
        "folded_type_paths",
        "empty_set",
        "nostrop_cells_with_reserved_token",
    ):
        if not feat.get(need):
            raise HarnessError(f"vacuous exploration: feature '{need}' was never exercised")
    if feat.get("rejected_by_pydsdl", 0) * 4 > len(chosen):
        raise HarnessError("vacuous exploration: PyDSDL rejects more than a quarter of the universe's subsets")
    if druns < 2 * len(LANGS):
        raise HarnessError("vacuous exploration: the disk oracle ran no generator")

    exhaustive = bool(ctx.thorough)
    cov = {
        "evaluations": evals + druns + levals + ldruns,
        "model_evaluations": evals + levals,
        "disk_generator_runs": druns + ldruns,
        "distinct_nontrivial": nontrivial + dnontrivial + lnontrivial,
        "distinct_outcomes": len(outcomes),
        "rule": "one evaluation = one real build_namespace_tree run (one type set x language x extension x stem x "
        "output spelling x order of the type list [x forced set iteration order]) checked against the oracle, or one "
        "second-root reference check, or one in-process nnvg run in a sandbox; distinct_nontrivial counts distinct "
        "(type set, language, extension, stem, spelling) configurations, model and disk counted separately, whose type "
        "set has an empty intermediate namespace, several versions of a type, types in more than one namespace, a "
        "stropped token or a stropping fold; distinct_outcomes = distinct canonical models relative to the output "
        "directory",
        "bound_completed": f"all {len(small)} subsets of <= {MAX_SET - 1} types and {len(big_sel)}/{len(big)} subsets of "
        f"{MAX_SET} types out of a 12-type universe x {len(LANGS)} languages x {len(EXTS)} extensions x {len(STEMS)} "
        f"stems x {len(SPELLINGS)} spellings, every order of the type list in {int(feat.get('cells_every_order', 0))}/"
        f"{int(feat.get('cells', 0))} of these cells (first and reversed order in the others); disk: {len(disk_sel)}/{len(disk_sets)} "
        f"subsets of <= {MAX_DISK_SET} types x {len(LANGS)} languages x {len(DISK_CONFIGS)} configurations, two runs each; "
        f"additionally c and cpp with the enable_stropping:false override: same sets x default extension/stem x "
        f"{len(NOSTROP_SPELLINGS)} spellings x every order (model), x {len(NOSTROP_DISK_CONFIGS)} configurations (disk); "
        f"far end of the legal sizes: {len(lmodel)} trees (N = {LARGE_SERIES[0]}..{LARGE_SERIES[-1]} around every power "
        f"of two: N sibling namespaces, N types in one namespace, N versions of one type; chains of "
        f"{CHAIN_SERIES[0]}..{CHAIN_MAX_NS} namespaces = the longest legal full name, the longest chain + 1..3 siblings, "
        f"{len(GRIDS)} two-level grids with and without empty first level; up to {lmax_ns} namespaces / {lmax_types} "
        f"types in one tree; of the {len(large_shapes())} trees of the family) x c with ascending and reversed type list, {lnontrivial - len(ldisk) - len(lmodel)}/"
        f"{len(lmodel) * (len(LANGS) - 1)} of the (tree, other language) cells; {len(ldisk)} of them generated to disk "
        f"(up to {ldisk_max_ns} namespaces)",
        "exhaustive": exhaustive,
    }
    return ctx.finish(
        "exploration",
        cov,
        [
            "PyDSDL 1.25 is the front end; only sets it accepts are in scope (every subset of the universe is accepted)",
            "the stropping of a single token is taken from the language object (its correctness is C09's subject); "
            "default extensions, path composition, prefix closure and links are computed by the check",
            "namespace nodes are identified by their public source_file_path; the location of namespace files is not "
            "fixed by the statement and is only required to be consistent between model and disk",
            "bodies are empty sealed structures: the property does not depend on the content of a type",
            "hash seed fixed to 0; the iteration order of the sets inside nunavut._namespace is additionally forced "
            "ascending/descending on one configuration per type set",
            "disk oracle runs as root with default --file-mode; permissions are C12's subject",
        "large trees: path lookup is asked for every type and namespace at the root, for every type at its own "
        "namespace, for three types at three more nodes (not for everything at every node); default extension and stem, one output spelling per language, no "
        "second root, no forced set order",
            "with enable_stropping:false (c, cpp only; the py templates fail on any type with a field under that "
            "override) every path component may be the unstropped or the stropped name; demanded are one file per type, "
            "model == disk, and references (#include of the second root, include list) == the generated location",
        ],
        min_outcomes=("distinct_outcomes", 100),
    )


def confirm(ctx: Ctx) -> None:
    """Re-executes every distinct violation once from its recorded case; a divergence is a harness error."""
    todo = sorted(ctx.bag.v.items())[:60]
    for _key, v in todo:
        got = _replay_case(ctx, v.case)
        if not any(k == v.sig["kind"] for k, _ in got):
            raise HarnessError(f"violation {v.sig} did not reproduce from its recorded case {v.case}")


def _replay_case(ctx: Ctx, case: dict) -> typing.List[typing.Tuple[str, str]]:
    sandbox = ctx.scratch / "replay"
    if case["mode"] in ("large", "large_disk"):
        shape = tuple(case["shape"])
        try:
            if case["mode"] == "large_disk":
                vio, _ex, _runs = disk_case(sandbox, (), case["lang"], None, None, case["spelling"], large=shape)
                return vio
            # the reference order first: an order dependence is a difference to the ascending list
            orders = ["fwd"] if case.get("order", "fwd") == "fwd" else ["fwd", "rev"]
            got, _ex, _rel, _runs = large_model_runs(sandbox, shape, case["lang"], orders)
            return [(k, w) for k, w, o in got if o == case.get("order", "fwd")]
        finally:
            os.chdir("/")
    names = list(case["types"])
    lang, ext, stem = case["lang"], case.get("ext"), case.get("stem")
    spelling = case.get("spelling", "rel")
    if case["mode"] == "disk":
        canonical = tuple(n for n in (tname(u) for u in UNIVERSE) if n in names)
        vio, _ex, _runs = disk_case(sandbox, canonical, lang, ext, stem, spelling)
        os.chdir("/")
        return vio
    shutil.rmtree(sandbox, ignore_errors=True)
    sandbox.mkdir(parents=True)
    write_dsdl(sandbox, names)
    os.chdir(sandbox)
    try:
        if not names:
            from nunavut import build_namespace_tree

            node = build_namespace_tree([], in_spelling("rel", sandbox, ROOT), "out", lctx_for(lang, None, None))
            return [("type_unknown", "a tree built from no types contains a type")] if list(node.get_all_datatypes()) else []
        r_parsed, s_parsed, rejected = parse_roots(sandbox, names)
        if rejected is not None:
            raise HarnessError(f"PyDSDL rejects the recorded case: {rejected}")
        vio, canon, ex = model_case(sandbox, r_parsed, names, lang, ext, stem, spelling, case.get("setorder"), ROOT)
        ref = case.get("reference_order")
        if ref:
            _v2, canon2, _ = model_case(sandbox, r_parsed, ref, lang, ext, stem, spelling, None, ROOT)
            if canon != canon2:
                vio.append(("order_dependence", f"model from order {names} differs from model from order {ref}"))
        if case.get("second_root"):
            universe_order = [n for n in (tname(u) for u in UNIVERSE) if n in names]
            _v3, canon3, _ = model_case(sandbox, r_parsed, universe_order, lang, ext, stem, spelling, None, ROOT, ex)
            vio += xroot_model(sandbox, universe_order, canon3, s_parsed, lang, ext, stem, spelling, ex)
        return vio
    finally:
        os.chdir("/")


def replay(ctx: Ctx, case: dict) -> int:
    vio = _replay_case(ctx, case)
    print(f"case: {case}")
    seen = set()
    for kind, what in vio:
        if (kind, what) not in seen:
            seen.add((kind, what))
            print(f"  {kind}: {what}")
    print(f"{len(seen)} distinct violation(s)")
    return 1 if vio else 0
