"""
C16 - template resolution and environment contract (model checking of lookup histories; in-process).

Four parts, all driving the real nunavut code of the working tree:

R  *Resolution.*  A loader configuration is (family, policy, U, B, layout): family says which template sources are
   given to ``DSDLTemplateLoader`` (user directories only / stub package only / both), policy is the
   ``ResourceSearchPolicy``, U and B are the sets of ``<ClassName>.j2`` files present in the user directory and in the
   stub built-in package (real directories under the scratch area, the stub packages are importable), layout is
   ``flat`` or ``noisy`` (decoy files with other suffixes, non-class templates, ``object.j2``; the user set split over
   two directories).  U and B range over EVERY pair of subsets of the inheritance chain of every class reachable from
   ``pydsdl.Any`` (incl. ``nunavut.Namespace``).  For every configuration
     * cold lookups of all classes are judged by an independent reference (BFS distance over ``__bases__`` restricted to
       subclasses of ``pydsdl.Any``),
     * the same lookups are repeated with the directory enumeration permuted (``os.walk`` as seen by the loaders is
       interposed) and after a *sibling* loader instance with a different template set was used,
     * an explicit-state search runs over lookup histories: state = snapshot of every mutable container reachable from
       the loader instance, its class and its module (today: ``_type_to_template_lookup_cache``); a state is entered by
       replaying its history on a fresh loader (the replay must show the snapshot under which the state was found);
       transitions = real ``type_to_template`` calls of every class from that state (the containers are put back
       between them; if a replay ever disagrees with that, every transition replays the history on a fresh loader);
       explored to the fixpoint; invariant: result == cold result,
     * plain histories (no state abstraction at all) of <= 2 earlier lookups, followed by the lookup of the class the
       (U, B) pair was enumerated for,
     * ``get_source`` of every template name must return the user's file when the user set has it.
G  *Generator agreement.*  Real ``DSDLCodeGenerator`` objects (all four languages) built over the same directories:
   ``filter_type_to_template(value)`` / the registered ``type_to_template`` filter agree with a fresh loader, with the
   reference, and the environment renders the user's file when both sets have the name.
T  *Instance tests.*  Truth table of every test ``C.__name__`` and its lower-case alias over mock and real instances
   of every class D and over attributes whose ``data_type`` is a D; from ``_create_all_dsdl_tests()`` and rendered
   through the environments of real generators.
N  *Name protection.*  Every name of the pristine environment's filters/tests (bare and with the convention prefixes
   ``filter_``/``is_``/``uses_``) supplied as additional filter/test, every reserved global, every language global,
   fresh names.

Every violation is executed again from its minimal recorded case in a pristine process image before it is reported.

Interpretations (DESIGN C16): the resolution oracle accepts BOTH readings of "nearest" when two sources are searched
(nearest over the union of the sets, or the documented "file system first, package as fallback"); where they differ a
statistic is recorded.  A template named after a class beyond ``pydsdl.Any`` (``ABC.j2``) being used when no class up
to Any has one is a statistic too (the loader serves arbitrary class hierarchies, see the pinned
test_bfs_of_type_for_template).  Jinja's own default globals (``range`` ...) are not "reserved names".
"""
from __future__ import annotations

import collections
import contextlib
import hashlib
import importlib
import os
import pathlib
import sys
import time
import typing

from vf.core import Bag, Ctx, HarnessError

SUFFIX = ".j2"
POLICIES = ("FIND_ALL", "FIND_FIRST")
ORDERS = ("asc", "desc", "hash")
LANGS = ("c", "cpp", "py", "html")
CORE_BOTH = ("StructureType", "Namespace", "VoidType")  # chains whose (U, B) pairs are always explored (quick core)
BEYOND = ("ABC", "object")  # classes beyond pydsdl.Any on every chain
NOISE_FILES = ("README.md", "helpers.j2", "_macros.j2", "notes.txt")
MAX_STATES = 512
SENTINEL_RESULT = "c16-sentinel-result"

_G: typing.Dict[str, typing.Any] = {}  # set by run()/replay() before the pool forks: {"root": str}


# =================================================================================== universe and reference model
_UNI: typing.Optional[typing.Tuple[typing.List[type], typing.Dict[str, type]]] = None


def universe() -> typing.Tuple[typing.List[type], typing.Dict[str, type]]:
    """Every class reachable from pydsdl.Any through __subclasses__ (deterministic order), by name."""
    global _UNI  # pylint: disable=global-statement
    if _UNI is None:
        import nunavut  # noqa: F401  (defines nunavut.Namespace, a subclass of pydsdl.Any)
        import nunavut.jinja  # noqa: F401
        import pydsdl

        order: typing.List[type] = []

        def walk(c: type) -> None:
            if c in order:
                return
            order.append(c)
            for s in sorted(c.__subclasses__(), key=lambda x: (x.__module__, x.__qualname__)):
                walk(s)

        walk(pydsdl.Any)
        names = [c.__name__ for c in order]
        if len(set(names)) != len(names):
            raise HarnessError(f"class names are not unique: {names}")
        if nunavut.Namespace not in order:
            raise HarnessError("nunavut.Namespace is not reachable from pydsdl.Any")
        _UNI = (order, dict(zip(names, order)))
    return _UNI


def ref_chain(cls: type) -> typing.List[typing.Tuple[int, str]]:
    """(distance, class name) for cls and its ancestors up to pydsdl.Any; BFS over __bases__."""
    import pydsdl

    dist = {cls: 0}
    queue = [cls]
    while queue:
        c = queue.pop(0)
        for b in c.__bases__:
            if isinstance(b, type) and issubclass(b, pydsdl.Any) and b not in dist:
                dist[b] = dist[c] + 1
                queue.append(b)
    return sorted((d, c.__name__) for c, d in dist.items())


def nearest(chain: typing.Sequence[typing.Tuple[int, str]], names: typing.AbstractSet[str]) -> typing.Set[str]:
    ds = [d for d, n in chain if n in names]
    if not ds:
        return set()
    m = min(ds)
    return {n for d, n in chain if d == m and n in names}


def ref_alias(name: str) -> str:
    low = name.lower()
    for suffix in ("type", "field"):
        if low.endswith(suffix) and len(low) > len(suffix):
            return low[: -len(suffix)]
    return low


def type_classes() -> typing.List[type]:
    """The classes for which the documentation promises an instance test: pydsdl types and attributes."""
    import pydsdl

    return [c for c in universe()[0] if issubclass(c, (pydsdl.SerializableType, pydsdl.Attribute))]


def subsets(names: typing.Sequence[str]) -> typing.Iterator[typing.Tuple[str, ...]]:
    for mask in range(1 << len(names)):
        yield tuple(sorted(names[i] for i in range(len(names)) if mask >> i & 1))


# =================================================================================== template sets on disk
def _sid(names: typing.Sequence[str]) -> str:
    return hashlib.sha256(",".join(names).encode()).hexdigest()[:10]


def user_dirs(names: typing.Tuple[str, ...], layout: str) -> typing.List[pathlib.Path]:
    root = pathlib.Path(_G["root"])
    if layout == "flat":
        return [root / "u" / _sid(names)]
    return [root / "un" / _sid(names) / "a", root / "un" / _sid(names) / "b"]


def pkg_name(names: typing.Tuple[str, ...], layout: str) -> str:
    return ("c16p_" if layout == "flat" else "c16q_") + _sid(names)


def _decoys(names: typing.Sequence[str]) -> typing.Dict[str, str]:
    files = {n: "noise" for n in NOISE_FILES}
    for i, cname in enumerate(list(universe()[1]) + list(BEYOND)):
        if cname not in names:
            files[cname + (".txt" if i % 2 else SUFFIX + ".bak")] = "decoy"
    if "object" not in names:
        files["object" + SUFFIX] = "decoy"
    # templates whose name only STARTS with a class name (`<Class>.<word>.j2`): for classes without a template of their
    # own (must not be taken for one) and next to a real `<Class>.j2` (must not shadow it, whatever the sort order)
    for i, cname in enumerate(list(universe()[1]) + list(BEYOND)):
        word = (".inc", ".old", ".a", ".macros")[i % 4]
        if cname not in names or i % 2 == 0:
            files[cname + word + SUFFIX] = "decoy"
    return files


def _fill(d: pathlib.Path, files: typing.Mapping[str, str]) -> None:
    d.mkdir(parents=True, exist_ok=True)
    for n, text in files.items():
        (d / n).write_text(text)


def realise(names: typing.Tuple[str, ...], noisy: bool = True) -> None:
    """Creates the user directories and stub packages holding exactly the templates `names` (idempotent)."""
    root = pathlib.Path(_G["root"])
    flat = user_dirs(names, "flat")[0]
    if not flat.exists():
        _fill(flat, {n + SUFFIX: "U:" + n for n in names})
        pk = root / "pkgs" / pkg_name(names, "flat")
        _fill(pk, {"__init__.py": ""})
        _fill(pk / "templates", dict({"__init__.py": ""}, **{n + SUFFIX: "B:" + n for n in names}))
    if noisy and not user_dirs(names, "noisy")[0].exists():
        a, b = user_dirs(names, "noisy")
        dec = _decoys(names)
        _fill(a, dict(dec, **{n + SUFFIX: "U:" + n for i, n in enumerate(names) if i % 2 == 0}))
        _fill(b, dict(dec, **{n + SUFFIX: "U:" + n for i, n in enumerate(names) if i % 2 == 1}))
        pk = root / "pkgs" / pkg_name(names, "noisy")
        _fill(pk, {"__init__.py": ""})
        _fill(pk / "templates", dict(dec, **dict({"__init__.py": ""}, **{n + SUFFIX: "B:" + n for n in names})))


def _ensure_path() -> None:
    p = str(pathlib.Path(_G["root"]) / "pkgs")
    if p not in sys.path:
        sys.path.insert(0, p)
    importlib.invalidate_caches()


# =================================================================================== loader under test
Cfg = typing.Tuple[str, str, typing.Tuple[str, ...], typing.Tuple[str, ...], str]  # family, policy, U, B, layout


def make_loader(cfg: Cfg) -> typing.Any:
    from nunavut._utilities import ResourceSearchPolicy
    from nunavut.jinja.loaders import DSDLTemplateLoader

    family, policy, u, b, layout = cfg
    kw: typing.Dict[str, typing.Any] = {"search_policy": getattr(ResourceSearchPolicy, policy)}
    if family in ("user", "both"):
        kw["templates_dirs"] = user_dirs(u, layout)
    if family in ("pkg", "both"):
        kw["package_name_for_templates"] = pkg_name(b, layout)
    return DSDLTemplateLoader(**kw)


def active_sets(cfg: Cfg) -> typing.Tuple[typing.Set[str], typing.Set[str]]:
    """The template sets the documented configuration makes effective (user, built-in)."""
    family, policy, u, b, _ = cfg
    us = set(u) if family in ("user", "both") else set()
    bs = set(b) if family == "pkg" or (family == "both" and policy == "FIND_ALL") else set()
    return us, bs


def judge(cfg: Cfg, target: type, r: typing.Any) -> typing.Tuple[typing.Optional[str], dict]:
    """Reference verdict on one lookup result. Returns (violation kind or None, info)."""
    us, bs = active_sets(cfg)
    chain = ref_chain(target)
    on_chain = {n for _, n in chain}
    acc_union = nearest(chain, us | bs)
    acc_prio = nearest(chain, us) or nearest(chain, bs)
    acc = acc_union | acc_prio
    info = {"expected": sorted(acc), "got": None if r is None else str(r), "readings_differ": acc_union != acc_prio}
    if r is None:
        return (None if not acc else "missing"), info
    s = r.as_posix() if isinstance(r, pathlib.PurePath) else str(r)
    if not s.endswith(SUFFIX) or "/" in s:
        return "not_a_class_template", info
    stem = s[: -len(SUFFIX)]
    if stem not in (us | bs):
        return "no_such_template", info
    if stem in BEYOND and not acc:
        # No class up to pydsdl.Any has a template but a file named after a class beyond Any (ABC, object) exists.
        # The loader is written for arbitrary class hierarchies (pinned test_bfs_of_type_for_template) and walks on
        # to ABC; the property only speaks about the chain up to Any, so this is recorded, not judged.
        info["beyond_any"] = True
        info["source"] = "beyond_any"
        return None, info
    if stem not in on_chain:
        return "off_chain", info
    if stem not in acc:
        return "not_nearest", info
    info["source"] = "user" if stem in us else "pkg"
    info["distance"] = [d for d, n in chain if n == stem][0]
    return None, info


class _OsProxy:
    """Stands in for the `os` module inside the vendored jinja2 loaders: permutes directory enumeration."""

    calls = 0

    def __init__(self, real: typing.Any, order: str):
        self._real = real
        self._order = order

    def __getattr__(self, k: str) -> typing.Any:
        return getattr(self._real, k)

    def _perm(self, xs: typing.List[str]) -> typing.List[str]:
        if self._order == "asc":
            return sorted(xs)
        if self._order == "desc":
            return sorted(xs, reverse=True)
        return sorted(xs, key=lambda x: hashlib.sha256(x.encode()).digest())

    def walk(self, top: typing.Any, *a: typing.Any, **kw: typing.Any) -> typing.Iterator[tuple]:
        _OsProxy.calls += 1
        for dirpath, dirnames, filenames in self._real.walk(top, *a, **kw):
            yield dirpath, self._perm(list(dirnames)), self._perm(list(filenames))


@contextlib.contextmanager
def listing_order(order: str) -> typing.Iterator[None]:
    if order == "natural":
        yield
        return
    import nunavut.jinja.jinja2.loaders as jl

    real = jl.os
    jl.os = _OsProxy(real, order)  # type: ignore
    try:
        yield
    finally:
        jl.os = real  # type: ignore


def _canon(x: typing.Any) -> str:
    if isinstance(x, type):
        return x.__module__ + "." + x.__qualname__
    return str(x)


def _containers(loader: typing.Any) -> typing.Iterator[typing.Tuple[str, str, typing.Any]]:
    """Every mutable container reachable from the loader instance, its class and its module."""
    import nunavut.jinja.loaders as lm

    for scope, d in (("inst", vars(loader)), ("class", vars(type(loader))), ("module", vars(lm))):
        for k in sorted(d):
            if not k.startswith("__") and isinstance(d[k], (dict, list, set, collections.deque)):
                yield scope, k, d[k]


def snapshot(loader: typing.Any) -> tuple:
    """Canonical form of the loader state: the contents of all those containers."""
    out = []
    for scope, k, v in _containers(loader):
        if isinstance(v, dict):
            out.append((scope, k, tuple(sorted((_canon(a), _canon(b)) for a, b in v.items()))))
        else:
            out.append((scope, k, tuple(sorted(_canon(a) for a in v))))
    return tuple(out)


def save_state(loader: typing.Any) -> typing.Tuple[typing.Any, typing.Set[str], list]:
    return loader, set(vars(loader)), [(v, v.copy()) for _, _, v in _containers(loader)]


def restore_state(saved: typing.Tuple[typing.Any, typing.Set[str], list]) -> typing.Any:
    loader, keys, conts = saved
    for k in [k for k in vars(loader) if k not in keys]:
        delattr(loader, k)
    for live, cp in conts:
        live.clear()
        if isinstance(live, (dict, set)):
            live.update(cp)
        else:
            live.extend(cp)
    return loader


def _state_size(s: tuple) -> int:
    return sum(len(x[2]) for x in s)


class Stats:
    def __init__(self) -> None:
        self.c: typing.Dict[str, int] = collections.Counter()
        self.outcomes: typing.Set[tuple] = set()
        self.maxdepth = 0

    def merge(self, o: "Stats") -> None:
        self.c.update(o.c)
        self.maxdepth = max(self.maxdepth, o.maxdepth)
        self.outcomes |= o.outcomes


def _res_sig(kind: str, cfg: Cfg, history: str, **extra: typing.Any) -> dict:
    sig = {"part": "resolution", "kind": kind, "family": cfg[0], "policy": cfg[1], "history": history}
    sig.update(extra)
    return sig


def _res_case(cfg: Cfg, target: str, history: typing.Sequence[str] = (), order: str = "natural", sibling: bool = False) -> dict:
    return {
        "part": "resolution",
        "family": cfg[0],
        "policy": cfg[1],
        "user": list(cfg[2]),
        "builtin": list(cfg[3]),
        "layout": cfg[4],
        "order": order,
        "sibling_warmup": sibling,
        "history": list(history),
        "target": target,
    }


def eval_resolution_case(case: dict) -> typing.List[typing.Tuple[dict, str]]:
    """Executes ONE resolution case (used for confirmation and replay). Returns the violations it exhibits."""
    _, byname = universe()
    cfg: Cfg = (case["family"], case["policy"], tuple(case["user"]), tuple(case["builtin"]), case["layout"])
    if case.get("get_source"):
        return [(sg, wh) for sg, wh, _ in _check_get_source(cfg, make_loader(cfg), [case["get_source"]])]
    target = byname[case["target"]]
    out: typing.List[typing.Tuple[dict, str]] = []
    cold = make_loader(cfg).type_to_template(target)
    with listing_order(case.get("order", "natural")):
        if case.get("sibling_warmup"):
            sib = make_loader(_sibling_cfg(cfg))
            for c in universe()[0]:
                sib.type_to_template(c)
        ldr = make_loader(cfg)
        for h in case.get("history", []):
            ldr.type_to_template(byname[h])
        r = ldr.type_to_template(target)
    hist = "sibling" if case.get("sibling_warmup") else ("warm" if case.get("history") else "cold")
    kind, info = judge(cfg, target, r)
    # feature of the input that separates root causes: does the user set have any template on the target's chain?
    feat = {"user_template_on_chain": bool(nearest(ref_chain(target), active_sets(cfg)[0]))} if cfg[0] == "both" else {}
    if kind is not None:
        out.append(
            (
                _res_sig(kind, cfg, hist, **feat),
                f"lookup of {case['target']} with user={list(cfg[2])} builtin={list(cfg[3])} [{cfg[0]}/{cfg[1]}/{cfg[4]}] "
                f"after {case.get('history', [])} gives {info['got']}, reference allows {info['expected'] or None}",
            )
        )
    if r != cold:
        k = "order_dependent" if case.get("order", "natural") != "natural" and not case.get("history") else "history_dependent"
        extra = dict(feat, order=case.get("order")) if k == "order_dependent" else feat
        out.append(
            (
                _res_sig(k, cfg, hist, **extra),
                f"lookup of {case['target']} gives {r} after history {case.get('history', [])} "
                f"(order={case.get('order', 'natural')}, sibling={bool(case.get('sibling_warmup'))}) but {cold} on a fresh loader; "
                f"user={list(cfg[2])} builtin={list(cfg[3])} [{cfg[0]}/{cfg[1]}]",
            )
        )
    return out


def _sibling_cfg(cfg: Cfg) -> Cfg:
    allnames = tuple(sorted(universe()[1]))
    return (cfg[0], cfg[1], allnames, allnames, "flat")


def _check_get_source(cfg: Cfg, ldr: typing.Any, names: typing.Iterable[str]) -> typing.List[typing.Tuple[dict, str, dict]]:
    """A template that exists must be loadable, and the user's file wins over a built-in one of the same name."""
    from nunavut.jinja.jinja2 import TemplateNotFound

    us, bs = active_sets(cfg)
    out = []
    for n in names:
        want = ("U:" + n) if n in us else (("B:" + n) if n in bs else None)
        if want is None:
            continue
        try:
            src = ldr.get_source(None, n + SUFFIX)
            got, fname = src[0], str(src[1])
        except TemplateNotFound:
            got, fname = None, ""
        ok = got == want
        if ok and n in us and not any(fname.startswith(str(d) + os.sep) for d in user_dirs(cfg[2], cfg[4])):
            ok = False
        if not ok:
            kind = "user_template_not_preferred" if n in us and n in set(cfg[3]) else "template_not_loadable"
            case = _res_case(cfg, n)
            case["get_source"] = n
            what = (
                f"get_source('{n}{SUFFIX}') returns {got!r} from {fname or None}, expected {want!r}; user={list(cfg[2])} "
                f"builtin={list(cfg[3])} [{cfg[0]}/{cfg[1]}/{cfg[4]}]"
            )
            out.append((_res_sig(kind, cfg, "cold"), what, case))
    return out


def explore_config(
    cfg: Cfg, targets1: typing.Sequence[str], targets2: typing.Sequence[str], extras: bool, bag: Bag, st: Stats
) -> None:
    """All of part R for one loader configuration."""
    classes, byname = universe()

    def report(case: dict) -> None:
        found = eval_resolution_case(case)
        for sig, what in found:
            bag.add(sig, case, what)
        if not found:  # seen once, gone when executed again in this very process: hidden state; left to the confirmation
            bag.add({"part": "resolution", "kind": "unstable_result"}, case, f"result of {case} changed between two executions")

    # ---- cold lookups against the reference
    cold: typing.Dict[type, typing.Any] = {}
    for t in classes:
        r = make_loader(cfg).type_to_template(t)
        cold[t] = r
        st.c["lookups"] += 1
        kind, info = judge(cfg, t, r)
        if kind is not None:
            report(_res_case(cfg, t.__name__))
        else:
            st.outcomes.add(("cold", cfg[0], cfg[1], info.get("source", "none"), info.get("distance", -1)))
            if info.get("beyond_any"):
                st.c["template_of_class_beyond_any_used"] += 1
            if info["readings_differ"]:
                st.c["two_source_readings_differ"] += 1
                if info["got"] is not None and info["got"][: -len(SUFFIX)] not in nearest(ref_chain(t), set(cfg[2]) | set(cfg[3])):
                    st.c["user_ancestor_preferred_over_nearer_builtin"] += 1
    # ---- get_source: a user template shadows the built-in one of the same name
    for sg, wh, cs in _check_get_source(cfg, make_loader(cfg), sorted(set(cfg[2]) | set(cfg[3]))):
        bag.add(sg, cs, wh)
    st.c["get_source_checked"] += len(set(cfg[2]) | set(cfg[3]))
    st.c["get_source_shadowing_checked"] += len(set(cfg[2]) & set(cfg[3])) if cfg[0] == "both" else 0

    if extras:
        # ---- directory enumeration order
        for order in ORDERS:
            with listing_order(order):
                for t in classes:
                    r = make_loader(cfg).type_to_template(t)
                    st.c["lookups"] += 1
                    st.c["order_lookups"] += 1
                    if r != cold[t]:
                        report(_res_case(cfg, t.__name__, order=order))
        # ---- a sibling loader instance with a different template set was used before
        sib = make_loader(_sibling_cfg(cfg))
        for t in classes:
            sib.type_to_template(t)
        for t in classes:
            r = make_loader(cfg).type_to_template(t)
            st.c["lookups"] += 2
            st.c["sibling_lookups"] += 1
            if r != cold[t] or judge(cfg, t, r)[0] is not None:
                report(_res_case(cfg, t.__name__, sibling=True))
                break

    # ---- explicit-state search over histories, to the fixpoint
    # A state is entered by replaying its history on a fresh loader (and must then show the snapshot under which it was
    # discovered); its outgoing transitions are real lookups on that loader, which is put back into the state between
    # them by restoring the snapshotted containers.  If a replay ever disagrees with a restore, restoring is abandoned
    # for this configuration and every transition replays the whole history on a fresh loader.
    for use_restore in (True, False):
        s0 = snapshot(make_loader(cfg))
        seen: typing.Dict[tuple, typing.Tuple[type, ...]] = {s0: ()}
        frontier: typing.List[typing.Tuple[typing.Tuple[type, ...], tuple]] = [((), s0)]
        maxdepth = 0
        consistent = True
        while frontier and consistent:
            h, s_expected = frontier.pop(0)
            ldr = make_loader(cfg)
            for x in h:
                ldr.type_to_template(x)
            st.c["lookups"] += len(h)
            st.c["state_replays"] += 1
            if snapshot(ldr) != s_expected:
                consistent = False
                break
            saved = save_state(ldr)
            for d in classes:
                if use_restore:
                    ldr = restore_state(saved)
                else:
                    ldr = make_loader(cfg)
                    for x in h:
                        ldr.type_to_template(x)
                    st.c["lookups"] += len(h)
                r = ldr.type_to_template(d)
                st.c["lookups"] += 1
                st.c["transitions"] += 1
                if r != cold[d]:
                    report(_res_case(cfg, d.__name__, [x.__name__ for x in h]))
                s = snapshot(ldr)
                if h and r is not None:
                    dist = [dd for dd, n in ref_chain(d) if n + SUFFIX == str(r)]
                    if dist and dist[0] >= 1:
                        st.c["nontrivial_transitions"] += 1  # (configuration, state, class) is visited exactly once
                    st.outcomes.add(("warm", cfg[0], cfg[1], _state_size(s) - _state_size(s0), dist[0] if dist else -1))
                if s not in seen:
                    if len(seen) >= MAX_STATES:
                        st.c["state_cap_hit"] += 1
                        continue
                    seen[s] = h + (d,)
                    frontier.append((h + (d,), s))
                    maxdepth = max(maxdepth, len(h) + 1)
        if consistent:
            break
        st.c["restore_abandoned" if use_restore else "replay_not_deterministic"] += 1
    st.c["states"] += len(seen)
    st.maxdepth = max(st.maxdepth, maxdepth)

    # ---- plain histories (no state abstraction) of <= 2 earlier lookups
    for tn in targets1:
        t = byname[tn]
        for d1 in classes:
            ldr = make_loader(cfg)
            ldr.type_to_template(d1)
            r = ldr.type_to_template(t)
            st.c["lookups"] += 2
            st.c["plain_histories"] += 1
            if r != cold[t]:
                report(_res_case(cfg, tn, [d1.__name__]))
        if tn in targets2:
            st.c["plain_depth2_targets"] += 1
            for d1 in classes:
                for d2 in classes:
                    ldr = make_loader(cfg)
                    ldr.type_to_template(d1)
                    ldr.type_to_template(d2)
                    r = ldr.type_to_template(t)
                    st.c["lookups"] += 3
                    st.c["plain_histories"] += 1
                    if r != cold[t]:
                        report(_res_case(cfg, tn, [d1.__name__, d2.__name__]))
    st.c["configs"] += 1


def _realise_work(sets: typing.List[typing.Tuple[str, ...]]) -> int:
    for names in sets:
        realise(names, noisy=True)
    return len(sets)


def _res_work(jobs: typing.List[tuple]) -> dict:
    _ensure_path()
    t0 = time.time()
    bag, st = Bag(), Stats()
    for cfg, targets1, targets2, extras in jobs:
        explore_config(cfg, targets1, targets2, extras, bag, st)
    st.c["res_cpu_ms"] += int(1000 * (time.time() - t0))
    st.c["os_walk_interposed"] += _OsProxy.calls
    _OsProxy.calls = 0
    return {"bag": bag, "st": st}


# =================================================================================== part G: real generators
_GEN_NS: typing.Dict[str, typing.Any] = {}


def gen_namespace(lang: str) -> typing.Any:
    if lang not in _GEN_NS:
        import nunavut
        from vf import gen

        root = pathlib.Path(_G["root"])
        types = gen.read_types(root / "ns" / "c16ns")
        lctx = gen.language_context(lang)
        _GEN_NS[lang] = nunavut.build_namespace_tree(types, str(root / "ns" / "c16ns"), str(root / "out" / lang), lctx)
    return _GEN_NS[lang]


DSDL = {
    "c16ns/Inner.1.0.dsdl": "uint8 a\n@sealed\n",
    "c16ns/U.1.0.dsdl": "@union\nuint8 a\nbool b\n@sealed\n",
    "c16ns/D.1.0.dsdl": "uint8 a\n@extent 64\n",
    "c16ns/S.1.0.dsdl": "uint8 a\n@sealed\n---\nuint8 b\n@sealed\n",
    "c16ns/sub/T.1.0.dsdl": "uint8 LIMIT_A = 3\nbool f_bool\nuint7 f_uint\nint9 f_int\nfloat32 f_float\nbyte[2] f_byte\nutf8[<=4] f_utf8\nvoid3\n"
    "uint8[3] f_fixed\nuint8[<=3] f_var\nc16ns.Inner.1.0 f_struct\nc16ns.U.1.0 f_union\nc16ns.D.1.0 f_delimited\n@sealed\n",
}


def instance_of(d: type) -> typing.Any:
    """An object whose type() is exactly d (abstract classes: a concrete descendant re-classed)."""
    try:
        return object.__new__(d)
    except TypeError:
        pass
    todo = sorted(d.__subclasses__(), key=lambda x: (x.__module__, x.__qualname__))
    while todo:
        s = todo.pop(0)
        try:
            o = object.__new__(s)
            o.__class__ = d
            return o
        except TypeError:
            todo += sorted(s.__subclasses__(), key=lambda x: (x.__module__, x.__qualname__))
    return None


_POOL: typing.Optional[typing.List[typing.Any]] = None


def parsed_objects() -> typing.List[typing.Any]:
    """Objects produced by the real front end from the DSDL above: types, attributes, data types, element types."""
    global _POOL  # pylint: disable=global-statement
    if _POOL is None:
        import pydsdl
        from vf import gen

        seen: typing.List[typing.Any] = []

        def add(x: typing.Any) -> None:
            if not any(type(x) is type(y) and str(x) == str(y) for y in seen):
                seen.append(x)

        for t in gen.read_types(pathlib.Path(_G["root"]) / "ns" / "c16ns"):
            add(t)
            for c in [t] + ([t.request_type, t.response_type] if isinstance(t, pydsdl.ServiceType) else []):
                add(c)
                for at in c.attributes:
                    add(at)
                    add(at.data_type)
                    if isinstance(at.data_type, pydsdl.ArrayType):
                        add(at.data_type.element_type)
        _POOL = seen
    return _POOL


@contextlib.contextmanager
def printable(d: type) -> typing.Iterator[None]:
    """str() of a fabricated (uninitialised) instance must not fail: the generator formats the value into its error."""
    had = "__str__" in vars(d)
    old = vars(d).get("__str__")
    setattr(d, "__str__", lambda self: f"<{type(self).__name__} made by C16>")
    try:
        yield
    finally:
        if had:
            setattr(d, "__str__", old)
        else:
            delattr(d, "__str__")


def make_generator(case: dict) -> typing.Any:
    from nunavut.jinja import DSDLCodeGenerator

    kw: typing.Dict[str, typing.Any] = {"package_name_for_templates": pkg_name(tuple(case["builtin"]), "flat")}
    if case["user"] is not None:
        kw["templates_dir"] = user_dirs(tuple(case["user"]), "flat")
    return DSDLCodeGenerator(gen_namespace(case["lang"]), **kw)


def eval_generator_case(case: dict, st: typing.Optional[Stats] = None) -> typing.List[typing.Tuple[dict, str, dict]]:
    """case: lang, user (list or None), builtin (list), optional target (else all classes on one generator)."""
    classes, byname = universe()
    out: typing.List[typing.Tuple[dict, str, dict]] = []
    u = None if case["user"] is None else tuple(case["user"])
    b = tuple(case["builtin"])
    cfg: Cfg = ("pkg", "FIND_FIRST", (), b, "flat") if u is None else ("both", "FIND_FIRST", u, b, "flat")
    g = make_generator(case)
    flt = g._env.filters["type_to_template"]  # pylint: disable=protected-access
    targets = [byname[case["target"]]] if case.get("target") else classes
    for d in targets:
        real = [x for x in parsed_objects() if type(x) is d]
        v = gen_namespace(case["lang"]) if d.__name__ == "Namespace" else (real[0] if real else instance_of(d))
        if v is None or type(v) is not d:
            if st is not None:
                st.c["gen_no_instance"] += 1
            continue
        res = []
        with printable(d) if not real and d.__name__ != "Namespace" else contextlib.nullcontext():
            for f in (g.filter_type_to_template, flt):
                try:
                    res.append(f(v))
                except RuntimeError:
                    res.append(None)
        if st is not None:
            st.c["gen_values_from_front_end" if real or d.__name__ == "Namespace" else "gen_values_fabricated"] += 1
        lr = make_loader(cfg).type_to_template(d)
        lname = None if lr is None else lr.name
        kind, info = judge(cfg, d, None if res[0] is None else pathlib.Path(res[0]))
        one = dict(case, target=d.__name__)
        desc = f"{case['lang']} generator user={case['user']} builtin={list(b)} value of {d.__name__}"
        if res[0] != res[1]:
            out.append(({"part": "generator", "kind": "filter_differs_from_method"}, f"{desc}: method {res[0]} vs registered filter {res[1]}", one))
        if res[0] != lname:
            out.append(({"part": "generator", "kind": "disagrees_with_loader", "user_dir": u is not None}, f"{desc}: filter_type_to_template gives {res[0]}, a fresh loader {lname}", one))
        if kind is not None:
            out.append(({"part": "generator", "kind": kind, "user_dir": u is not None}, f"{desc}: filter_type_to_template gives {res[0]}, reference allows {info['expected'] or None}", one))
        elif res[0] is not None:
            stem = res[0][: -len(SUFFIX)]
            want = ("U:" if u is not None else "B:") + stem
            try:
                text = g._env.get_template(res[0]).render()  # pylint: disable=protected-access
            except Exception as e:  # pylint: disable=broad-except
                text = f"{type(e).__name__}: {e}"
            if text != want:
                out.append(({"part": "generator", "kind": "wrong_template_rendered", "user_dir": u is not None}, f"{desc}: environment renders {text!r} for {res[0]}, expected {want!r}", one))
        if st is not None:
            st.c["gen_lookups"] += 1
            st.outcomes.add(("gen", u is not None, info.get("source", "none"), info.get("distance", -1)))
    return out


def _gen_work(jobs: typing.List[dict]) -> dict:
    _ensure_path()
    bag, st = Bag(), Stats()
    for case in jobs:
        for sig, what, one in eval_generator_case(case, st):
            # confirm on a fresh generator with the single lookup (minimal case)
            again = [x for x in eval_generator_case(one) if x[0] == sig]
            bag.add(sig, one if again else case, what)
        st.c["generators"] += 1
    return {"bag": bag, "st": st}


# =================================================================================== part T: instance tests
def _values() -> typing.List[typing.Tuple[dict, typing.Any]]:
    """(description, value) for every class D: mock and real plain instances, and attributes with data_type of D."""
    import pydsdl
    from unittest.mock import MagicMock

    classes, _ = universe()
    attrs = [c for c in classes if issubclass(c, pydsdl.Attribute)]
    vals: typing.List[typing.Tuple[dict, typing.Any]] = []
    for d in classes:
        vals.append(({"value": "mock", "cls": d.__name__}, MagicMock(spec=d)))
        if not issubclass(d, pydsdl.Attribute):
            o = instance_of(d)
            if o is not None:
                vals.append(({"value": "real", "cls": d.__name__}, o))
    for a in attrs:
        for d in classes:
            if issubclass(d, pydsdl.Attribute):
                continue
            m = MagicMock(spec=a)
            m.data_type = MagicMock(spec=d)
            vals.append(({"value": "mock_attribute", "cls": a.__name__, "data_type": d.__name__}, m))
            inner = instance_of(d)
            if inner is not None:
                o = object.__new__(a)
                o._data_type = inner  # pylint: disable=protected-access
                o._name = "x"  # pylint: disable=protected-access
                o._doc = ""  # pylint: disable=protected-access
                if o.data_type is not inner:
                    raise HarnessError("cannot build a pydsdl attribute object")
                vals.append(({"value": "real_attribute", "cls": a.__name__, "data_type": d.__name__}, o))
    for x in parsed_objects():
        vals.append(({"value": "parsed", "cls": type(x).__name__, "what": str(x)}, x))
    return vals


def _expected_test(v: typing.Any, c: type) -> bool:
    import pydsdl

    return isinstance(v, c) or (isinstance(v, pydsdl.Attribute) and isinstance(v.data_type, c))


def eval_tests(source: str, only: typing.Optional[dict] = None, st: typing.Optional[Stats] = None) -> typing.List[typing.Tuple[dict, str, dict]]:
    """source: 'classmethod' or a language name (tests registered in a real generator's environment, rendered)."""
    import pydsdl
    from nunavut.jinja import DSDLCodeGenerator

    out: typing.List[typing.Tuple[dict, str, dict]] = []
    tcs = type_classes()
    names: typing.List[typing.Tuple[str, type, str]] = []
    for c in tcs:
        names.append((c.__name__, c, "class"))
        names.append((ref_alias(c.__name__), c, "alias"))
    # aliases pairwise distinct and distinct from every class name (else one test silently replaced another)
    allnames = [n for n, _, _ in names]
    dup = sorted({n for n in allnames if allnames.count(n) > 1})
    if dup and (only is None or "collision" in only):
        out.append(({"part": "tests", "kind": "alias_collision"}, f"test names collide: {dup}", {"part": "tests", "source": source, "collision": dup}))
    if source == "classmethod":
        table = DSDLCodeGenerator._create_all_dsdl_tests()  # pylint: disable=protected-access
        env = None
    else:
        g = DSDLCodeGenerator(gen_namespace(source))
        env = g._env  # pylint: disable=protected-access
        table = env.tests
    vals = _values()
    if only is not None and "collision" in only:
        return out
    for name, c, form in names:
        if only is not None and (only.get("test") != name or only.get("test_class") != c.__name__):
            continue
        fam = "attribute" if issubclass(c, pydsdl.Attribute) else "type"
        base_case = {"part": "tests", "source": source, "test": name, "test_class": c.__name__}
        if name not in table:
            out.append(({"part": "tests", "kind": "test_missing", "name_form": form}, f"no test '{name}' for {c.__name__} in {source}", base_case))
            continue
        tmpl = env.from_string("{{ 'T' if v is " + name + " else 'F' }}") if env is not None else None
        for desc, v in vals:
            if only is not None and "value" in only and any(only.get(k) != desc.get(k) for k in ("value", "cls", "data_type", "what")):
                continue
            exp = _expected_test(v, c)
            try:
                got: typing.Any = (tmpl.render(v=v) == "T") if tmpl is not None else bool(table[name](v))
            except Exception as e:  # pylint: disable=broad-except
                got = f"{type(e).__name__}: {e}"
            if st is not None:
                st.c["test_evaluations"] += 1
                st.outcomes.add(("test", fam, desc["value"], exp))
                if exp:
                    st.c["nontrivial_tests"] += 1  # (source, test, value) is enumerated exactly once
            if got != exp:
                vk = "attribute" if "attribute" in desc["value"] or (desc["value"] in ("parsed", "mock") and isinstance(v, pydsdl.Attribute)) else "plain"
                out.append(
                    (
                        {"part": "tests", "kind": "instance_test_disagrees", "test_family": fam, "value_kind": vk, "expected": exp},
                        f"test '{name}' ({source}) on {desc} is {got}, class membership says {exp}",
                        dict(base_case, **desc),
                    )
                )
    return out


def _tests_work(source: str) -> dict:
    _ensure_path()
    bag, st = Bag(), Stats()
    for sig, what, case in eval_tests(source, None, st):
        bag.add(sig, case, what)
    return {"bag": bag, "st": st}


# =================================================================================== part N: name protection
GEN_KINDS = ("DSDLCodeGenerator", "SupportGenerator")
VARIANTS = ("", "filter_", "is_", "uses_")


def _construct(lang: str, kind: str, **kw: typing.Any) -> typing.Any:
    import nunavut.jinja

    return getattr(nunavut.jinja, kind)(gen_namespace(lang), **kw)


def _sentinel(*_a: typing.Any, **_k: typing.Any) -> str:
    return SENTINEL_RESULT


def _holds_sentinel(x: typing.Any) -> bool:
    return x is _sentinel or getattr(x, "func", None) is _sentinel


def _jinja_default_globals() -> typing.Set[str]:
    from nunavut.jinja.jinja2.defaults import DEFAULT_NAMESPACE

    return set(DEFAULT_NAMESPACE)


_PRISTINE: typing.Dict[typing.Tuple[str, str], typing.Dict[str, typing.Dict[str, typing.Any]]] = {}


def pristine(lang: str, kind: str) -> typing.Dict[str, typing.Dict[str, typing.Any]]:
    if (lang, kind) not in _PRISTINE:
        env = _construct(lang, kind)._env  # pylint: disable=protected-access
        _PRISTINE[(lang, kind)] = {"filters": dict(env.filters), "tests": dict(env.tests), "globals": dict(env.globals)}
    return _PRISTINE[(lang, kind)]


def eval_name_case(case: dict, st: typing.Optional[Stats] = None) -> typing.List[typing.Tuple[dict, str]]:
    """case: lang, generator, collection (filters|tests|globals), name, variant, role."""
    from nunavut.jinja.environment import CodeGenEnvironment

    lang, kind, coll, name, variant, role = (case[k] for k in ("lang", "generator", "collection", "name", "variant", "role"))
    base = pristine(lang, kind)
    supplied = variant + name
    kwarg = {"filters": "additional_filters", "tests": "additional_tests", "globals": "additional_globals"}[coll]
    err: typing.Optional[BaseException] = None
    env = None
    try:
        env = _construct(lang, kind, **{kwarg: {supplied: _sentinel}})._env  # pylint: disable=protected-access
    except Exception as e:  # pylint: disable=broad-except
        err = e
    sig0 = {"part": "names", "collection": coll, "variant": variant or "exact", "generator": kind, "role": role}
    desc = f"{kind}({lang}) with {kwarg}={{'{supplied}': f}}"
    out: typing.List[typing.Tuple[dict, str]] = []
    outcome = "raised_" + type(err).__name__ if err is not None else "accepted"
    if env is not None:
        replaced = sorted(
            n
            for c in ("filters", "tests", "globals")
            for n in base[c]
            if _holds_sentinel(getattr(env, c).get(n)) and not (c == "globals" and n in _jinja_default_globals())
        )
        lost = sorted(n for c in ("filters", "tests", "globals") for n in base[c] if n not in getattr(env, c))
        if replaced or lost:
            out.append((dict(sig0, kind="silently_replaced"), f"{desc}: no error and pristine name(s) {replaced + lost} now belong to the user"))
            outcome = "replaced"
    if role in ("pristine", "reserved"):
        if err is None:
            if not out:
                out.append((dict(sig0, kind="not_rejected"), f"{desc}: name is already defined/reserved but no RuntimeError was raised"))
        elif not isinstance(err, RuntimeError):
            out.append((dict(sig0, kind="wrong_exception"), f"{desc}: raised {type(err).__name__}: {err} instead of RuntimeError"))
    elif role == "language_global":
        # never displaced: either rejected, or the language's value stays
        if env is not None and env.globals.get(name) != base["globals"][name]:
            out.append((dict(sig0, kind="language_global_displaced"), f"{desc}: global '{name}' no longer has the language's value"))
    elif role == "jinja_default_global":
        if st is not None:
            st.c["jinja_default_global_" + ("replaced" if env is not None and _holds_sentinel(env.globals.get(name)) else "kept_or_rejected")] += 1
    elif role == "fresh":
        registered = None
        if env is not None:
            registered = [n for n, v in getattr(env, coll).items() if _holds_sentinel(v)]
        if err is not None or not registered:
            out.append((dict(sig0, kind="fresh_not_added"), f"{desc}: fresh name was not added ({outcome})"))
        else:
            n = registered[0]
            src = {"filters": "{{ 1 | %s }}", "tests": "{{ 'yes' if 1 is %s else 'no' }}", "globals": "{{ %s() }}"}[coll] % n
            want = "yes" if coll == "tests" else SENTINEL_RESULT
            try:
                text = env.from_string(src).render()
            except Exception as e:  # pylint: disable=broad-except
                text = f"{type(e).__name__}: {e}"
            if text != want or len(registered) != 1:
                out.append((dict(sig0, kind="fresh_not_callable"), f"{desc}: template {src!r} renders {text!r} (registered as {registered})"))
            outcome = "added"
    if role == "reserved" and name not in (CodeGenEnvironment.RESERVED_GLOBAL_NAMESPACES | CodeGenEnvironment.RESERVED_GLOBAL_NAMES):
        raise HarnessError("reserved role for a name that is not reserved")
    if st is not None:
        st.c["name_constructions"] += 1
        st.outcomes.add(("names", coll, variant, role, outcome))
        if outcome != "accepted":
            st.c["nontrivial_names"] += 1  # (language, generator, collection, supplied name) is enumerated exactly once
    return out


def name_cases(lang: str, kind: str) -> typing.List[dict]:
    from nunavut.jinja.environment import CodeGenEnvironment

    base = pristine(lang, kind)
    cases = []

    def add(coll: str, name: str, variant: str, role: str) -> None:
        cases.append({"part": "names", "lang": lang, "generator": kind, "collection": coll, "name": name, "variant": variant, "role": role})

    for coll in ("filters", "tests"):
        for n in sorted(base[coll]):
            for v in VARIANTS:
                add(coll, n, v, "pristine")
        for v in VARIANTS:
            add(coll, "c16_fresh_name", v, "fresh")
    reserved = sorted(CodeGenEnvironment.RESERVED_GLOBAL_NAMESPACES | CodeGenEnvironment.RESERVED_GLOBAL_NAMES)
    for n in reserved:
        add("globals", n, "", "reserved")
    for n in sorted(base["globals"]):
        if n in reserved:
            continue
        add("globals", n, "", "jinja_default_global" if n in _jinja_default_globals() else "language_global")
    add("globals", "c16_fresh_name", "", "fresh")
    return cases


def _names_work(job: typing.Tuple[str, str, int, int]) -> dict:
    _ensure_path()
    lang, kind, shard, nshards = job
    bag, st = Bag(), Stats()
    for i, case in enumerate(name_cases(lang, kind)):
        if i % nshards != shard:
            continue
        for sig, what in eval_name_case(case, st):
            bag.add(sig, case, what)
    return {"bag": bag, "st": st}


# =================================================================================== driver
def _prepare(ctx: Ctx) -> None:
    from vf import gen

    _G["root"] = str(ctx.scratch / "c16")
    pathlib.Path(_G["root"]).mkdir(parents=True, exist_ok=True)
    gen.write_ns(pathlib.Path(_G["root"]) / "ns", DSDL)
    _ensure_path()


def _chunks(xs: typing.List[typing.Any], n: int) -> typing.List[typing.List[typing.Any]]:
    return [xs[i : i + n] for i in range(0, len(xs), n)]


def build_res_jobs(ctx: Ctx, chains: dict, single: dict, pairs: dict, beyond_sets: list) -> typing.List[tuple]:
    """(cfg, targets of plain depth-1 histories, targets of plain depth-2 histories, extras) - a pure function of tier/seed."""
    jobs: typing.List[tuple] = []

    def core_of(owners: typing.Sequence[str]) -> typing.List[str]:
        return [t for t in owners if t in CORE_BOTH]

    for u in sorted(single):
        owners = single[u]
        for family in ("user", "pkg"):
            for policy in POLICIES:
                for layout in ("flat", "noisy"):
                    cfg: Cfg = (family, policy, u if family == "user" else (), u if family == "pkg" else (), layout)
                    cid = "|".join([family, policy, ",".join(u), layout])
                    core = policy == "FIND_ALL" and bool(core_of(owners))
                    if layout == "noisy":
                        if ctx.thorough or core or ctx.in_slice(cid):
                            jobs.append((cfg, owners, [], True))
                        continue
                    deep = owners if (ctx.thorough or ctx.in_slice(cid)) else (core_of(owners) if core else [])
                    jobs.append((cfg, owners, deep, True))
    for s_ in beyond_sets:
        for family in ("user", "pkg"):
            cfg = (family, "FIND_ALL", s_ if family == "user" else (), s_ if family == "pkg" else (), "flat")
            jobs.append((cfg, [], [], True))
    for u, b in sorted(pairs):
        owners = pairs[(u, b)]
        core = bool(core_of(owners))
        for policy in POLICIES:
            cid = "|".join(["both", policy, ",".join(u), ",".join(b)])
            if not (core or ctx.in_slice(cid)):
                continue
            if ctx.thorough:
                deep = [t for t in owners if len(chains[t]) <= 4]
            else:
                deep = core_of(owners)
            jobs.append((("both", policy, u, b, "flat"), owners, deep, core))
            if core and policy == "FIND_ALL":
                jobs.append((("both", policy, u, b, "noisy"), owners, [], True))
    return jobs


def run(ctx: Ctx) -> int:
    _prepare(ctx)
    classes, byname = universe()
    chains = {c.__name__: tuple(n for _, n in ref_chain(c)) for c in classes}
    for c in classes:  # the reference needs an unambiguous notion of "nearest" only up to ties; record ties
        ds = [d for d, _ in ref_chain(c)]
        if len(set(ds)) != len(ds):
            ctx.count("classes_with_equally_near_ancestors")

    # ---------------- enumerate loader configurations
    single: typing.Dict[typing.Tuple[str, ...], typing.List[str]] = {}
    pairs: typing.Dict[typing.Tuple[typing.Tuple[str, ...], typing.Tuple[str, ...]], typing.List[str]] = {}
    for cname in sorted(chains):
        k = chains[cname]
        subs = list(subsets(k))
        for u in subs:
            single.setdefault(u, []).append(cname)
            for b in subs:
                pairs.setdefault((u, b), []).append(cname)
    beyond_sets = [s for s in subsets(("ABC", "object", "Any")) if set(s) & set(BEYOND)]
    allnames = tuple(sorted(byname))
    to_realise: typing.Set[typing.Tuple[str, ...]] = set(single) | set(beyond_sets) | {allnames}

    res_jobs = build_res_jobs(ctx, chains, single, pairs, beyond_sets)
    n_single = sum(1 for j in res_jobs if j[0][0] != "both")
    n_pairs = len({(j[0][1], j[0][2], j[0][3]) for j in res_jobs if j[0][0] == "both"})
    n_pairs_total = len(pairs) * len(POLICIES)
    ctx.pool_map(_realise_work, _chunks(sorted(to_realise), 8))
    _ensure_path()

    # ---------------- generator configurations
    gen_jobs: typing.List[dict] = []
    li = 0
    for b in sorted(single):
        gen_jobs.append({"part": "generator", "lang": LANGS[li % 4], "user": None, "builtin": list(b)})
        li += 1
    full = {cname: tuple(sorted(chains[cname])) for cname in chains}
    for u in sorted(single):
        for b in sorted({(), allnames, full[single[u][0]]}):
            gen_jobs.append({"part": "generator", "lang": LANGS[li % 4], "user": list(u), "builtin": list(b)})
            li += 1
    for (u, b) in sorted(pairs):
        cid = "gen|" + ",".join(u) + "|" + ",".join(b)
        if any(t in CORE_BOTH for t in pairs[(u, b)]) or ctx.in_slice(cid):
            gen_jobs.append({"part": "generator", "lang": LANGS[li % 4], "user": list(u), "builtin": list(b)})
            li += 1

    # ---------------- run
    total = Stats()

    def absorb(results: typing.List[dict]) -> None:
        for r in results:
            ctx.bag.merge(r["bag"])
            total.merge(r["st"])

    # interleave heavy and light jobs deterministically
    res_jobs.sort(key=lambda j: hashlib.sha256(repr(j[0]).encode()).digest())
    absorb(ctx.pool_map(_res_work, _chunks(res_jobs, max(1, len(res_jobs) // (ctx.workers * 24) or 1))))
    absorb(ctx.pool_map(_gen_work, _chunks(gen_jobs, max(1, len(gen_jobs) // (ctx.workers * 8) or 1))))
    absorb(ctx.pool_map(_tests_work, ["classmethod"] + list(LANGS)))
    nshards = 4
    absorb(ctx.pool_map(_names_work, [(lang, kind, s, nshards) for lang in LANGS for kind in GEN_KINDS for s in range(nshards)]))

    # ---------------- confirm every violation from its minimal recorded case, each in a pristine process image
    # (forked from this process, which has not executed a single lookup).  What does not reproduce is an artefact of
    # state leaking between the cases a worker executed; it is dropped when confirmed violations explain it (the
    # sibling-loader cases are the deterministic witnesses of such leaks) and is a harness error otherwise.
    items = [(k, v.sig, v.case) for k, v in sorted(ctx.bag.v.items())]
    if items:
        import multiprocessing as mp

        with mp.get_context("fork").Pool(min(ctx.workers, len(items)), maxtasksperchild=1) as pool:
            oks = pool.map(_confirm_one, items, 1)
        bad = [k for (k, _, _), ok in zip(items, oks) if not ok]
        if bad and len(bad) == len(items):
            v = ctx.bag.v[bad[0]]
            raise HarnessError(f"no violation reproduces from its recorded case, e.g. {v.sig} {v.case}")
        for k in bad:
            total.c["unconfirmed_dropped"] += ctx.bag.v[k].count
            ctx.stats.setdefault("unconfirmed_signatures", []).append(ctx.bag.v[k].sig)
            del ctx.bag.v[k]

    c = total.c
    ctx.stats.update({k: int(v) for k, v in sorted(c.items())})
    ctx.stats.update(
        bfs_max_depth=total.maxdepth,
        classes=len(classes),
        single_source_configs=n_single,
        two_source_configs_explored=n_pairs,
        two_source_configs_total=n_pairs_total,
        longest_chain=max(len(k) for k in chains.values()),
    )
    # ---------------- vacuity guards: every shortcut the exploration is meant to reach
    vacuous: typing.List[str] = []
    must = {
        "lookups": 10000,
        "states": c["configs"] + 1,  # more states than configurations: caches were really populated
        "order_lookups": 1,
        "os_walk_interposed": 1,
        "sibling_lookups": 1,
        "plain_histories": 1,
        "plain_depth2_targets": 1,
        "get_source_shadowing_checked": 1,
        "gen_lookups": 1000,
        "gen_values_from_front_end": 1,
        "test_evaluations": 10000,
        "name_constructions": 1000,
    }
    for k, n in must.items():
        if c[k] < n:
            vacuous.append(f"{k}={c[k]} < {n}")
    if c["replay_not_deterministic"]:
        vacuous.append("a loader state reached by replaying a history is not reproducible; the state search cannot be trusted")
    if total.maxdepth < 2:
        vacuous.append("no history of depth 2 changed the loader state")
    need_outcomes = [("names", "filters", "", "pristine"), ("names", "tests", "is_", "pristine"), ("names", "globals", "", "reserved")]
    for pre in need_outcomes:
        if not any(o[: len(pre)] == pre and str(o[-1]).startswith("raised_RuntimeError") for o in total.outcomes):
            vacuous.append(f"no RuntimeError observed for {pre}")
    for coll in ("filters", "tests", "globals"):
        if ("names", coll, "", "fresh", "added") not in total.outcomes:
            vacuous.append(f"fresh {coll} name never added")
    for fam in ("type", "attribute"):
        for exp in (True, False):
            if not any(o[0] == "test" and o[1] == fam and o[3] is exp for o in total.outcomes):
                vacuous.append(f"no {fam} test case with expected {exp}")
    for src in ("user", "pkg", "none"):
        if not any(o[0] == "cold" and o[3] == src for o in total.outcomes):
            vacuous.append(f"no cold lookup answered from '{src}'")
    if vacuous:
        if not ctx.bag.v:  # confirmed violations stand on their own; without any, a vacuous run must not pass
            raise HarnessError("vacuous exploration: " + "; ".join(vacuous))
        for m in vacuous:
            ctx.cap("diversity guard not met (violations reported anyway): " + m)

    # samples: cases this run really executed, taken from the job lists
    j_deep = next((j for j in res_jobs if j[0][0] == "both" and j[0][1] == "FIND_ALL" and j[2] and j[0][2] and j[0][3]), None)
    j_noisy = next((j for j in res_jobs if j[0][4] == "noisy" and j[3] and len(j[0][2]) >= 2), None)
    ctx.samples = []
    if j_deep is not None:
        ctx.samples.append(_res_case(j_deep[0], j_deep[2][0], [classes[-1].__name__, classes[1].__name__]))
    if j_noisy is not None:
        ctx.samples.append(_res_case(j_noisy[0], j_noisy[1][0], order="hash"))
    ctx.samples.append(dict(gen_jobs[len(gen_jobs) // 2], target="Namespace"))
    ctx.samples.append({"part": "tests", "source": "c", "test": "padding", "test_class": "PaddingField", "value": "mock_attribute", "cls": "Field", "data_type": "VoidType"})
    ctx.samples.append({"part": "names", "lang": "cpp", "generator": "DSDLCodeGenerator", "collection": "filters", "name": "indent", "variant": "filter_", "role": "pristine"})
    evaluations = c["transitions"] + c["plain_histories"] + c["order_lookups"] + c["sibling_lookups"] + c["gen_lookups"] + c["test_evaluations"] + c["name_constructions"] + c["configs"] * len(classes)
    cov = {
        "states": int(c["states"]),
        "transitions": int(c["transitions"] + c["plain_histories"]),
        "traces_validated_against_impl": int(c["transitions"] + c["plain_histories"]),
        "evaluations": int(evaluations),
        "distinct_nontrivial": int(c["nontrivial_transitions"] + c["nontrivial_tests"] + c["nontrivial_names"]),
        "distinct_outcomes": len(total.outcomes),
        "rule": "state = (loader configuration, snapshot of all mutable containers of the loader instance/class/module); "
        "transition = one real type_to_template call on a fresh loader after replaying the state's history (BFS to the "
        "fixpoint) or after a plain history of <=2 lookups; non-trivial = (configuration, non-empty history, class) whose "
        "answer is an ancestor's template, + (test, value) pairs expected True, + rejected/replaced name additions",
        "bound_completed": f"{len(classes)} classes; single-source configs: all {len(single)} chain subsets x user/pkg x "
        f"2 policies x 2 layouts x 3 listing orders (+{len(beyond_sets)} beyond-Any sets); two-source configs: "
        f"{n_pairs}/{n_pairs_total} (U,B,policy); histories: BFS to fixpoint (max depth {total.maxdepth}), plain <=2 for "
        "single-source (quick: core+slice) and for two-source chains of length <=4, plain <=1 otherwise; "
        f"{c['generators']} real generators; {c['test_evaluations']} test evaluations; {c['name_constructions']} name additions",
        "exhaustive": bool(ctx.thorough),
    }
    return ctx.finish(
        "model_checking",
        cov,
        [
            "state deduplication in the BFS assumes the loader keeps state only in containers of the instance, class or "
            "module (the plain <=2 histories make no such assumption)",
            "the stub built-in package (files <Class>.j2 under <pkg>/templates) stands for nunavut.lang.<x>.templates",
            "only classes that exist in pydsdl 1.25 + nunavut.Namespace (all single inheritance): ties between equally "
            "near ancestors do not occur and are accepted either way",
            "two-source lookups accept both 'nearest over the union' and 'user set first, package as fallback'",
        ],
        min_outcomes=("distinct_outcomes", 40),
    )


def _eval_case(case: dict) -> typing.List[typing.Tuple[dict, str]]:
    part = case.get("part")
    if part == "resolution":
        for names in (tuple(case["user"]), tuple(case["builtin"]), tuple(sorted(universe()[1]))):
            realise(names, noisy=True)
        _ensure_path()
        return [(x[0], x[1]) for x in eval_resolution_case(case)]
    if part == "generator":
        for names in (tuple(case["user"] or ()), tuple(case["builtin"])):
            realise(names, noisy=False)
        _ensure_path()
        return [(s, w) for s, w, _ in eval_generator_case(case)]
    if part == "tests":
        return [(s, w) for s, w, _ in eval_tests(case["source"], case)]
    if part == "names":
        return eval_name_case(case)
    raise HarnessError(f"unknown case {case}")


def _confirm_one(item: typing.Tuple[str, dict, dict]) -> bool:
    _ensure_path()
    _, sig, case = item
    return sig in [s for s, _ in _eval_case(case)]


def replay(ctx: Ctx, case: dict) -> int:
    _prepare(ctx)
    found = _eval_case(case)
    for sig, what in found:
        print(f"reproduced: {what}  sig={sig}")
    if not found:
        print("no violation for this case")
    return 1 if found else 0
