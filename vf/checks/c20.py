"""
C20 - generated HTML documentation is well-formed, escaped and internally linked (bounded exhaustive exploration).

Enumerated space (every element is one real run of the html target of the working tree, in-process):

  A  doc text     every distinct string obtained by concatenating <= 3 tokens of TOKENS, placed at one of 7 doc-comment
                  positions (type header, field, constant, namespace doc `_`, service request header, service response
                  header, union header) of a small host namespace; all other comments are plain words.
  B  doc x graph  every 1-token string (+ a few fixed combinations) at every doc slot of 10 type graphs (flat, nested
                  composite, arrays of composites, union, service, namespaces to depth 3, cross-root reference generated
                  into one output directory / into separate ones, deprecated + fixed port-id).
  C  links        referrer at namespace depth 1..3 x target at depth 1..3 in the same branch / another branch / another
                  root (one output directory and separate ones) x 6 kinds of reference: 33 graphs holding all six
                  kinds at once (core) and the 198 graphs with a single reference each (quick: seed slice); plus
                  namespace pairs where one full name is a string prefix of the other (siblings ra.p/ra.pq at depth 2
                  and 3, roots ra/rab, same and separate output directories, both directions of reference): 12 graphs
                  with all six kinds (core) and 72 single-reference graphs (quick: seed slice).
  D  names        identifier shapes at type / field / constant / namespace position, and the shapes that alias under the
                  generator's id scheme ('.' -> '_', '_sidebar' suffix, ids fixed by the template).
                  D2: every identifier shape (those of D plus snake_case / mixed-case / digit shapes) in the full name
                  of a SERVICE - short name (namespace depth 1..3), enclosing namespace (depth 2 and 3), root namespace -
                  and as attribute names of both service sections, with message and service referrers on other pages.
  E  constants    constant expressions of every primitive kind incl. character literals '<' '&' '"'.
  F  attr counts  number of attributes of one composite (fields, constants, padding counted together): 0..12 and the
                  neighbours of every power of two / round number up to 257 x 3 compositions (fields only, constants
                  only, fields+constants+padding; quick: the mixed composition up to 129 and the pure ones up to 33 and
                  63..65 are the core, the rest the seed slice); each graph holds a structure, a union, a service (both
                  sections), a service with a union request, all with exactly that many attributes, and referrers in
                  another namespace that expand them as nested field, fixed / variable array element, service field and
                  one level deeper (so the count also occurs in nested expansions on other pages).
  G  population   1..33 types in one namespace, 1..17 versions of one type, 1..17 nested namespaces (all referenced from
                  another page), chains of nested composites to depth 10.

  H  deprecated   a @deprecated composite (structure, union, empty, delimited with primitive arrays, a type holding
                  deprecated types two levels deep, fixed port-id, deprecated version next to its successors) at every
                  position a composite can occupy - scalar field, fixed / variable array element, union alternative,
                  service request / response field - with the (necessarily deprecated) referrer in the same namespace,
                  nested below / above the target, in another branch at depth 3, in another root, plus users of the
                  referrers one level up; deprecated services (fixed port-id, union sections, empty sections) and a
                  deprecated chain of depth 5.  Core: 7 targets in the same namespace and struct / holder at all 5
                  placements with all six kinds per graph; the other (target, placement) graphs and the 210
                  single-reference graphs are the seed slice.  Doc strings at 4 slots of a deprecated graph are in B.
  I  page naming  the options that decide what pages are called: namespace file stem (not given, index, plain, with
                  underscore / upper case / digit, dotted index.v2 / index.en / a.b.c) x output extension (not given,
                  .html, .htm, .xhtml, .HTML, .v2.html), over trees with namespaces to depth 3, references to the same /
                  another branch / another root (one output directory and separate ones).  Core: every stem alone,
                  every extension alone, 6 combinations through the API, 4 through the nnvg command line, 5 with
                  separate output directories; the product stem x extension x 6 shapes is the seed slice (1/32).
                  The link oracle lists the output directory: a link is followed to whatever file the run produced.

Oracles (vf.c20_html, written over html.parser events; no nunavut code involved):
  1. strict well-formedness of every generated page (void elements known, every other start tag closed in order, no
     stray end tag, cleanly quoted attributes);
  2. non-interference: the page generated with DSDL text D at a position has exactly the tags / attributes / comments of
     the page generated with a plain word W there, and every text node equals the base text node with W -> D (modulo
     white space): D arrives as character data and can introduce neither an element (marker <xq7>, <script>) nor
     change any other part of the page;
  3. every relative href, resolved against the page's own path, names a generated file that contains the referenced id
     (a linked id that occurs more than once in its page is only counted: the statement does not demand unique ids).
     A reference to a directory means its index.html; in runs configured with a stem / extension (layer I) it means
     the one namespace page the run produced in that directory (counted when that is not index.html).
"""
from __future__ import annotations

import hashlib
import itertools
import json
import os
import pathlib
import re
import shutil
import typing

from vf.c20_html import Page, compare, href_class, href_form, is_type_page, namespace_pages, parse_page, resolve, same_events
from vf.core import Bag, Ctx, HarnessError

# ---------------------------------------------------------------------------------------------- alphabet
EOL = "\\\n"  # a backslash at the end of a comment line (the text continues on the next comment line)
TOKENS = [
    "ok",
    "<",
    ">",
    "&",
    '"',
    "'",
    EOL,
    "*/",
    '"""',
    "</pre>",
    "<xq7 a=1>",
    "<script>xq7s(1)</script>",
    "-->",
    "<!--",
    "&amp;",
    "é→",
]
MARKER_ELEMENTS = ("xq7",)
B_EXTRA_DOCS = ["<ok>", "</pre><xq7 a=1>", "<!--ok-->", "&lt;xq7&gt;", "ok" + EOL + "<xq7 a=1>"]
B_CORE_DOCS = ["<xq7 a=1>", "</pre>", "&amp;", "<script>xq7s(1)</script>"]
SPECIAL = re.compile(r"[<>&\"']")


def doc_of(tokens: typing.Sequence[str]) -> str:
    s = "".join(tokens)
    return s[:-1] if s.endswith("\n") else s  # a final backslash simply ends the last line


def all_docs(max_tokens: int) -> typing.List[typing.Tuple[int, str]]:
    """[(number of tokens of the shortest construction, doc)] - distinct strings, deterministic order."""
    seen: typing.Dict[str, int] = {}
    for n in range(1, max_tokens + 1):
        for t in itertools.product(TOKENS, repeat=n):
            d = doc_of(t)
            if d not in seen:
                seen[d] = n
    return [(n, d) for d, n in seen.items()]


# ---------------------------------------------------------------------------------------------- DSDL writers
def H(doc: typing.Optional[str]) -> str:
    """Header comment block (type header / response header); '' when there is no doc."""
    if doc is None:
        return ""
    return "".join("# " + line + "\n" for line in doc.split("\n")) + "\n"


def A(stmt: str, doc: typing.Optional[str]) -> str:
    """An attribute statement with a trailing doc comment that continues on following comment lines."""
    if doc is None:
        return stmt + "\n"
    lines = doc.split("\n")
    return stmt + "  # " + lines[0] + "\n" + "".join("# " + line + "\n" for line in lines[1:]) + "\n"


class Slot(typing.NamedTuple):
    position: str  # classification used in signatures: type_header | service_header | response_header |
    #                namespace_doc | field | constant
    type_name: str  # full name of the composite the doc belongs to
    section: typing.Optional[str]  # None | 'request' | 'response'
    attr: typing.Optional[str]  # attribute name ('' = first padding field) or None for the header


class Graph(typing.NamedTuple):
    name: str
    roots: typing.Tuple[str, ...]  # root namespaces; every one is generated
    mode: str  # 'same' = one output directory, 'separate' = one output directory per root
    slots: typing.Dict[str, Slot]
    build: typing.Callable[[typing.Dict[str, typing.Optional[str]]], typing.Dict[str, str]]


class Host(typing.NamedTuple):
    """Layer A: a minimal namespace `h.<comp>` that displays one doc position; many of them share one generator run."""

    name: str
    slot: Slot  # type_name relative to h.<comp>
    build: typing.Callable[[str, str, str], typing.Dict[str, str]]  # (doc, directory prefix, dotted prefix) -> files


IN = "r/In.1.0.dsdl"
BASE_COMP = "cqbase"


def _in_type(d: dict) -> str:
    return H(d.get("in_type")) + A("uint8 y", d.get("in_field")) + A("bool KB = true", d.get("in_const")) + "@sealed\n"


IN_SLOTS = {
    "in_type": Slot("type_header", "r.In", None, None),
    "in_field": Slot("field", "r.In", None, "y"),
    "in_const": Slot("constant", "r.In", None, "KB"),
}


def _hosts() -> typing.Dict[str, Host]:
    hs = [
        Host(
            "type",
            Slot("type_header", "T", None, None),
            lambda doc, p, q: {
                f"{p}/T.1.0.dsdl": H(doc) + "uint8 x\n@sealed\n",
                f"{p}/User.1.0.dsdl": f"{q}.T.1.0 t\n{q}.T.1.0[2] ta\n@sealed\n",
            },
        ),
        Host("field", Slot("field", "T", None, "x"), lambda doc, p, q: {f"{p}/T.1.0.dsdl": A("uint8 x", doc) + "@sealed\n"}),
        Host(
            "constant",
            Slot("constant", "T", None, "K"),
            lambda doc, p, q: {f"{p}/T.1.0.dsdl": "uint8 x\n" + A("uint8 K = 1", doc) + "@sealed\n"},
        ),
        Host(
            "namespace",
            Slot("namespace_doc", "n._", None, None),
            lambda doc, p, q: {f"{p}/n/_.0.1.dsdl": H(doc) + "@sealed\n", f"{p}/n/V.1.0.dsdl": "uint8 v\n@sealed\n"},
        ),
        Host(
            "service_request",
            Slot("service_header", "S", "request", None),
            lambda doc, p, q: {f"{p}/S.1.0.dsdl": H(doc) + "uint8 q\n@sealed\n---\nuint8 r\n@sealed\n"},
        ),
        Host(
            "service_response",
            Slot("response_header", "S", "response", None),
            lambda doc, p, q: {f"{p}/S.1.0.dsdl": "uint8 q\n@sealed\n---\n" + H(doc) + "uint8 r\n@sealed\n"},
        ),
        Host(
            "union",
            Slot("type_header", "U", None, None),
            lambda doc, p, q: {f"{p}/U.1.0.dsdl": H(doc) + "@union\nuint8 a\nuint16 b\n@sealed\n"},
        ),
    ]
    return {h.name: h for h in hs}


def _b_graphs() -> typing.List[Graph]:
    gs: typing.List[Graph] = []
    gs.append(
        Graph(
            "flat",
            ("r",),
            "same",
            {
                "type": Slot("type_header", "r.T", None, None),
                "field": Slot("field", "r.T", None, "x"),
                "pad": Slot("field", "r.T", None, ""),
                "const": Slot("constant", "r.T", None, "K"),
                "fconst": Slot("constant", "r.T", None, "F"),
            },
            lambda d: {
                "r/T.1.0.dsdl": H(d.get("type"))
                + A("uint8 x", d.get("field"))
                + A("void3", d.get("pad"))
                + A("uint8 K = 1", d.get("const"))
                + A("float32 F = 1.5", d.get("fconst"))
                + "@sealed\n"
            },
        )
    )
    gs.append(
        Graph(
            "nested_composite",
            ("r",),
            "same",
            dict(IN_SLOTS, type=Slot("type_header", "r.T", None, None), field=Slot("field", "r.T", None, "inner")),
            lambda d: {IN: _in_type(d), "r/T.1.0.dsdl": H(d.get("type")) + A("r.In.1.0 inner", d.get("field")) + "@sealed\n"},
        )
    )
    gs.append(
        Graph(
            "arrays_of_composites",
            ("r",),
            "same",
            dict(
                IN_SLOTS,
                fa=Slot("field", "r.T", None, "fa"),
                va=Slot("field", "r.T", None, "va"),
                pa=Slot("field", "r.T", None, "pa"),
            ),
            lambda d: {
                IN: _in_type(d),
                "r/T.1.0.dsdl": A("r.In.1.0[2] fa", d.get("fa"))
                + A("r.In.1.0[<=2] va", d.get("va"))
                + A("uint8[<=3] pa", d.get("pa"))
                + "@sealed\n",
            },
        )
    )
    gs.append(
        Graph(
            "union",
            ("r",),
            "same",
            dict(
                IN_SLOTS,
                type=Slot("type_header", "r.T", None, None),
                alt1=Slot("field", "r.T", None, "a"),
                alt2=Slot("field", "r.T", None, "b"),
            ),
            lambda d: {
                IN: _in_type(d),
                "r/T.1.0.dsdl": H(d.get("type"))
                + "@union\n"
                + A("uint8 a", d.get("alt1"))
                + A("r.In.1.0 b", d.get("alt2"))
                + "@sealed\n",
            },
        )
    )
    gs.append(
        Graph(
            "service",
            ("r",),
            "same",
            dict(
                IN_SLOTS,
                svc=Slot("service_header", "r.S", "request", None),
                req_field=Slot("field", "r.S", "request", "q"),
                req_const=Slot("constant", "r.S", "request", "RC"),
                resp=Slot("response_header", "r.S", "response", None),
                resp_field=Slot("field", "r.S", "response", "r"),
            ),
            lambda d: {
                IN: _in_type(d),
                "r/S.1.0.dsdl": H(d.get("svc"))
                + A("r.In.1.0 q", d.get("req_field"))
                + A("uint8 RC = 2", d.get("req_const"))
                + "@sealed\n---\n"
                + H(d.get("resp"))
                + A("r.In.1.0[<=2] r", d.get("resp_field"))
                + "@sealed\n",
            },
        )
    )
    gs.append(
        Graph(
            "namespaces_depth3",
            ("r",),
            "same",
            {
                "ns1": Slot("namespace_doc", "r._", None, None),
                "ns2": Slot("namespace_doc", "r.x._", None, None),
                "ns3": Slot("namespace_doc", "r.x.y._", None, None),
                "type": Slot("type_header", "r.x.y.T", None, None),
                "field": Slot("field", "r.x.y.T", None, "x"),
            },
            lambda d: {
                "r/_.0.1.dsdl": H(d.get("ns1")) + "@sealed\n",
                "r/x/_.0.1.dsdl": H(d.get("ns2")) + "@sealed\n",
                "r/x/y/_.0.1.dsdl": H(d.get("ns3")) + "@sealed\n",
                "r/x/y/T.1.0.dsdl": H(d.get("type")) + A("uint8 x", d.get("field")) + "@sealed\n",
                "r/x/User.1.0.dsdl": "r.x.y.T.1.0 t\n@sealed\n",
                "r/Top.1.0.dsdl": "r.x.User.1.0 u\n@sealed\n",
            },
        )
    )
    for mode in ("same", "separate"):
        gs.append(
            Graph(
                "cross_root_" + mode,
                ("r", "o"),
                mode,
                {
                    "o_type": Slot("type_header", "o.In", None, None),
                    "o_field": Slot("field", "o.In", None, "y"),
                    "field": Slot("field", "r.T", None, "inner"),
                    "ons": Slot("namespace_doc", "o._", None, None),
                },
                lambda d: {
                    "o/In.1.0.dsdl": H(d.get("o_type")) + A("uint8 y", d.get("o_field")) + "@sealed\n",
                    "o/_.0.1.dsdl": H(d.get("ons")) + "@sealed\n",
                    "r/T.1.0.dsdl": A("o.In.1.0 inner", d.get("field")) + "@sealed\n",
                    "r/x/U.1.0.dsdl": "o.In.1.0 i2\n@sealed\n",
                },
            )
        )
    gs.append(
        Graph(
            "deprecated_and_port_id",
            ("r",),
            "same",
            {
                "dep": Slot("type_header", "r.Old", None, None),
                "port": Slot("type_header", "r.P", None, None),
                "port_field": Slot("field", "r.P", None, "a"),
            },
            lambda d: {
                "r/Old.1.0.dsdl": H(d.get("dep")) + "@deprecated\nuint8 a\n@sealed\n",
                "r/100.P.1.0.dsdl": H(d.get("port")) + A("uint8 a", d.get("port_field")) + "@sealed\n",
                "r/User.1.0.dsdl": "r.P.1.0 p\n@sealed\n",
            },
        )
    )
    gs.append(
        Graph(
            "deprecated_positions",
            ("r",),
            "same",
            {
                "old": Slot("type_header", "r.Old", None, None),
                "holder": Slot("type_header", "r.Holder", None, None),
                "arr": Slot("field", "r.Holder", None, "items"),
                "alt": Slot("field", "r.OldU", None, "b"),
            },
            lambda d: {
                "r/Old.1.0.dsdl": H(d.get("old")) + "@deprecated\nuint8 a\n@sealed\n",
                "r/Holder.1.0.dsdl": H(d.get("holder"))
                + "@deprecated\n"
                + A("r.Old.1.0[2] items", d.get("arr"))
                + "r.Old.1.0[<=2] more\nr.Old.1.0 one\n@sealed\n",
                "r/OldU.1.0.dsdl": "@deprecated\n@union\nuint8 a\n" + A("r.Holder.1.0[<=2] b", d.get("alt")) + "@sealed\n",
                "r/OldS.1.0.dsdl": "@deprecated\nr.OldU.1.0 q\n@sealed\n---\nr.Old.1.0[2] r\n@sealed\n",
            },
        )
    )
    gs.append(
        Graph(
            "empty_and_delimited",
            ("r",),
            "same",
            {"empty": Slot("type_header", "r.E", None, None), "delim": Slot("type_header", "r.D", None, None)},
            lambda d: {
                "r/E.1.0.dsdl": H(d.get("empty")) + "@sealed\n",
                "r/D.1.0.dsdl": H(d.get("delim")) + "uint8 a\n@extent 64\n",
                "r/User.1.0.dsdl": "r.E.1.0 e\nr.D.1.0[<=2] d\n@sealed\n",
            },
        )
    )
    return gs


HOSTS = _hosts()
B_GRAPHS = {g.name: g for g in _b_graphs()}


def base_word(slot: str) -> str:
    return "zqw" + hashlib.sha256(slot.encode()).hexdigest()[:6] + "w"


def graph_files(g: Graph, vary: typing.Optional[str], doc: typing.Optional[str]) -> typing.Dict[str, str]:
    d: typing.Dict[str, typing.Optional[str]] = {s: base_word(s) for s in g.slots}
    if vary is not None:
        d[vary] = doc
    return g.build(d)


# -------------------------------------------------------------------------------- link graphs (layer C)
REF_KINDS = ("field", "fixed_array", "var_array", "union_alt", "service_request_field", "service_response_field")


def _ref_body(tgt: str, kind: str) -> str:
    return {
        "field": f"{tgt} g\n@sealed\n",
        "fixed_array": f"{tgt}[2] ga\n@sealed\n",
        "var_array": f"{tgt}[<=2] gv\n@sealed\n",
        "union_alt": f"@union\nuint8 a\n{tgt} b\n@sealed\n",
        "service_request_field": f"{tgt} g\n@sealed\n---\nuint8 r\n@sealed\n",
        "service_response_field": f"uint8 q\n@sealed\n---\n{tgt} g\n@sealed\n",
    }[kind]


def _path_link_case(label: str, ref_path: typing.Sequence[str], tgt_path: typing.Sequence[str], kind: str, mode: str) -> dict:
    tgt = ".".join(tgt_path) + ".G.1.0"
    files = {
        "/".join(tgt_path) + "/G.1.0.dsdl": "uint8 g\n@sealed\n",
        "/".join(ref_path) + "/R.1.0.dsdl": _ref_body(tgt, kind),
    }
    roots = [ref_path[0]] + ([tgt_path[0]] if tgt_path[0] != ref_path[0] else [])
    return {"label": label, "files": files, "roots": roots, "mode": mode}


def link_case(d_ref: int, d_tgt: int, where: str, kind: str, mode: str) -> dict:
    ref_path = ["ra", "p", "q"][:d_ref]
    if where == "same_branch":
        tgt_path = ["ra", "p", "q"][:d_tgt]
    elif where == "other_branch":
        tgt_path = ["ra", "s", "t"][:d_tgt]
    else:
        tgt_path = ["rb", "s", "t"][:d_tgt]
    return _path_link_case(
        f"link:{kind}:ref_depth{d_ref}:target_depth{d_tgt}:{where}:{mode}", ref_path, tgt_path, kind, mode
    )


# Namespaces whose full name is a STRING prefix of another one's (ra.p / ra.pq, ra.s.p / ra.s.pq, roots ra / rab): a
# link computation that decides "the referenced type is on this page" without a '.' boundary goes wrong exactly here.
PREFIX_PAIRS = [
    ("siblings_depth2", ["ra", "p"], ["ra", "pq"], ("same",)),
    ("siblings_depth3", ["ra", "s", "p"], ["ra", "s", "pq"], ("same",)),
    ("roots", ["ra"], ["rab"], ("same", "separate")),
    ("roots_nested", ["ra", "p"], ["rab", "p"], ("same", "separate")),
]


def _prefix_shapes() -> typing.Iterator[typing.Tuple[str, typing.List[str], typing.List[str], str]]:
    for name, short, long_, modes in PREFIX_PAIRS:
        for mode in modes:
            yield f"{name}:short_refs_long:{mode}", short, long_, mode
            yield f"{name}:long_refs_short:{mode}", long_, short, mode


def prefix_link_cases() -> typing.List[dict]:
    return [
        _path_link_case(f"prefixlink:{kind}:{label}", ref, tgt, kind, mode)
        for label, ref, tgt, mode in _prefix_shapes()
        for kind in REF_KINDS
    ]


def _merge_kinds(label: str, cases: typing.Sequence[dict]) -> dict:
    files: typing.Dict[str, str] = {}
    for i, c in enumerate(cases):
        for rel, text in c["files"].items():
            files[rel.replace("/R.1.0.dsdl", f"/R{i}.1.0.dsdl")] = text
    return {"label": label, "files": files, "roots": cases[0]["roots"], "mode": cases[0]["mode"]}


def prefix_link_set_cases() -> typing.List[dict]:
    """One graph per prefix shape holding all six kinds of reference (the quick core of the prefix shapes)."""
    return [
        _merge_kinds(
            f"prefixlinkset:{label}", [_path_link_case("", ref, tgt, kind, mode) for kind in REF_KINDS]
        )
        for label, ref, tgt, mode in _prefix_shapes()
    ]


def link_set_case(d_ref: int, d_tgt: int, where: str, mode: str) -> dict:
    """All six kinds of reference to one target from six referrers in one namespace (one generator run per root)."""
    files: typing.Dict[str, str] = {}
    roots: typing.List[str] = []
    for i, kind in enumerate(REF_KINDS):
        c = link_case(d_ref, d_tgt, where, kind, mode)
        roots = c["roots"]
        for rel, text in c["files"].items():
            files[rel.replace("/R.1.0.dsdl", f"/R{i}.1.0.dsdl")] = text
    return {
        "label": f"linkset:ref_depth{d_ref}:target_depth{d_tgt}:{where}:{mode}",
        "files": files,
        "roots": roots,
        "mode": mode,
    }


def _link_shapes() -> typing.Iterator[typing.Tuple[int, int, str, str]]:
    for d_ref in (1, 2, 3):
        for d_tgt in (1, 2, 3):
            for where in ("same_branch", "other_branch", "cross_root"):
                if where == "other_branch" and d_tgt == 1:
                    continue  # identical to same_branch
                for mode in ("same", "separate") if where == "cross_root" else ("same",):
                    yield d_ref, d_tgt, where, mode


def link_set_cases() -> typing.List[dict]:
    return [link_set_case(*shape) for shape in _link_shapes()]


def link_cases() -> typing.List[dict]:
    return [link_case(d_ref, d_tgt, where, kind, mode) for d_ref, d_tgt, where, mode in _link_shapes() for kind in REF_KINDS]


# -------------------------------------------------------------------------------- names and id aliasing (layer D)
NAMES = ["Struct_", "_x", "a1", "a_b", "if", "NULL", "Request", "sidebar", "x9_", "A__b"]


def name_cases() -> typing.List[dict]:
    out = []
    for n in NAMES:
        out.append({"label": f"name:type:{n}", "files": {f"r/{n}.1.0.dsdl": "uint8 a\n@sealed\n", "r/User.1.0.dsdl": f"r.{n}.1.0 m\n@sealed\n"}, "roots": ["r"], "mode": "same"})
        out.append({"label": f"name:field:{n}", "files": {"r/T.1.0.dsdl": f"uint8 {n}\n@sealed\n"}, "roots": ["r"], "mode": "same"})
        out.append({"label": f"name:constant:{n}", "files": {"r/T.1.0.dsdl": f"uint8 {n} = 1\n@sealed\n"}, "roots": ["r"], "mode": "same"})
        out.append({"label": f"name:composite_field:{n}", "files": {"r/In.1.0.dsdl": "uint8 a\n@sealed\n", "r/T.1.0.dsdl": f"r.In.1.0 {n}\nr.In.1.0[2] {n}2\n@sealed\n"}, "roots": ["r"], "mode": "same"})
        out.append({"label": f"name:namespace:{n}", "files": {f"r/{n}/T.1.0.dsdl": "uint8 a\n@sealed\n", "r/User.1.0.dsdl": f"r.{n}.T.1.0 m\n@sealed\n"}, "roots": ["r"], "mode": "same"})
    # shapes that alias under an id scheme that maps '.' to '_' / appends '_sidebar' / fixes ids in the template
    t = "uint8 a\n@sealed\n"
    out.append({"label": "alias:namespace_vs_type", "files": {"r/B_1_0/X.1.0.dsdl": t, "r/B.1.0.dsdl": t}, "roots": ["r"], "mode": "same"})
    out.append({"label": "alias:type_vs_type", "files": {"r/a_b/C.1.0.dsdl": t, "r/a/b_C.1.0.dsdl": t}, "roots": ["r"], "mode": "same"})
    out.append({"label": "alias:namespace_vs_namespace", "files": {"r/a_b/C.1.0.dsdl": t, "r/a/b/D.1.0.dsdl": t}, "roots": ["r"], "mode": "same"})
    out.append({"label": "alias:sidebar_suffix", "files": {"r/x_sidebar/X.1.0.dsdl": t, "r/x/Y.1.0.dsdl": t}, "roots": ["r"], "mode": "same"})
    out.append({"label": "alias:root_named_sidebar", "files": {"sidebar/X.1.0.dsdl": t}, "roots": ["sidebar"], "mode": "same"})
    out.append({"label": "alias:root_named_search", "files": {"search/X.1.0.dsdl": t}, "roots": ["search"], "mode": "same"})
    out.append({"label": "alias:root_named_namespaceinfo", "files": {"namespaceinfo/X.1.0.dsdl": t}, "roots": ["namespaceinfo"], "mode": "same"})
    out.append({"label": "alias:versions", "files": {"r/A.1.0.dsdl": t, "r/A.1.1.dsdl": t, "r/A.10.0.dsdl": t, "r/A.2.0.dsdl": t, "r/User.1.0.dsdl": "r.A.1.0 a\nr.A.1.0 b\nr.A.1.1 c\nr.A.10.0 d\nr.A.1.0[2] e\nr.A.1.0[<=2] f\nr.A.10.0[2] g\n@sealed\n"}, "roots": ["r"], "mode": "same"})
    return out


# ---- services at every name position (layer D2): the Request / Response sections of a service are the only links whose
#      anchor is derived from the *owner* of the linked type, so every identifier shape is also placed in the full name of
#      a service (short name, enclosing namespace at depth 2 and 3, root namespace), together with references to
#      messages of the same namespaces from pages of other namespaces (message referrer and service referrer).
NAMES_D2 = NAMES + ["motor_ctl", "Ab_Cd", "a_1_2", "x_y_z", "mIx9_", "a__"]
_SVC = "uint8 q\n@sealed\n---\nuint8 r\n@sealed\n"
_MSG = "uint8 a\n@sealed\n"


def service_name_cases() -> typing.List[dict]:
    out = []
    for n in NAMES_D2:
        # the shape as the short name of a service: in the root namespace and in a nested one
        out.append(
            {
                "label": f"name:service:{n}",
                "files": {f"r/{n}.1.0.dsdl": _SVC, f"r/x/{n}.1.0.dsdl": _SVC, f"r/x/y/{n}.2.1.dsdl": _SVC},
                "roots": ["r"],
                "mode": "same",
            }
        )
        # the shape as a namespace component above services and messages; referrers live on other pages
        out.append(
            {
                "label": f"name:service_namespace:{n}",
                "files": {
                    f"r/{n}/S.1.0.dsdl": _SVC,
                    f"r/{n}/M.1.0.dsdl": _MSG,
                    f"r/{n}/{n}/S.1.0.dsdl": f"r.{n}.M.1.0 q\n@sealed\n---\nr.{n}.{n}.M.1.0[<=2] r\n@sealed\n",
                    f"r/{n}/{n}/M.1.0.dsdl": _MSG,
                    "r/y/User.1.0.dsdl": f"r.{n}.M.1.0 m\nr.{n}.{n}.M.1.0[2] ma\n@sealed\n",
                    "r/y/Call.1.0.dsdl": f"r.{n}.M.1.0 q\n@sealed\n---\n@union\nuint8 a\nr.{n}.{n}.M.1.0 b\n@sealed\n",
                },
                "roots": ["r"],
                "mode": "same",
            }
        )
        # the shape as the root namespace (the first path component of every link) of messages and services
        out.append(
            {
                "label": f"name:root_namespace:{n}",
                "files": {
                    f"{n}/S.1.0.dsdl": _SVC,
                    f"{n}/M.1.0.dsdl": _MSG,
                    f"{n}/x/S.1.0.dsdl": f"{n}.M.1.0 q\n@sealed\n---\n{n}.M.1.0[<=2] r\n@sealed\n",
                    f"{n}/x/User.1.0.dsdl": f"{n}.M.1.0 m\n@sealed\n",
                },
                "roots": [n],
                "mode": "same",
            }
        )
        # the shape as attribute names inside both sections of a service
        out.append(
            {
                "label": f"name:service_attribute:{n}",
                "files": {
                    "r/In.1.0.dsdl": _MSG,
                    "r/S.1.0.dsdl": f"uint8 {n}\nr.In.1.0 {n}2\n@sealed\n---\nuint8 {n} = 1\nr.In.1.0[<=2] {n}2\n@sealed\n",
                },
                "roots": ["r"],
                "mode": "same",
            }
        )
    return out


# -------------------------------------------------------------------------------- attribute counts (layer F)
# Number of attributes (fields, constants and padding counted together) of one composite: every count up to 10 and the
# neighbourhood of every power of two / round number up to 129 (quick core) resp. 257 (seed slice / thorough).
ATTR_COUNTS = (0, 1, 2, 3, 4, 5, 6, 7, 8, 9, 10, 11, 12, 15, 16, 17, 19, 20, 21, 24, 25, 31, 32, 33, 49, 50, 51, 63, 64, 65, 99, 100, 101, 127, 128, 129)
ATTR_COUNTS_THOROUGH = (255, 256, 257)
ATTR_MIXES = ("fields", "constants", "mixed")


def _attr_lines(n: int, mix: str, union: bool) -> typing.Tuple[typing.List[str], int]:
    """n attribute statements (exactly n attributes in PyDSDL's count) and the number of distinct attribute names."""
    lines: typing.List[str] = []
    pads = 0
    for i in range(n):
        if mix == "fields" or (union and i < 2):  # a union needs two variants
            kind = "f"
        elif mix == "constants":
            kind = "k"
        else:
            kind = ("f", "k", "f" if union else "p")[i % 3]
        if kind == "f":
            lines.append(f"bool f{i}")
        elif kind == "k":
            lines.append(f"bool K{i} = true")
        else:
            lines.append("void1")
            pads += 1
    return lines, n - pads + (1 if pads else 0)


def attr_count_case(n: int, mix: str) -> dict:
    """
    One namespace tree in which a structure, a union (n >= 2), both sections of a service and the union request of a
    second service have exactly n attributes each, and pages of another namespace expand them as nested field, as
    element of a fixed / variable array, below a service section, and one level further down.
    """
    s, s_names = _attr_lines(n, mix, False)
    u, u_names = _attr_lines(n, mix, True)
    sb = "".join(x + "\n" for x in s)
    ub = "@union\n" + "".join(x + "\n" for x in u)
    files = {
        "r/a/S.1.0.dsdl": sb + "@sealed\n",
        "r/a/V.1.0.dsdl": sb + "@sealed\n---\n" + sb + "@extent 8 * 1024\n",
        "r/b/User.1.0.dsdl": "r.a.S.1.0 s\nr.a.S.1.0[2] sf\nr.a.S.1.0[<=2] sv\n@sealed\n",
        "r/b/Svc.1.0.dsdl": "r.a.S.1.0 s\n@sealed\n---\nr.a.S.1.0[<=2] sv\n@sealed\n",
        "r/Top.1.0.dsdl": "r.b.User.1.0 u\n@sealed\n",
    }
    expect = [["r.a.S", None, s_names], ["r.a.V", "request", s_names], ["r.a.V", "response", s_names]]
    if n >= 2:
        files["r/a/U.1.0.dsdl"] = ub + "@sealed\n"
        files["r/a/W.1.0.dsdl"] = ub + "@sealed\n---\nuint8 r\n@sealed\n"
        files["r/b/UserU.1.0.dsdl"] = "r.a.U.1.0 u\nr.a.U.1.0[2] uf\nr.a.U.1.0[<=2] uv\n@sealed\n"
        files["r/Top.1.0.dsdl"] = "r.b.User.1.0 u\nr.b.UserU.1.0[<=2] uu\n@sealed\n"
        expect += [["r.a.U", None, u_names], ["r.a.W", "request", u_names]]
    return {
        "label": f"attrcount:{mix}:{n}",
        "files": files,
        "roots": ["r"],
        "mode": "same",
        "expect_attr_names": expect,
        "must_accept": n <= max(ATTR_COUNTS),  # beyond: PyDSDL 1.25 hits its recursion limit on 255 fields in an array
    }


def attr_count_core(n: int, mix: str) -> bool:
    """Quick core: every count in the mixed composition; the pure compositions up to 33 and around 64."""
    return n <= max(ATTR_COUNTS) and (mix == "mixed" or n <= 33 or 63 <= n <= 65)


def attr_count_cases(thorough: bool) -> typing.List[dict]:
    counts = ATTR_COUNTS + ATTR_COUNTS_THOROUGH
    return [attr_count_case(n, mix) for n in counts for mix in ATTR_MIXES if thorough or n <= max(ATTR_COUNTS)]


# -------------------------------------------------------------------------------- population and depth (layer G)
POPULATION = (1, 2, 3, 4, 5, 7, 8, 9, 15, 16, 17, 31, 32, 33)
DEPTHS = (4, 5, 8, 9, 10)


def population_cases() -> typing.List[dict]:
    """k types / k versions of one type / k nested namespaces in one namespace; a chain of k nested composites."""
    out = []
    for k in POPULATION:
        files = {f"r/p/T{i}.1.0.dsdl": _MSG for i in range(k)}
        files["r/User.1.0.dsdl"] = "".join(f"r.p.T{i}.1.0 t{i}\n" for i in range(k)) + "@sealed\n"
        out.append({"label": f"population:types:{k}", "files": files, "roots": ["r"], "mode": "same"})
        if k <= 17:
            files = {f"r/n{i}/T.1.0.dsdl": _MSG for i in range(k)}
            files["r/n0/User.1.0.dsdl"] = "".join(f"r.n{i}.T.1.0 t{i}\n" for i in range(k)) + "@sealed\n"
            out.append({"label": f"population:namespaces:{k}", "files": files, "roots": ["r"], "mode": "same"})
            files = {f"r/T.1.{i}.dsdl": _MSG for i in range(k)}
            files["r/x/User.1.0.dsdl"] = "".join(f"r.T.1.{i} t{i}\n" for i in range(k)) + "@sealed\n"
            out.append({"label": f"population:versions:{k}", "files": files, "roots": ["r"], "mode": "same"})
    for k in DEPTHS:
        files = {"r/c/T0.1.0.dsdl": _MSG}
        for i in range(1, k):
            files[f"r/c/T{i}.1.0.dsdl"] = f"r.c.T{i - 1}.1.0 inner\nr.c.T{i - 1}.1.0[<=2] more\n@sealed\n" if i < 6 else f"r.c.T{i - 1}.1.0 inner\n@sealed\n"
        out.append({"label": f"population:nesting_depth:{k}", "files": files, "roots": ["r"], "mode": "same"})
    return out


# -------------------------------------------------------------------------------- deprecated types (layer H)
# A deprecated composite at every position a composite can occupy.  PyDSDL only lets deprecated types depend on
# deprecated types, so every referrer is deprecated too (the non-deprecated twins are layers B and C).
_DEP = "@deprecated\n"
DEP_TARGETS = ("struct", "union", "empty", "delimited", "holder", "port_id", "versions")
DEP_PLACEMENTS = (
    ("same_namespace", ("r",), ("r",)),
    ("referrer_nested", ("r", "x"), ("r",)),
    ("target_nested", ("r",), ("r", "y")),
    ("other_branch_depth3", ("r", "x", "z"), ("r", "y", "w")),
    ("cross_root", ("r",), ("o",)),
)


def _dep_target_files(kind: str, path: typing.Sequence[str]) -> typing.Tuple[typing.Dict[str, str], str]:
    """Files of the deprecated target `G` below `path` and the versioned name referrers use."""
    d, q = "/".join(path), ".".join(path)
    if kind == "struct":
        return {f"{d}/G.1.0.dsdl": _DEP + "uint8 g\n@sealed\n"}, f"{q}.G.1.0"
    if kind == "union":
        return {f"{d}/G.1.0.dsdl": _DEP + "@union\nuint8 a\nuint16 b\n@sealed\n"}, f"{q}.G.1.0"
    if kind == "empty":
        return {f"{d}/G.1.0.dsdl": _DEP + "@sealed\n"}, f"{q}.G.1.0"
    if kind == "delimited":
        return {f"{d}/G.1.0.dsdl": _DEP + "uint8 g\nuint8[<=3] prim\nbool[4] bits\n@extent 64\n"}, f"{q}.G.1.0"
    if kind == "holder":  # a deprecated type holding deprecated types (two levels below the referrer)
        return (
            {
                f"{d}/Leaf.1.0.dsdl": _DEP + "uint8 x\n@sealed\n",
                f"{d}/Mid.1.0.dsdl": _DEP + f"{q}.Leaf.1.0[<=2] leaves\n@sealed\n",
                f"{d}/G.1.0.dsdl": _DEP
                + f"{q}.Leaf.1.0 one\n{q}.Leaf.1.0[2] two\n{q}.Leaf.1.0[<=2] more\n{q}.Mid.1.0 mid\n{q}.Mid.1.0[2] mids\n"
                + "uint8[<=3] prim\n@sealed\n",
            },
            f"{q}.G.1.0",
        )
    if kind == "port_id":
        return {f"{d}/7000.G.1.0.dsdl": _DEP + "uint8 g\n@sealed\n"}, f"{q}.G.1.0"
    if kind == "versions":  # the deprecated version next to its successors
        return (
            {
                f"{d}/G.1.0.dsdl": _DEP + "uint8 g\n@sealed\n",
                f"{d}/G.1.1.dsdl": "uint8 g\n@sealed\n",
                f"{d}/G.2.0.dsdl": "uint8 g\nuint8 h\n@sealed\n",
                f"{d}/Now.1.0.dsdl": f"{q}.G.1.1 a\n{q}.G.2.0[2] b\n@sealed\n",
            },
            f"{q}.G.1.0",
        )
    raise HarnessError(kind)


def deprecated_case(target: str, placement: str, kinds: typing.Sequence[str]) -> dict:
    _, ref_path, tgt_path = [p for p in DEP_PLACEMENTS if p[0] == placement][0]
    files, tgt = _dep_target_files(target, tgt_path)
    for kind in kinds:
        i = REF_KINDS.index(kind)
        files["/".join(ref_path) + f"/R{i}.1.0.dsdl"] = _DEP + _ref_body(tgt, kind)
    if len(kinds) > 1:
        # one level further up: deprecated users of the (deprecated) referrers, as scalar and as array element
        q = ".".join(ref_path)
        files["/".join(ref_path) + "/Top.1.0.dsdl"] = _DEP + f"{q}.R0.1.0 a\n{q}.R1.1.0[2] b\n{q}.R2.1.0[<=2] c\n{q}.R3.1.0[2] d\n@sealed\n"
    roots = [ref_path[0]] + ([tgt_path[0]] if tgt_path[0] != ref_path[0] else [])
    what = "all" if len(kinds) > 1 else kinds[0]
    return {"label": f"deprecated:{target}:{placement}:{what}", "files": files, "roots": roots, "mode": "same", "must_accept": True}


DEP_CORE_EVERYWHERE = ("struct", "holder")  # quick core: these at every placement, the other targets in the same namespace


def _dep_set_core(target: str, placement: str) -> bool:
    return placement == DEP_PLACEMENTS[0][0] or target in DEP_CORE_EVERYWHERE


def deprecated_set_cases(core: bool = True) -> typing.List[dict]:
    """Graphs with all six reference kinds at once; core=False: the (target, placement) pairs left to the seed slice."""
    out = [deprecated_case(t, p[0], REF_KINDS) for t in DEP_TARGETS for p in DEP_PLACEMENTS if _dep_set_core(t, p[0]) == core]
    if not core:
        return out
    # deprecated services: fixed port-id, union sections, deprecated composites in both sections, a chain of depth 4
    out.append(
        {
            "label": "deprecated:services",
            "files": {
                "r/Old.1.0.dsdl": _DEP + "uint8 a\n@sealed\n",
                "r/s/400.Call.1.0.dsdl": _DEP + "r.Old.1.0 q\nr.Old.1.0[2] qa\n@sealed\n---\nr.Old.1.0[<=2] rv\nr.Old.1.0 r\n@sealed\n",
                "r/s/UCall.1.0.dsdl": _DEP + "@union\nuint8 a\nr.Old.1.0[2] b\n@sealed\n---\n@union\nr.Old.1.0 a\nr.Old.1.0[<=2] b\n@extent 512\n",
                "r/s/Bare.1.0.dsdl": _DEP + "@sealed\n---\n@sealed\n",
            },
            "roots": ["r"],
            "mode": "same",
            "must_accept": True,
        }
    )
    files = {"r/c/D0.1.0.dsdl": _DEP + "uint8 a\n@sealed\n"}
    for i in range(1, 5):
        shape = ("[2]", "[<=2]", "", "[2]")[i - 1]
        files[f"r/c/D{i}.1.0.dsdl"] = _DEP + f"r.c.D{i - 1}.1.0{shape} inner\nr.c.D{i - 1}.1.0 plain\n@sealed\n"
    out.append({"label": "deprecated:chain_depth5", "files": files, "roots": ["r"], "mode": "same", "must_accept": True})
    return out


def deprecated_single_cases() -> typing.List[dict]:
    return [deprecated_case(t, p[0], [k]) for t in DEP_TARGETS for p in DEP_PLACEMENTS for k in REF_KINDS]


# -------------------------------------------------------------------------------- page naming options (layer I)
# The two generator options that decide how pages are called: the namespace file stem (--namespace-output-stem) and the
# output extension (--output-extension).  None = option not given.  Every combination is run over graphs with nested
# namespaces and cross-namespace / cross-root references of all six kinds; the link oracle lists the output directory
# and follows every link to whatever file this run produced.
OPT_STEMS = (None, "index", "docs", "Index_Page", "api_docs9", "index.v2", "index.en", "a.b.c")
OPT_EXTENSIONS = (None, ".html", ".htm", ".xhtml", ".HTML", ".v2.html")
OPT_DIAGONAL = (("docs", ".htm"), ("index.v2", ".v2.html"), ("index.en", ".xhtml"), ("a.b.c", ".HTML"), ("Index_Page", ".v2.html"), ("api_docs9", ".htm"))
OPT_SEPARATE = ((None, None), ("docs", None), ("index.v2", None), (None, ".htm"), ("index.en", ".v2.html"))
OPT_CLI = (("docs", None), ("index.v2", None), (None, "htm"), ("index.en", ".xhtml"))  # nnvg adds the '.' to 'htm'
OPT_MERGED_KINDS = ("field", "var_array", "service_request_field")
I_SLICE = 32
OPT_SHAPES = (
    (1, 1, "same_branch", "same"),
    (3, 1, "same_branch", "same"),
    (1, 3, "same_branch", "same"),
    (2, 3, "other_branch", "same"),
    (2, 2, "cross_root", "same"),
    (3, 2, "cross_root", "separate"),
)


def _opt_label(stem: typing.Optional[str], ext: typing.Optional[str], via: str) -> str:
    return f"stem={'default' if stem is None else stem}:extension={'default' if ext is None else ext}:{via}"


def _stem_class(stem: typing.Optional[str]) -> str:
    return "default" if stem is None else ("dotted" if "." in stem else "plain")


def option_merged_case(stem: typing.Optional[str], ext: typing.Optional[str], via: str) -> dict:
    """All one-output-directory shapes of OPT_SHAPES in one tree (roots ra and rb), all six reference kinds each."""
    files: typing.Dict[str, str] = {}
    for j, shape in enumerate(s for s in OPT_SHAPES if s[3] == "same"):
        for kind in OPT_MERGED_KINDS:
            for rel, text in link_case(shape[0], shape[1], shape[2], kind, "same")["files"].items():
                name = rel.rsplit("/", 1)[-1]
                files[rel if name.startswith("G.") else f"{rel.rsplit('/', 1)[0]}/R{'abcdefgh'[j]}{REF_KINDS.index(kind)}.1.0.dsdl"] = text
    return {
        "label": "options:merged:" + _opt_label(stem, ext, via),
        "files": files,
        "roots": ["ra", "rb"],
        "mode": "same",
        "options": {"stem": stem, "extension": ext, "via": via},
        "must_accept": True,
    }


def option_shape_case(stem: typing.Optional[str], ext: typing.Optional[str], shape: typing.Tuple[int, int, str, str]) -> dict:
    c = link_set_case(*shape)
    return dict(
        c,
        label="options:" + c["label"] + ":" + _opt_label(stem, ext, "api"),
        options={"stem": stem, "extension": ext, "via": "api"},
        must_accept=True,
    )


def option_core_combos() -> typing.List[typing.Tuple[typing.Optional[str], typing.Optional[str]]]:
    """Every stem alone, every extension alone, and the diagonal of combinations."""
    return [(s, None) for s in OPT_STEMS] + [(None, e) for e in OPT_EXTENSIONS if e is not None] + list(OPT_DIAGONAL)


def option_core_cases() -> typing.List[dict]:
    sep = [s for s in OPT_SHAPES if s[3] == "separate"]
    out = [option_merged_case(stem, ext, "api") for stem, ext in option_core_combos()]
    out += [option_shape_case(stem, ext, s) for stem, ext in OPT_SEPARATE for s in sep]
    out += [option_merged_case(stem, ext, "cli") for stem, ext in OPT_CLI]
    return out


def option_slice_cases() -> typing.List[dict]:
    """The full product stem x extension x shape, all six reference kinds per graph."""
    return [option_shape_case(stem, ext, s) for stem in OPT_STEMS for ext in OPT_EXTENSIONS for s in OPT_SHAPES]


# -------------------------------------------------------------------------------- constants (layer E)
CONSTANTS = [
    ("uint8", "'<'"),
    ("uint8", "'&'"),
    ("uint8", "'\"'"),
    ("uint8", "'\\''"),
    ("uint8", "'>'"),
    ("uint8", "0x3C"),
    ("uint8", "255"),
    ("int8", "-128"),
    ("int64", "-9223372036854775808"),
    ("uint64", "18446744073709551615"),
    ("bool", "true"),
    ("bool", "false"),
    ("float32", "1.5"),
    ("float32", "1/3"),
    ("float64", "-1e-320"),
    ("float64", "1e308"),
    ("float16", "-65504.0"),
    ("uint8", "1 + 2 * 3"),
    ("uint16", "0x3C3E"),
    ("uint16", "'<' * 256 + '>'"),  # string arithmetic: PyDSDL rejects it, i.e. no constant can carry more than one character
]
CONST_BASE = {"bool": "false"}


def const_cases() -> typing.List[dict]:
    out = []
    for ty, expr in CONSTANTS:
        mk = lambda e: {"r/T.1.0.dsdl": f"{ty} K = {e}\nuint8 x\n@sealed\n"}  # noqa: E731
        out.append(
            {
                "label": f"constant:{ty}:{expr}",
                "files": mk(expr),
                "base_files": mk(CONST_BASE.get(ty, "0")),
                "roots": ["r"],
                "mode": "same",
                "position": "constant_value",
            }
        )
    return out


# ---------------------------------------------------------------------------------------------- one execution
class Tree(typing.NamedTuple):
    pages: typing.Dict[str, typing.Dict[str, Page]]  # output dir key -> relative path -> parsed page
    raw: typing.Dict[str, typing.Dict[str, str]]  # output dir key -> relative path -> text
    dirs: typing.Dict[str, typing.Set[str]]
    docs: typing.Dict[typing.Tuple[str, typing.Optional[str], typing.Optional[str]], str]  # pydsdl's view of all docs
    rejected: typing.Optional[str]
    # runs configured with a namespace file stem / extension: directory -> the namespace page found in the output
    index: typing.Optional[typing.Dict[str, str]] = None
    facts: typing.Optional[typing.Dict[str, int]] = None  # what PyDSDL sees in the input (vacuity guards)
    naming: typing.Optional[str] = None  # class of the page naming options of the run (signature feature)


_counter = [0]


def _fresh_dir(scratch: pathlib.Path) -> pathlib.Path:
    _counter[0] += 1
    d = scratch / f"w{os.getpid()}" / f"c{_counter[0]}"
    if d.exists():
        shutil.rmtree(d)
    d.mkdir(parents=True)
    return d


def _collect_docs(types: typing.Sequence[typing.Any]) -> dict:
    import pydsdl

    out = {}
    for t in types:
        if isinstance(t, pydsdl.ServiceType):
            sections = [("request", t.request_type), ("response", t.response_type)]
        else:
            sections = [(None, t)]
        for sec, c in sections:
            out[(t.full_name, sec, None)] = c.doc
            seen_pad = False
            for a in c.attributes:
                if a.name == "":
                    if seen_pad:
                        continue
                    seen_pad = True
                out[(t.full_name, sec, a.name)] = a.doc
    return out


def _collect_facts(types: typing.Sequence[typing.Any], facts: typing.Dict[str, int]) -> None:
    """Counts (from PyDSDL's model alone) the uses of deprecated composites, per position."""
    import pydsdl

    def bump(k: str) -> None:
        facts[k] = facts.get(k, 0) + 1

    for t in types:
        if isinstance(t, pydsdl.ServiceType):
            sections = [("service_request", t.request_type), ("service_response", t.response_type)]
        else:
            sections = [("union" if isinstance(t.inner_type, pydsdl.UnionType) else "structure", t)]
        if t.deprecated:
            bump("deprecated_types")
            if isinstance(t, pydsdl.ServiceType):
                bump("deprecated_services")
            if t.has_fixed_port_id:
                bump("deprecated_types_with_fixed_port_id")
        for where, c in sections:
            for a in c.fields_except_padding:
                dt = a.data_type
                shape = "scalar"
                if isinstance(dt, pydsdl.FixedLengthArrayType):
                    shape, dt = "fixed_array", dt.element_type
                elif isinstance(dt, pydsdl.VariableLengthArrayType):
                    shape, dt = "variable_array", dt.element_type
                if isinstance(dt, pydsdl.CompositeType) and dt.deprecated:
                    bump("deprecated_use")
                    bump(f"deprecated_use:{shape}")
                    bump(f"deprecated_use_in:{where}")
                    if any(
                        isinstance(getattr(f.data_type, "element_type", f.data_type), pydsdl.CompositeType)
                        for f in dt.fields_except_padding
                    ):
                        bump("deprecated_use_of_a_type_holding_deprecated_types")


def _cli_argv(src: pathlib.Path, root: str, lookup: typing.Sequence[pathlib.Path], out: pathlib.Path, options: typing.Mapping[str, typing.Any]) -> typing.List[str]:
    argv = ["--target-language", "html", "--experimental-languages", "--outdir", str(out)]
    if options.get("stem") is not None:
        argv += ["--namespace-output-stem", options["stem"]]
    if options.get("extension") is not None:
        argv += ["--output-extension", options["extension"]]
    for d in lookup:
        argv += ["--lookup-dir", str(d)]
    return argv + [str(src / root)]


def generate_tree(
    files: typing.Mapping[str, str],
    roots: typing.Sequence[str],
    mode: str,
    scratch: pathlib.Path,
    options: typing.Optional[typing.Mapping[str, typing.Any]] = None,
) -> Tree:
    """
    Writes the DSDL files, runs the real html generator for every root, parses every generated page.
    options (layer I): {'stem': namespace file stem or None, 'extension': output extension or None, 'via': 'api'|'cli'}.
    """
    import pydsdl

    import vf.gen as gen

    work = _fresh_dir(scratch)
    try:
        src = work / "dsdl"
        gen.write_ns(src, files)
        pages: typing.Dict[str, typing.Dict[str, Page]] = {}
        raw: typing.Dict[str, typing.Dict[str, str]] = {}
        dirs: typing.Dict[str, typing.Set[str]] = {}
        docs: dict = {}
        facts: typing.Dict[str, int] = {}
        for root in roots:
            key = "out" if mode == "same" else "out_" + root
            out = work / key
            lookup = [src / r for r in roots if r != root]
            gen.reset_process_state()
            try:
                types = gen.read_types(src / root, lookup)
            except pydsdl.FrontendError as e:  # the front end decides what is in scope
                return Tree({}, {}, {}, {}, f"{type(e).__name__}: {e}")
            docs.update(_collect_docs([t for t in types if t.root_namespace == root]))
            _collect_facts([t for t in types if t.root_namespace == root], facts)
            if options is None:
                _, paths = gen.generate("html", src / root, out, lookup=lookup, types=types)
            elif options.get("via") == "cli":
                r = gen.cli(_cli_argv(src, root, lookup, out, options))
                if r.rc != 0 or r.exc:
                    raise HarnessError(f"nnvg failed for options {dict(options)}: rc={r.rc} {r.exc} {r.err[-300:]}")
                paths = sorted(p for p in out.rglob("*") if p.is_file())
            else:
                _, paths = gen.generate(
                    "html", src / root, out, lookup=lookup, types=types, stem=options.get("stem"), extension=options.get("extension")
                )
            for p in paths:
                p = pathlib.Path(p)
                rel = p.relative_to(out).as_posix()
                text = p.read_text(encoding="utf-8")
                raw.setdefault(key, {})[rel] = text
                try:
                    pages.setdefault(key, {})[rel] = parse_page(text)
                except Exception as e:  # pylint: disable=broad-except
                    raise HarnessError(f"html.parser failed on {rel}: {type(e).__name__}: {e}") from e
            ds = dirs.setdefault(key, set())
            for rel in raw.get(key, {}):
                parts = rel.split("/")[:-1]
                for i in range(1, len(parts) + 1):
                    ds.add("/".join(parts[:i]))
        index = None
        if options is not None:  # directory -> the namespace page this run actually produced there (union of all roots)
            index = namespace_pages(rel for k in raw for rel in raw[k])
            naming = f"stem_{_stem_class(options.get('stem'))}/extension_{'default' if options.get('extension') is None else 'given'}"
            return Tree(pages, raw, dirs, docs, None, index, facts, naming)
        return Tree(pages, raw, dirs, docs, None, index, facts)
    finally:
        shutil.rmtree(work, ignore_errors=True)


def page_kind(rel: str) -> str:
    return "type_page" if is_type_page(rel) else "namespace_page"


def sink_of(rel: str, ctx: typing.Tuple[str, str]) -> str:
    return f"{page_kind(rel)}/{ctx[0]}/{ctx[1]}"


class Result:
    def __init__(self) -> None:
        self.violations: typing.List[typing.Tuple[dict, str]] = []
        self.stats: typing.Dict[str, int] = {}
        self.outcomes: typing.Set[str] = set()
        self.sinks: typing.Set[str] = set()
        self.notes: typing.Dict[str, str] = {}  # observations outside the statement (statistics with an example)

    def count(self, k: str, n: int = 1) -> None:
        self.stats[k] = self.stats.get(k, 0) + n

    def add(self, sig: dict, what: str) -> None:
        self.violations.append((sig, what))
        self.outcomes.add(json.dumps(sig, sort_keys=True))


def check_tree_standalone(tree: Tree, res: Result, due_to_text: typing.Optional[typing.Set[typing.Tuple[str, str]]] = None) -> None:
    """Oracle 1 (well-formedness) and oracle 3 (links, link-target ids) over one generated tree."""
    for key in sorted(tree.pages):
        for rel in sorted(tree.pages[key]):
            page = tree.pages[key][rel]
            res.count("pages_checked")
            if page.size == 0:
                res.count("empty_pages")
            if due_to_text is not None and (key, rel) in due_to_text:
                if page.errors:
                    res.count("pages_malformed_by_dsdl_text")
                continue  # already attributed to the DSDL text at the varied position
            for cls, detail in sorted(set(page.errors)):
                res.add(
                    {"kind": "malformed_page", "page": page_kind(rel), "error": cls},
                    f"{rel}: not well-formed: {detail}",
                )
            if not page.errors:
                res.count("pages_well_formed")
            # ---- links
            id_count: typing.Dict[str, typing.List[str]] = {}
            for i, d in page.ids:
                id_count.setdefault(i, []).append(d)
            depth = rel.count("/")
            for tag, href, desc in page.hrefs:
                cls = href_class(href)
                if tag != "a" or cls == "external":
                    res.count("hrefs_external_or_not_anchor")
                    continue
                if cls == "server_absolute":
                    res.count("hrefs_server_absolute_not_judged")
                    continue
                res.count("links_checked")
                res.count("links_checked_" + href_form(href))
                # a reference that names a directory means that directory's index.html and nothing else: "a page the
                # generator actually produces" is a file of the output tree (with another namespace file stem / extension
                # there is no index.html, so a directory reference is a dangling link)
                target, frag = resolve(rel, href, tree.dirs.get(key, set()), None)
                if tree.index is not None and target is not None and "#" in href and href_form(href) != "fragment_only":
                    if not href.partition("#")[0].endswith("/"):
                        res.count("links_naming_a_page_file")
                root_of_page = rel.split("/", 1)[0]
                where = "nested_namespace_page" if depth > 1 else "root_namespace_page"
                base_sig = {"kind": "broken_link", "form": href_form(href), "from": where}
                section = bool(re.search(r"_(Request|Response)_\d+_\d+$", frag))
                base_sig["target"] = "service_section" if section else "type_or_namespace"
                if tree.naming is not None:
                    base_sig["page_naming"] = tree.naming
                if target is None:
                    res.add(dict(base_sig, reason="leaves_output_root"), f"{rel}: href {href!r} leaves the output directory")
                    continue
                base_sig["root"] = "same_root" if target.split("/", 1)[0] == root_of_page else "other_root"
                tkey = key if target in tree.pages.get(key, {}) else None
                if tkey is None:
                    for k2 in sorted(tree.pages):
                        if target in tree.pages[k2]:
                            tkey = k2
                            res.count("links_into_other_output_dir")
                            break
                if tkey is None:
                    res.add(
                        dict(base_sig, reason="no_such_file"),
                        f"{rel}: href {href!r} resolves to {target!r} which the generator did not produce",
                    )
                    continue
                tpage = tree.pages[tkey][target]
                if frag:
                    n = sum(1 for i, _ in tpage.ids if i == frag)
                    if n == 0:
                        res.add(
                            dict(base_sig, reason="no_such_id"),
                            f"{rel}: href {href!r} -> {target!r} exists but contains no element with id {frag!r}",
                        )
                        continue
                    if n > 1:
                        # Not demanded by the statement (a duplicated id still is an anchor the generator produces):
                        # counted, with one replayable example per kind of collision, never reported.
                        ds = sorted(d for i, d in tpage.ids if i == frag)
                        res.count("links_to_an_id_that_occurs_more_than_once")
                        res.notes.setdefault(
                            "duplicate_id:" + "+".join(ds[:3]),
                            f"{rel}: href {href!r} -> id {frag!r} occurs {n} times in {target!r} ({', '.join(ds)})",
                        )
                res.count("links_resolved")
                res.count("links_resolved_" + href_form(href))
            dup = sum(1 for v in id_count.values() if len(v) > 1)
            if dup:
                res.count("pages_with_duplicate_ids")


def judge_against_base(
    base_pages: typing.Mapping[str, Page],
    base_raw: typing.Mapping[str, str],
    real_pages: typing.Mapping[str, Page],
    subs: typing.Sequence[typing.Tuple[str, str]],
    case: dict,
    res: Result,
) -> typing.Set[str]:
    """
    Oracle 2.  base_pages / real_pages are keyed by the *real* relative path (the caller maps base paths through the
    substitutions).  Returns the real pages whose difference from the base was attributed to the DSDL text.
    """
    word, doc, position = case.get("word"), case.get("doc"), case.get("position", "?")
    with_text = word is not None
    due: typing.Set[str] = set()
    reached = 0
    if sorted(base_pages) != sorted(real_pages):
        res.add(
            {"kind": "file_set_depends_on_dsdl_text", "position": position},
            f"{case['label']}: generated files differ from the base run: {sorted(set(base_pages) ^ set(real_pages))}",
        )
    for rel in sorted(set(base_pages) & set(real_pages)):
        b, r = base_pages[rel], real_pages[rel]
        if word is not None:
            for e in b.events:
                if e.kind == "T" and not e.raw and word in e.name:
                    reached += 1
                    res.sinks.add(f"{position}@{sink_of(rel, e.ctx)}")
        divs = compare(b, r, subs, with_text)
        new_elems = sorted(
            {e.name for e in r.events if e.kind == "S" and e.name in MARKER_ELEMENTS}
            | ({"script"} if sum(e.kind == "S" and e.name == "script" for e in r.events) > sum(e.kind == "S" and e.name == "script" for e in b.events) else set())
        )
        if new_elems:
            res.count("pages_with_element_created_from_dsdl_text")
        if not divs:
            continue
        due.add(rel)
        rawsub = False
        if with_text:
            raw = base_raw[rel]
            for old, new in subs:
                raw = raw.replace(old, new)
            rawsub = same_events(parse_page(raw), r)
        seen_sinks = set()
        carriers = [i for i, e in enumerate(b.events) if e.kind == "T" and not e.raw and word is not None and word in e.name]
        for dv in divs:
            # the sink is the place where the base page displays the text: the last such text node at or before the
            # divergence (a stray </pre> from the text is only noticed at the template's own </pre> further on)
            before = [i for i in carriers if i <= dv.index]
            sink = sink_of(rel, b.events[before[-1]].ctx if before else dv.ctx)
            if sink in seen_sinks:
                continue
            seen_sinks.add(sink)
            if rawsub:
                kind = "dsdl_text_emitted_raw"
            elif dv.effect == "markup":
                kind = "dsdl_text_changes_markup"
            else:
                kind = "dsdl_text_altered"
            extra = ""
            if r.errors and not b.errors:
                extra += f"; page no longer well-formed ({r.errors[0][0]})"
            if new_elems:
                extra += f"; element(s) {new_elems} created from DSDL text"
            shown = doc if doc is not None else case["label"]
            res.add(
                {"kind": kind, "position": position, "sink": sink},
                f"{case['label']}: DSDL text {shown!r} in {rel}: {dv.detail}{extra}",
            )
    if word is not None:
        res.count("sinks_reached", reached)
    return due


def _check_doc_seen(tree: Tree, case: dict) -> None:
    if case.get("doc") is None:
        return
    have = tree.docs.get(tuple(case["slot_key"]))  # type: ignore[arg-type]
    if have != case["doc"]:
        raise HarnessError(f"PyDSDL sees doc {have!r} where the case wrote {case['doc']!r} ({case['label']})")


def _subtree(tree: Tree, key: str, prefix: str) -> typing.Tuple[typing.Dict[str, Page], typing.Dict[str, str]]:
    pages = {rel: p for rel, p in tree.pages.get(key, {}).items() if rel.startswith(prefix)}
    raw = {rel: t for rel, t in tree.raw.get(key, {}).items() if rel.startswith(prefix)}
    return pages, raw


def judge_paired(tree: Tree, case: dict, res: Result) -> None:
    """Layer A: pages below h/<comp>/ against the pages below h/<base comp>/ of the same generator run."""
    base_comp, comp = case["pair"]
    _check_doc_seen(tree, case)
    root = case["roots"][0]
    bp, braw = _subtree(tree, "out", f"{root}/{base_comp}/")
    rp, _ = _subtree(tree, "out", f"{root}/{comp}/")
    if not bp or not rp:
        raise HarnessError(f"no pages below {root}/{base_comp}/ or {root}/{comp}/ ({case['label']})")
    mapped = {rel.replace(base_comp, comp): p for rel, p in bp.items()}
    mapped_raw = {rel.replace(base_comp, comp): t for rel, t in braw.items()}
    subs = [(base_comp, comp), (case["word"], case["doc"])]
    res.count("cases")
    res.count("pages_checked", len(rp))
    due = judge_against_base(mapped, mapped_raw, rp, subs, case, res)
    for rel in sorted(rp):
        if rel in due:
            if rp[rel].errors:
                res.count("pages_malformed_by_dsdl_text")
            continue
        for cls, detail in sorted(set(rp[rel].errors)):
            res.add({"kind": "malformed_page", "page": page_kind(rel), "error": cls}, f"{rel}: not well-formed: {detail}")
        if not rp[rel].errors:
            res.count("pages_well_formed")
    _close_doc_case(case, res)


def _close_doc_case(case: dict, res: Result) -> None:
    displayed = bool(res.stats.get("sinks_reached")) or case.get("word") is None
    if not displayed:
        res.count("cases_where_text_is_not_displayed")
    if not res.violations:
        doc = case.get("doc")
        need = "constant" if doc is None else ("needs_escaping" if SPECIAL.search(doc) else "plain")
        res.outcomes.add(("inert:displayed:" if displayed else "inert:not_displayed:") + need)


def eval_case(case: dict, scratch: pathlib.Path, base_cache: typing.Optional[dict] = None) -> Result:
    """
    case: label, files, roots, mode, and one of
      - nothing else: standalone oracles (1, 3) on the generated tree;
      - base_files [, word, doc, position, slot_key]: a second generator run on base_files is the reference for oracle 2;
      - pair=[base_comp, comp], word, doc, position, slot_key: one run, h/<comp>/ is judged against h/<base_comp>/.
    """
    res = Result()
    tree = generate_tree(case["files"], case["roots"], case["mode"], scratch, case.get("options"))
    for k, v in (tree.facts or {}).items():
        res.count("input:" + k, v)
    if tree.rejected is not None:
        if case.get("must_accept"):
            raise HarnessError(f"PyDSDL rejects a namespace the space relies on ({case['label']}): {tree.rejected[:300]}")
        res.count("rejected_by_pydsdl")
        res.outcomes.add("rejected")
        return res
    if "pair" in case:
        judge_paired(tree, case, res)
        return res
    res.count("cases")
    for full_name, sec, want in case.get("expect_attr_names", ()):
        have = sum(1 for (t, s, a) in tree.docs if t == full_name and s == sec and a is not None)
        if have != want:
            raise HarnessError(f"PyDSDL sees {have} attribute names in {full_name}/{sec}, the case wrote {want} ({case['label']})")
        res.count("attribute_count_sections")
    base_files = case.get("base_files")
    if base_files is None:
        check_tree_standalone(tree, res)
        opts = case.get("options")
        if opts is not None:
            n = res.stats.get("links_checked_page_and_fragment", 0)
            res.count("links_checked_with_stem:" + _stem_class(opts.get("stem")), n)
            res.count("links_checked_with_extension:" + ("default" if opts.get("extension") is None else "given"), n)
            res.count("links_checked_with_options_via:" + str(opts.get("via")), n)
            if any(not v.endswith("/index.html") for v in (tree.index or {}).values()):
                res.count("option_runs_with_a_namespace_page_not_named_index_html")
            if not tree.index:
                raise HarnessError(f"no namespace page found in the output of {case['label']}")
        if any(sec == "request" for (_, sec, _) in tree.docs):
            res.count("links_checked_in_trees_with_services", res.stats.get("links_checked", 0))
        if not res.violations:
            res.outcomes.add("standalone_ok:links" if res.stats.get("links_resolved") else "standalone_ok:nolinks")
        return res
    _check_doc_seen(tree, case)
    bkey = json.dumps([base_files, case["roots"], case["mode"], case.get("options")], sort_keys=True)
    base = base_cache.get(bkey) if base_cache is not None else None
    if base is None:
        base = generate_tree(base_files, case["roots"], case["mode"], scratch, case.get("options"))
        if base.rejected is not None:
            raise HarnessError(f"base namespace rejected by PyDSDL: {base.rejected}")
        if base_cache is not None:
            base_cache.clear()
            base_cache[bkey] = base
    subs = [(case["word"], case["doc"])] if case.get("word") is not None else []
    due: typing.Set[typing.Tuple[str, str]] = set()
    for key in sorted(set(base.pages) | set(tree.pages)):
        d = judge_against_base(base.pages.get(key, {}), base.raw.get(key, {}), tree.pages.get(key, {}), subs, case, res)
        due |= {(key, rel) for rel in d}
    check_tree_standalone(tree, res, due)
    _close_doc_case(case, res)
    return res


# ---------------------------------------------------------------------------------------------- jobs
def _doc_case(g: Graph, slot: str, doc: str) -> dict:
    s = g.slots[slot]
    return {
        "label": f"{g.name}:{slot}",
        "files": graph_files(g, slot, doc),
        "base_files": graph_files(g, None, None),
        "roots": list(g.roots),
        "mode": g.mode,
        "word": base_word(slot),
        "doc": doc,
        "position": s.position,
        "slot_key": [s.type_name, s.section, s.attr],
    }


def comp_of(doc: str) -> str:
    return "cq" + hashlib.sha256(doc.encode("utf-8")).hexdigest()[:8]


def host_case(h: Host, doc: str) -> dict:
    """A self-contained (replayable) layer-A case: the base namespace and the namespace under test, one run."""
    comp = comp_of(doc)
    word = base_word(h.name)
    files = dict(h.build(word, f"h/{BASE_COMP}", f"h.{BASE_COMP}"))
    files.update(h.build(doc, f"h/{comp}", f"h.{comp}"))
    return {
        "label": f"host_{h.name}",
        "files": files,
        "roots": ["h"],
        "mode": "same",
        "pair": [BASE_COMP, comp],
        "word": word,
        "doc": doc,
        "position": h.slot.position,
        "slot_key": [f"h.{comp}.{h.slot.type_name}", h.slot.section, h.slot.attr],
    }


def eval_host_batch(h: Host, docs: typing.Sequence[str], scratch: pathlib.Path) -> typing.List[typing.Tuple[dict, Result]]:
    """All docs of the batch live in sibling namespaces h.<comp> of ONE generator run; every namespace has its own pages."""
    cases = [host_case(h, d) for d in docs]
    files: typing.Dict[str, str] = {}
    for c in cases:
        files.update(c["files"])
    tree = generate_tree(files, ["h"], "same", scratch)
    if tree.rejected is not None:
        raise HarnessError(f"host batch rejected by PyDSDL: {tree.rejected}")
    out = []
    for c in cases:
        res = Result()
        judge_paired(tree, c, res)
        out.append((c, res))
    return out


def _work(job: dict) -> dict:
    scratch = pathlib.Path(job["scratch"])
    bag = Bag()
    agg = Result()
    cache: dict = {}
    evals = nontrivial = 0
    samples = []
    pairs: typing.List[typing.Tuple[dict, Result]]
    if job["type"] == "host":
        pairs = eval_host_batch(HOSTS[job["host"]], job["docs"], scratch)
        agg.count("generator_runs", 1)
    else:
        if job["type"] == "docs":
            g = B_GRAPHS[job["graph"]]
            cases = [_doc_case(g, slot, d) for slot, ds in job["items"] for d in ds]  # one base run serves all slots
        else:
            cases = job["cases"]
        pairs = [(c, eval_case(c, scratch, cache)) for c in cases]
        agg.count("generator_runs", sum(len(c["roots"]) for c in cases))
    for case, res in pairs:
        evals += 1
        doc = case.get("doc")
        if res.stats.get("rejected_by_pydsdl"):
            pass
        elif doc is not None:
            nontrivial += 1 if SPECIAL.search(doc) else 0
        elif "base_files" in case:
            nontrivial += 1
        elif res.stats.get("links_checked", 0) > 0:
            nontrivial += 1
        for sig, what in res.violations:
            bag.add(sig, _replayable(case), what)
        for k, v in res.stats.items():
            agg.count(k, v)
        agg.outcomes |= res.outcomes
        agg.sinks |= res.sinks
        for k, v in res.notes.items():
            agg.notes.setdefault(k, {"example": v, "case": _replayable(case)})  # type: ignore[arg-type]
        if len(samples) < 1:
            samples.append({"case": case["label"], "doc": doc, "violations": len(res.violations), "stats": dict(res.stats)})
    return {
        "evals": evals,
        "nontrivial": nontrivial,
        "bag": bag,
        "stats": agg.stats,
        "outcomes": agg.outcomes,
        "sinks": agg.sinks,
        "samples": samples,
        "notes": agg.notes,
    }


def _replayable(case: dict) -> dict:
    keep = ("label", "files", "base_files", "pair", "roots", "mode", "word", "doc", "position", "slot_key", "expect_attr_names", "must_accept", "options")
    return {k: case[k] for k in keep if k in case}


HOST_BATCH = 64
A_SLICE = 32  # quick explores 1/32 of the 3-token strings per position (seed-selected)


def run(ctx: Ctx) -> int:
    scratch = str(ctx.scratch)
    jobs: typing.List[dict] = []
    space = {"A_total": 0, "A_explored": 0}

    # ---- layer A: <= 2 tokens is the fixed core, 3 tokens the sliced extension
    docs = all_docs(3)
    core_docs = [d for n, d in docs if n <= 2]
    ext_docs = [d for n, d in docs if n == 3]
    for pos in HOSTS:
        chosen = core_docs + [d for d in ext_docs if ctx.in_slice(f"A|{pos}|{d}", A_SLICE)]
        space["A_total"] += len(docs)
        space["A_explored"] += len(chosen)
        for i in range(0, len(chosen), HOST_BATCH):
            jobs.append({"type": "host", "host": pos, "docs": chosen[i : i + HOST_BATCH], "scratch": scratch})
    # ---- layer B: 8 sharp strings are the fixed core, the other 1-token strings and combinations the sliced extension
    b_all = [d for n, d in docs if n == 1] + B_EXTRA_DOCS
    n_b = n_b_total = 0
    for g in B_GRAPHS.values():
        for slot in g.slots:
            b_docs = [d for d in b_all if d in B_CORE_DOCS or ctx.in_slice(f"B|{g.name}|{slot}|{d}")]
            n_b_total += len(b_all)
            n_b += len(b_docs)
            chunks = [(slot, b_docs[i : i + 11]) for i in range(0, len(b_docs), 11)]
            if ctx.thorough:
                jobs += [{"type": "docs", "graph": g.name, "items": [c], "scratch": scratch} for c in chunks]
            elif jobs and jobs[-1].get("graph") == g.name and len(jobs[-1]["items"]) < 3:
                jobs[-1]["items"] += chunks  # quick: up to 3 slots of a graph share a job (and its base run)
            else:
                jobs.append({"type": "docs", "graph": g.name, "items": chunks, "scratch": scratch})
    # ---- layers C, D, E
    all_single = link_cases() + prefix_link_cases()
    single_links = [c for c in all_single if ctx.in_slice("C|" + c["label"])]
    link_sets = link_set_cases() + prefix_link_set_cases()
    d2_cases = service_name_cases()
    f_all = attr_count_cases(True)
    f_cases = [
        c
        for c in f_all
        if attr_count_core(int(c["label"].split(":")[2]), c["label"].split(":")[1]) or ctx.in_slice("F|" + c["label"])
    ]
    g_cases = population_cases()
    h_core = deprecated_set_cases()
    h_all = deprecated_set_cases(False) + deprecated_single_cases()
    h_cases = h_core + [c for c in h_all if ctx.in_slice("H|" + c["label"])]
    i_core = option_core_cases()
    i_all = option_slice_cases()
    i_cases = i_core + [c for c in i_all if ctx.in_slice("I|" + c["label"], I_SLICE)]
    plain = link_sets + single_links + name_cases() + const_cases() + d2_cases + g_cases + h_cases + i_cases
    for i in range(0, len(plain), 6):
        jobs.append({"type": "cases", "cases": plain[i : i + 6], "scratch": scratch})
    # layer F: the large counts first and one small with one large count per job (even load, deterministic)
    f_sorted = sorted(f_cases, key=lambda c: -len(c["files"]["r/a/S.1.0.dsdl"]))
    half = (len(f_sorted) + 1) // 2
    for i in range(half):
        pair = [f_sorted[i]] + ([f_sorted[len(f_sorted) - 1 - i]] if len(f_sorted) - 1 - i >= half else [])
        jobs.append({"type": "cases", "cases": pair, "scratch": scratch})
    plain = plain + f_cases

    results = ctx.pool_map(_work, jobs)  # ordered: results are merged in job order whatever the scheduling was
    evals = sum(r["evals"] for r in results)
    nontrivial = sum(r["nontrivial"] for r in results)
    outcomes: typing.Set[str] = set()
    sinks: typing.Set[str] = set()
    notes: typing.Dict[str, typing.Any] = {}
    for r in results:
        ctx.bag.merge(r["bag"])
        outcomes |= r["outcomes"]
        sinks |= r["sinks"]
        for k, v in r["notes"].items():
            notes.setdefault(k, v)
        for k, v in r["stats"].items():
            ctx.count(k, v)
    step = max(1, len(results) // 6)
    for r in results[::step]:
        for s in r["samples"]:
            ctx.sample(s)
    ctx.stats.update(
        layer_A_space=space["A_total"],
        layer_A_explored=space["A_explored"],
        layer_B_cases=n_b,
        layer_CDE_cases=len(plain),
        layer_D2_service_name_cases=len(d2_cases),
        layer_F_attribute_count_cases=len(f_cases),
        layer_G_population_cases=len(g_cases),
        layer_H_deprecated_cases=len(h_cases),
        layer_I_page_naming_option_cases=len(i_cases),
        distinct_doc_strings=len(docs),
        sinks=sorted(sinks),
        not_demanded_observations={k: notes[k] for k in sorted(notes)},
    )
    # ---- vacuity guards
    if len(sinks) < 6:
        raise HarnessError(f"vacuous: DSDL text reached only {len(sinks)} distinct (position, sink) pairs: {sorted(sinks)}")
    # (guards look at what was *attempted*, never at what passed: a tree on which every link is broken is a violation)
    for need in (
        "links_checked_fragment_only",
        "links_checked_page_and_fragment",
        "pages_checked",
        "sinks_reached",
        "attribute_count_sections",
        "links_checked_in_trees_with_services",
        # layer H: PyDSDL's own model says that deprecated composites were used at every position
        "input:deprecated_use:scalar",
        "input:deprecated_use:fixed_array",
        "input:deprecated_use:variable_array",
        "input:deprecated_use_in:structure",
        "input:deprecated_use_in:union",
        "input:deprecated_use_in:service_request",
        "input:deprecated_use_in:service_response",
        "input:deprecated_use_of_a_type_holding_deprecated_types",
        "input:deprecated_services",
        "input:deprecated_types_with_fixed_port_id",
        # layer I: links were followed in runs with every class of stem / a non-default extension, API and CLI
        "links_checked_with_stem:default",
        "links_checked_with_stem:plain",
        "links_checked_with_stem:dotted",
        "links_checked_with_extension:given",
        "links_checked_with_options_via:cli",
        "option_runs_with_a_namespace_page_not_named_index_html",
    ):
        if not ctx.stats.get(need):
            raise HarnessError(f"vacuous: statistic {need} is zero")
    positions = {s.split("@")[0] for s in sinks}
    missing = {h.slot.position for h in HOSTS.values()} - positions
    if missing:
        raise HarnessError(f"vacuous: no page displays the text of position(s) {sorted(missing)}")
    cov = {
        "evaluations": evals,
        "distinct_nontrivial": nontrivial,
        "distinct_outcomes": len(outcomes),
        "pages_parsed": ctx.stats.get("pages_checked", 0),
        "links_checked": ctx.stats.get("links_checked", 0),
        "generator_runs": ctx.stats.get("generator_runs", 0),
        "rule": "evaluation = one namespace generated by the real html target with every page of it judged by the "
        "oracles (layer A: up to 64 sibling namespaces share one generator run, each has its own pages); non-trivial "
        "= the varied DSDL text contains one of < > & \" ' , or the tree contains at least one relative hyperlink "
        "that was resolved, or a constant expression is varied",
        "bound_completed": f"A: {space['A_explored']}/{space['A_total']} (doc string x position; all strings of <= 2 "
        f"tokens over {len(TOKENS)} tokens at {len(HOSTS)} positions complete, 3-token strings "
        f"{'complete' if ctx.thorough else f'seed slice 1/{A_SLICE}'}); B: {n_b}/{n_b_total} ({len(B_GRAPHS)} graphs x every doc slot x "
        f"{len(b_all)} strings; {len(B_CORE_DOCS)} core strings complete); C: {len(link_sets)} link graphs with all 6 "
        f"reference kinds complete ({len(prefix_link_set_cases())} of them with prefix-named namespace pairs) + "
        f"{len(single_links)}/{len(all_single)} single-reference link graphs; D: {len(name_cases())} "
        f"name/alias shapes complete + {len(d2_cases)} graphs with the {len(NAMES_D2)} identifier shapes in the full name / the "
        f"attributes of services (short name, namespace at depth 2 and 3, root namespace) complete; E: {len(const_cases())} "
        f"constant expressions complete; F: {len(f_cases)}/{len(f_all)} graphs (attribute counts "
        f"{', '.join(map(str, ATTR_COUNTS + ATTR_COUNTS_THOROUGH))} x {len(ATTR_MIXES)} compositions fields / constants / "
        f"fields+constants+padding; each with structure, union, service sections and nested / array-element expansions on "
        f"other pages; {'complete' if ctx.thorough else 'complete for the mixed composition up to ' + str(max(ATTR_COUNTS)) + ' and for the pure compositions up to 33 and 63..65, the rest seed slice 1/16'}); "
        f"G: {len(g_cases)} population graphs (types / versions / nested namespaces per namespace up to {max(POPULATION)}, "
        f"composite nesting depth up to {max(DEPTHS)}) complete; "
        f"H: {len(h_cases)}/{len(h_core) + len(h_all)} graphs with deprecated composites ({len(DEP_TARGETS)} targets x "
        f"{len(DEP_PLACEMENTS)} placements x 6 reference kinds; {len(h_core)} core graphs with all six kinds, services and "
        f"a chain of depth 5 complete, the rest {'complete' if ctx.thorough else 'seed slice 1/16'}); "
        f"I: {len(i_cases)}/{len(i_core) + len(i_all)} runs with page naming options ({len(OPT_STEMS)} stems x "
        f"{len(OPT_EXTENSIONS)} extensions x {len(OPT_SHAPES)} shapes; {len(i_core)} core runs: every stem, every "
        f"extension, {len(OPT_DIAGONAL)} combinations, {len(OPT_CLI)} through nnvg, {len(OPT_SEPARATE)} with separate output "
        f"directories complete; the product {'complete' if ctx.thorough else f'seed slice 1/{I_SLICE}'})",
        "exhaustive": bool(ctx.thorough),
    }
    return ctx.finish(
        "exploration",
        cov,
        [
            "PyDSDL 1.25 is the trusted front end (its .doc is checked to equal the text the case wrote)",
            "html.parser (CPython 3.12) is the trusted tokenizer; the stack discipline, the comparison and the link resolver are this check's own",
            "a URL that names a directory means that directory's index.html; with separate output directories a "
            "cross-root link is judged against the union of the output roots",
            "server-absolute hrefs (/reg/Namespace.html on type pages) and external URLs are counted, not judged",
            "also in runs with a namespace file stem / extension option a directory URL means index.html (which such a run "
            "does not produce: the link must name the page file); the namespace page of a directory is recognised as the "
            "single generated file there that is not a type page (<name>_<major>_<minor><ext>)",
            "ids are judged only as link targets (existence); a linked id that occurs twice in its page is counted in "
            "stats (links_to_an_id_that_occurs_more_than_once, not_demanded_observations), not reported: the statement "
            "does not demand unique ids",
            "white space inside text nodes is compared after normalisation",
        ],
        min_outcomes=("distinct_outcomes", 3),
    )


def replay(ctx: Ctx, case: dict) -> int:
    res = eval_case(case, ctx.scratch, None)
    for sig, what in res.violations:
        print(f"violation {json.dumps(sig, sort_keys=True)}: {what}")
    for k, v in sorted(res.notes.items()):
        print(f"note (not demanded, not a violation) {k}: {v}")
    print(f"stats: {json.dumps(res.stats, sort_keys=True)}")
    return 1 if res.violations else 0
