"""
C12 - regeneration over existing output is safe for every history of runs (explicit-state model checking, E1 bfs + E5).

STATE        canonical snapshot of a sandbox root that contains the output directory `out/`:
             relative path -> (sha256 of the bytes, st_mode & 0o7777); see vf/c12_fsmodel.py for what is dropped and why.
TRANSITION   one real `nnvg` run (nunavut.cli.main() in-process) with cwd = sandbox root and `--outdir out`, executed in
             a freshly forked child that has dropped CAP_DAC_OVERRIDE/CAP_DAC_READ_SEARCH (uid 0 then obeys mode bits,
             so the `chmod u+w` of CodeGenerator._handle_overwrite is observable).
EVENTS       --file-mode {0o444,0o644,0o600} x --no-overwrite {off,on} x --omit-serialization-support {off,on}
             x --generate-support {as-needed,never,only} x line post-processor {none,trim,max-emptylines 0} = 108.
MODELS       target c, target py (all support files are templates -> _generate_header) and target cpp with one extra
             plain `.hpp` TYPE_SUPPORT resource supplied through the support module's own `list_support_files` seam
             (the only way to reach SupportGenerator._copy_header, incl. its shutil.copy branch: cpp has no default line
             post-processors; this model uses only the 36 `--generate-support only` events, see MODELS).
             Over a two-type namespace ns.A.1.0, ns.sub.B.1.0.
INITIAL      empty `out/`; a ZERO-LENGTH writable file at a type-file / support-file path; one foreign 0o640 file; a 0o444 leftover with foreign content at a type-file path; the same at
             a support-file path.
FAMILIES     (family D = modes {0o000, 0o200, 0o644}: no bits at all / write-only results, no explicit post-processor)
             the events above are family A; family B = all five modes {0o444,0o644,0o600,0o464,0o446} (the last two:
             owner-write clear, group/other write set) with no explicit post-processor; family C = modes {0o444,0o644} x
             {none, --pp-run-program <script>, the same + --pp-run-program-arg}; the script appends a marker line in place.
SEARCH       per family: level-synchronous BFS with deduplication by snapshot; a state is rebuilt by copying its stored
             directory image (content+modes), never by replaying; (state, event) pairs shared by families run once.
             thorough: the whole family, every history of length <= 3, then further levels while one costs <=
             EXTRA_LEVEL_BUDGET runs (depth <= 6); quick: the core events (c/py 18, cpp 14) + the seed-selected 1/16
             slice of the family, length <= 2 - so every quick history is a thorough history.  If a level discovers no
             new state the graph is closed and every history of any length over the family has been covered.
CROSS-CHECKS the clean-run table is computed twice (cold process without template cache / warm process with it) and must
             agree; 1/16 of the stored images and every violation are re-derived by really replaying the recorded history
             from the initial state; the tree under test must not change while the search runs.

INVARIANT on s --e--> s'   (R(e) = files, bytes and modes produced by e on an empty `out/`, computed once per event):
  overwrite allowed:   e must succeed (it succeeds on an empty directory and nothing but regular files left by earlier
                       runs / the initial states is in its way - DESIGN appendix B lists "no chmod" as a must-catch);
                       every file of R(e) has in s' the bytes of R(e) and exactly the requested --file-mode;
                       every file of s that is not in R(e) is unchanged (DESIGN 3/C12 fixes this reading).
  --no-overwrite:      no file of s has another content or mode in s', whatever the outcome; if a file of R(e) existed
                       in s the run must fail (non-zero status or exception); without such a file it must behave like
                       an ordinary run.  Files newly created before the conflict was hit are a statistic.
  Files that appear in s' without being in s or R(e) are a statistic (the statement is silent).
"""
from __future__ import annotations

import collections
import itertools
import os
import pathlib
import typing

from vf import c12_fsmodel as fsm
from vf.core import Ctx, HarnessError, stable_hash

# 0o464 / 0o446: owner-write clear while a group/other write bit is set - "somebody may write" is not "the owner may"
# 0o000 / 0o200: no permission bit at all (a falsy number) / write-only: the owner cannot read the result back
MODES = (0o444, 0o644, 0o600, 0o464, 0o446, 0o000, 0o200)
GEN_SUPPORT = ("as-needed", "never", "only")
# "prog"/"progarg": --pp-run-program <script in the sandbox> [--pp-run-program-arg=tagged]; the script appends one marker
# line to the file it is given (ExternalProgramEditInPlace, runs after the file is written and before SetFileMode)
PPS: typing.Dict[str, typing.Tuple[str, ...]] = {
    "none": (),
    "trim": ("--pp-trim-trailing-whitespace",),
    "limit0": ("--pp-max-emptylines", "0"),
    "prog": ("--pp-run-program", "<PROG>"),
    "progarg": ("--pp-run-program", "<PROG>", "--pp-run-program-arg=tagged"),
}
PROGRAM = """#!/bin/sh
# usage: c12_pp.sh [TAG] FILE  - deterministic in-place edit: append one marker line
if [ $# -ge 2 ]; then tag="$1"; f="$2"; else tag="untagged"; f="$1"; fi
printf '/* c12-pp %s */\n' "$tag" >> "$f"
"""
# The full product (5 modes x 5 post-processors x 12) has 300 events and a graph of several thousand states per model;
# thorough explores four sub-alphabets ("families") completely instead, each to closure.  Quick explores its selection
# of each family separately as well, so that every history quick runs is a history thorough runs.
FAMILIES: typing.Dict[str, typing.Tuple[typing.Tuple[int, ...], typing.Tuple[str, ...]]] = {
    "A-linepp": ((0o444, 0o644, 0o600), ("none", "trim", "limit0")),
    "B-modes": ((0o444, 0o644, 0o600, 0o464, 0o446), ("none",)),
    "D-nobits": ((0o000, 0o200, 0o644), ("none",)),
    "C-program": ((0o444, 0o644), ("none", "prog", "progarg")),
}
MODELS: typing.Dict[str, typing.Dict[str, typing.Any]] = {
    "c": {"lang": "c", "plain": False, "gs": GEN_SUPPORT},
    "py": {"lang": "py", "plain": False, "gs": GEN_SUPPORT},
    # Two independently varying support files make this graph ~10x larger (measured: >1300 states, not closed at depth
    # 3) while type files take the very same path as in the c/py models; the model exists for _copy_header, so its
    # alphabet is restricted to the 36 support-only events (the leftover at a type path is then one more bystander).
    "cpp+plain": {"lang": "cpp", "plain": True, "gs": ("only",)},
}
# zero_*: a ZERO-LENGTH writable file at a path the generator writes (a placeholder, the debris of an aborted run)
INITS = ("empty", "foreign", "ro_leftover_type", "ro_leftover_support", "zero_leftover_type", "zero_leftover_support")

DSDL = {
    "ns/A.1.0.dsdl": "uint8 a\n@sealed\n",
    "ns/sub/B.1.0.dsdl": "ns.A.1.0 x\nfloat32[<=3] f\n@extent 64 * 8\n",
}
# trailing blanks, a TAB, runs of empty lines: both line post-processors change it
PLAIN_RESOURCE = "// c12 plain support resource   \n\n\n\n#define C12_PLAIN 1\t\n\n\n// end\n"
FOREIGN_TEXT = b"foreign bystander - not generated\n"
LEFTOVER_TEXT = b"foreign content left at a path the generator writes\n"


class Event(typing.NamedTuple):
    mode: int
    no_overwrite: bool
    omit: bool
    gs: str
    pp: str

    @property
    def eid(self) -> str:
        return (
            f"m{self.mode:o}-{'noov' if self.no_overwrite else 'ov'}-{'pod' if self.omit else 'ser'}-{self.gs}-{self.pp}"
        )


def all_events() -> typing.List[Event]:
    return [
        Event(m, no, om, gs, pp)
        for m, no, om, gs, pp in itertools.product(MODES, (False, True), (False, True), GEN_SUPPORT, tuple(PPS))
    ]


EVENTS: typing.Dict[str, Event] = {e.eid: e for e in all_events()}


def in_family(e: Event, fam: str) -> bool:
    modes, pps = FAMILIES[fam]
    return e.mode in modes and e.pp in pps


def is_core(e: Event, model: str) -> bool:
    """Quick core (c/py: 18 events, cpp: 14): every code path - type files, support files, both; overwrite gate both
    ways; read-only and writable results; an explicit line post-processor; one mode with owner-write clear but group
    write set; the external program with and without an extra argument."""
    support_only = MODELS[model]["gs"] == ("only",)
    k = (e.mode, e.no_overwrite, e.omit, e.gs, e.pp)
    if e.pp == "none" and e.mode in (0o444, 0o644):
        if support_only:
            return e.gs == "only"
        return (e.omit, e.gs) in ((False, "as-needed"), (True, "as-needed"), (False, "only"))
    if k[0] == 0o000 and e.pp == "none" and not e.omit:  # the mode whose number is falsy: written, overwritten, refused
        return e.gs == ("only" if support_only else "as-needed")
    if support_only:
        return k in (
            (0o644, False, False, "only", "limit0"),
            (0o444, True, True, "only", "limit0"),
            (0o464, False, False, "only", "none"),
            (0o464, False, True, "only", "none"),
            (0o644, False, False, "only", "prog"),
            (0o444, False, True, "only", "progarg"),
        )
    return k in (
        (0o644, False, False, "as-needed", "limit0"),
        (0o444, True, False, "only", "limit0"),
        (0o444, False, True, "as-needed", "limit0"),
        (0o464, False, False, "as-needed", "none"),
        (0o644, False, False, "as-needed", "prog"),
        (0o444, False, False, "only", "progarg"),
    )


EXTRA_LEVEL_BUDGET = 25_000
E_SUPPORT_ONLY = Event(0o644, False, False, "only", "none").eid
E_TYPES_ONLY = Event(0o644, False, False, "never", "none").eid


# ------------------------------------------------------------------------------------------------ process-wide setup
class _G:
    scratch: pathlib.Path
    dsdl: pathlib.Path
    plain: pathlib.Path
    prog: pathlib.Path
    images: pathlib.Path
    work: pathlib.Path
    ready = False
    inject_plain = False
    refs: typing.Dict[typing.Tuple[str, str], dict] = {}
    info: typing.Dict[str, dict] = {}


def _setup(scratch: pathlib.Path) -> None:
    """Imports the working tree, installs clock freeze / bytecode-cache hook / resource seam, writes the DSDL."""
    if _G.ready:
        return
    from vf import gen

    os.umask(0o022)
    _G.scratch = scratch
    _G.dsdl = gen.write_ns(scratch / "dsdl", DSDL)
    res = scratch / "res"
    res.mkdir(parents=True, exist_ok=True)
    _G.plain = res / "c12_plain.hpp"
    with open(_G.plain, "w", encoding="utf-8", newline="") as f:
        f.write(PLAIN_RESOURCE)
    os.chmod(_G.plain, 0o640)
    _G.prog = res / "c12_pp.sh"
    with open(_G.prog, "w", encoding="utf-8", newline="") as f:
        f.write(PROGRAM)
    os.chmod(_G.prog, 0o755)
    _G.images = scratch / "images"
    _G.work = scratch / "work"
    for d in (_G.images, _G.work):
        d.mkdir(exist_ok=True)

    import nunavut.cli  # noqa: F401  pylint: disable=unused-import
    import nunavut.cli.runners  # noqa: F401  pylint: disable=unused-import
    import nunavut.lang.cpp.support as cpp_support
    from nunavut._utilities import ResourceType

    fsm.freeze_clock()
    fsm.install_template_bytecode_cache()

    orig = cpp_support.list_support_files

    def list_support_files(resource_type: typing.Any = ResourceType.ANY) -> typing.Iterator[pathlib.Path]:
        yield from orig(resource_type)
        if _G.inject_plain and resource_type in (ResourceType.ANY, ResourceType.TYPE_SUPPORT):
            yield _G.plain

    cpp_support.list_support_files = list_support_files  # type: ignore
    _G.ready = True


def _argv(model: str, ev: Event) -> typing.List[str]:
    a = ["--target-language", MODELS[model]["lang"], "--outdir", "out", "--file-mode", oct(ev.mode)]
    if MODELS[model]["lang"] == "cpp":
        a.append("--experimental-languages")
    if ev.no_overwrite:
        a.append("--no-overwrite")
    if ev.omit:
        a.append("--omit-serialization-support")
    a += ["--generate-support", ev.gs]
    a += [str(_G.prog) if x == "<PROG>" else x for x in PPS[ev.pp]]
    a.append(str(_G.dsdl / "ns"))
    return a


def _run_event(model: str, ev: Event, root: pathlib.Path) -> typing.Tuple[int, typing.Optional[str], str]:
    from vf import gen

    _G.inject_plain = bool(MODELS[model]["plain"])
    try:
        r = gen.cli(_argv(model, ev), cwd=root)
    finally:
        _G.inject_plain = False
    err = (r.err or "").strip().splitlines()
    return r.rc, r.exc, (err[-1][:200] if err else "")


def _fresh_dir(tag: str) -> pathlib.Path:
    p = _G.work / f"{tag}.{os.getpid()}"
    fsm.rm_tree(p)
    return p


# ------------------------------------------------------------------------------------------------ clean-run reference
def _clean_run(model: str, eid: str, bcc: bool) -> dict:
    """Runs event on an empty `out/` (call inside a forked child)."""
    fsm.set_template_bytecode_cache(bcc)
    root = _fresh_dir("clean")
    os.makedirs(root / "out", mode=0o755)
    try:
        rc, exc, err = _run_event(model, EVENTS[eid], root)
        files = fsm.files_of(fsm.snap(root))
    finally:
        fsm.rm_tree(root)
    return {"rc": rc, "exc": exc, "err": err, "files": files}


def _ref_job(job: typing.Tuple[str, str, bool]) -> dict:
    model, eid, bcc = job
    fsm.drop_dac_caps(_G.scratch)
    return fsm.forked(lambda: _clean_run(model, eid, bcc))


def get_ref(model: str, eid: str) -> dict:
    r = _G.refs.get((model, eid))
    if r is None:
        r = fsm.forked(lambda: _clean_run(model, eid, True))
        _G.refs[(model, eid)] = r
    if r["rc"] != 0 or r["exc"] is not None:
        raise HarnessError(
            f"the reference run of {eid} [{model}] into an empty directory fails ({r['rc']}, {r['exc']}, {r['err']}): "
            "the clean-run output the property compares with does not exist"
        )
    return r


def model_info(model: str) -> dict:
    """File classes and the leftover paths of the initial states, taken from two clean runs."""
    inf = _G.info.get(model)
    if inf is None:
        support = sorted(get_ref(model, E_SUPPORT_ONLY)["files"])
        types = sorted(get_ref(model, E_TYPES_ONLY)["files"])
        if not support or not types or set(support) & set(types):
            raise HarnessError(f"[{model}] cannot classify generated files: support={support} types={types}")
        inf = {"support": set(support), "type": set(types), "leftover_support": support[0], "leftover_type": types[0]}
        _G.info[model] = inf
    return inf


def _cls(model: str, path: str) -> str:
    inf = model_info(model)
    if path in inf["support"]:
        return "support"
    if path in inf["type"]:
        return "type"
    return "foreign"


def build_init(model: str, init: str, root: pathlib.Path) -> None:
    os.makedirs(root / "out", mode=0o755)
    if init == "empty":
        return
    if init == "foreign":
        rel, data, mode = "out/ns/zz_foreign.txt", FOREIGN_TEXT, 0o640
    elif init == "ro_leftover_type":
        rel, data, mode = model_info(model)["leftover_type"], LEFTOVER_TEXT, 0o444
    elif init == "ro_leftover_support":
        rel, data, mode = model_info(model)["leftover_support"], LEFTOVER_TEXT, 0o444
    elif init == "zero_leftover_type":
        rel, data, mode = model_info(model)["leftover_type"], b"", 0o640
    elif init == "zero_leftover_support":
        rel, data, mode = model_info(model)["leftover_support"], b"", 0o640
    else:
        raise HarnessError(f"unknown initial state {init}")
    p = root / rel
    os.makedirs(p.parent, mode=0o755, exist_ok=True)
    with open(p, "wb") as f:
        f.write(data)
    os.chmod(p, mode)


# ------------------------------------------------------------------------------------------------ the invariant
def _pre_kind(pre_f: fsm.Snapshot, p: str) -> str:
    if p not in pre_f:
        return "absent"
    if pre_f[p][1] & 0o200:
        return "rw"
    return "ro_gw" if pre_f[p][1] & 0o022 else "ro"


def _change(pre_f: fsm.Snapshot, post_f: fsm.Snapshot, p: str) -> typing.Optional[str]:
    a, b = pre_f[p], post_f.get(p)
    if b is None:
        return "deleted"
    if a == b:
        return None
    if a[0] != b[0] and a[1] != b[1]:
        return "content+mode"
    return "content" if a[0] != b[0] else "mode"


def evaluate(
    model: str,
    ev: Event,
    pre: fsm.Snapshot,
    post: fsm.Snapshot,
    rc: int,
    exc: typing.Optional[str],
    err: str,
) -> typing.Tuple[tuple, typing.List[typing.Tuple[dict, str]], typing.Dict[str, int]]:
    """-> (outcome class, [(signature, detail)], statistics). Pure function of its arguments and the clean-run table."""
    targets: fsm.Snapshot = get_ref(model, ev.eid)["files"]
    pre_f, post_f = fsm.files_of(pre), fsm.files_of(post)
    ok = rc == 0 and exc is None
    how = "ok" if ok else ("fail:" + (exc.split(":")[0] if exc else f"rc{rc}"))
    existing = [p for p in sorted(targets) if p in pre_f]
    conflict = ev.no_overwrite and bool(existing)
    viols: typing.List[typing.Tuple[dict, str]] = []
    stats: typing.Dict[str, int] = collections.Counter()

    if ev.no_overwrite:
        for p in sorted(pre_f):
            ch = _change(pre_f, post_f, p)
            if ch is not None:
                viols.append(
                    (
                        {"kind": "no_overwrite_changed_existing_file", "model": model, "cls": _cls(model, p), "change": ch},
                        f"--no-overwrite run ({how}) changed existing {p}: {pre_f[p][0][:12]}/{pre_f[p][1]:o} -> "
                        + (f"{post_f[p][0][:12]}/{post_f[p][1]:o}" if p in post_f else "deleted"),
                    )
                )
        if conflict and ok:
            viols.append(
                (
                    {"kind": "no_overwrite_conflict_not_reported", "model": model, "cls": _cls(model, existing[0])},
                    f"--no-overwrite run exits 0 although {existing[0]} (and {len(existing) - 1} more target(s)) existed",
                )
            )
    if not ok and not conflict:
        viols.append(
            (
                {
                    "kind": "run_failed_over_existing_output",
                    "model": model,
                    "no_overwrite": ev.no_overwrite,
                    "how": how,
                    "pre": sorted({f"{_cls(model, p)}:{_pre_kind(pre_f, p)}" for p in existing}),
                },
                f"run fails ({exc or rc}; {err}) although it succeeds on an empty directory and "
                + ("no target exists" if ev.no_overwrite else "overwriting is allowed")
                + f"; existing targets: {[(p, oct(pre_f[p][1])) for p in existing]}",
            )
        )
    if ok and not conflict:
        for p in sorted(targets):
            got = post_f.get(p)
            c, k = _cls(model, p), _pre_kind(pre_f, p)
            if got is None:
                viols.append(
                    (
                        {"kind": "generated_file_missing", "model": model, "cls": c, "pre": k},
                        f"successful run did not leave {p} (a clean run produces it)",
                    )
                )
                continue
            if got[0] != targets[p][0]:
                stale = k != "absent" and got[0] == pre_f[p][0]
                viols.append(
                    (
                        {"kind": "content_differs_from_clean_run", "model": model, "cls": c, "pre": k, "stale": stale},
                        f"{p} (before: {k}) has bytes {got[0][:12]}, a clean run gives {targets[p][0][:12]}"
                        + (" - the old content survived" if stale else ""),
                    )
                )
            if got[1] != ev.mode:
                viols.append(
                    (
                        {"kind": "mode_not_as_requested", "model": model, "cls": c, "pre": k},
                        f"{p} (before: {k}) has mode {got[1]:o}, requested --file-mode {ev.mode:o}",
                    )
                )
        if not ev.no_overwrite:
            for p in sorted(pre_f):
                if p in targets:
                    continue
                ch = _change(pre_f, post_f, p)
                if ch is not None:
                    viols.append(
                        (
                            {"kind": "bystander_changed", "model": model, "cls": _cls(model, p), "change": ch},
                            f"successful run changed {p}, which it does not generate: {ch}",
                        )
                    )
        stats["extra_files_created"] += sum(1 for p in post_f if p not in pre_f and p not in targets)

    created = sum(1 for p in post_f if p not in pre_f)
    if ok:
        if not existing:
            stats["ok_nothing_in_the_way"] += 1
        if any(_pre_kind(pre_f, p) in ("ro", "ro_gw") for p in existing):
            stats["ok_overwrote_read_only"] += 1
        if any(_pre_kind(pre_f, p) == "ro_gw" for p in existing):
            stats["ok_overwrote_owner_ro_but_group_or_other_writable"] += 1
        if ev.pp in ("prog", "progarg") and any(pre_f[p][0] != targets[p][0] for p in existing):
            stats["ok_program_run_over_other_content"] += 1
        if any(_pre_kind(pre_f, p) == "rw" for p in existing):
            stats["ok_overwrote_writable"] += 1
        if any(pre_f[p][0] != targets[p][0] for p in existing):
            stats["ok_replaced_different_content"] += 1
    elif conflict:
        stats["conflict_reported"] += 1
        if created:
            stats["conflict_reported_after_creating_files"] += 1
            stats["files_created_before_conflict"] += created
    if existing:
        stats["nontrivial"] += 1
    outcome = (
        model,
        how,
        "noov" if ev.no_overwrite else "ov",
        tuple(sorted({f"{_cls(model, p)}:{_pre_kind(pre_f, p)}" for p in existing})),
        "partial" if (not ok and created) else "",
    )
    return outcome, viols, dict(stats)


# ------------------------------------------------------------------------------------------------ transitions
def _image(model: str, key: str) -> pathlib.Path:
    return _G.images / model / key


def _transition(model: str, init: str, key: str, history: typing.List[str], eid: str) -> dict:
    """One s --e--> s' on a copy of the stored image of s (runs inside a forked, unprivileged child)."""
    if not fsm.caps_dropped():
        raise HarnessError("transition worker still has CAP_DAC_OVERRIDE")
    fsm.set_template_bytecode_cache(True)
    work = _fresh_dir("t")
    fsm.copy_tree(_image(model, key), work)
    pre = fsm.snap(work)
    if fsm.key_of(pre) != key:
        raise HarnessError(f"[{model}] rebuilt image of state {key} has snapshot {fsm.key_of(pre)}")
    ev = EVENTS[eid]
    rc, exc, err = _run_event(model, ev, work)
    post = fsm.snap(work)
    dst = fsm.key_of(post)
    outcome, viols, stats = evaluate(model, ev, pre, post, rc, exc, err)
    img = _image(model, dst)
    kept = False
    if not img.exists():
        kept = fsm.store_image(work, img)
    if not kept:
        fsm.rm_tree(work)
    case = {"model": model, "init": init, "history": list(history) + [eid]}
    return {
        "eid": eid,
        "dst": dst,
        "outcome": outcome,
        "stats": stats,
        "viols": [(sig, case, f"[{model}] {init} + {' ; '.join(case['history'])}: {detail}") for sig, detail in viols],
    }


def _bfs_job(job: typing.Tuple[str, str, str, typing.List[str], typing.List[str]]) -> typing.List[dict]:
    model, init, key, history, eids = job
    fsm.drop_dac_caps(_G.scratch)
    return [fsm.forked(lambda e=e: _transition(model, init, key, history, e)) for e in eids]


def replay_history(model: str, init: str, history: typing.List[str]) -> dict:
    """Real replay from the initial state, one forked unprivileged child per run. Used for re-execution and --replay."""
    fsm.drop_dac_caps(_G.scratch)
    fsm.set_template_bytecode_cache(True)
    model_info(model)
    for eid in history:
        get_ref(model, eid)
    root = _fresh_dir("replay")
    steps = []
    try:
        build_init(model, init, root)
        for eid in history:

            def step(eid: str = eid) -> dict:
                pre = fsm.snap(root)
                rc, exc, err = _run_event(model, EVENTS[eid], root)
                post = fsm.snap(root)
                outcome, viols, _ = evaluate(model, EVENTS[eid], pre, post, rc, exc, err)
                return {"eid": eid, "rc": rc, "exc": exc, "outcome": outcome, "viols": viols, "dst": fsm.key_of(post)}

            steps.append(fsm.forked(step))
        final = fsm.key_of(fsm.snap(root))
    finally:
        fsm.rm_tree(root)
    return {"steps": steps, "final": final}


def _replay_job(job: typing.Tuple[str, str, typing.List[str]]) -> dict:
    return fsm.forked(lambda: replay_history(*job))


# ------------------------------------------------------------------------------------------------ driver
def _tree_fingerprint() -> str:
    """Templates are read from disk by every run: the tree under test has to stay put while the graph is explored."""
    from vf.core import REPO

    rows = []
    for dirpath, dirnames, filenames in os.walk(REPO / "src" / "nunavut"):
        dirnames[:] = sorted(d for d in dirnames if d != "__pycache__")
        for f in sorted(filenames):
            if f.endswith((".pyc", ".pyo")):
                continue
            st = os.stat(os.path.join(dirpath, f))
            rows.append(f"{dirpath}/{f}:{st.st_size}:{st.st_mtime_ns}")
    return str(stable_hash("\n".join(rows)))


def _check_tree_unchanged(fp: str) -> None:
    if _tree_fingerprint() != fp:
        raise HarnessError("the nunavut tree under test was modified while the check was running; results discarded")


def _chunks(xs: typing.List[str], n: int) -> typing.List[typing.List[str]]:
    return [xs[i : i + n] for i in range(0, len(xs), n)]


def run(ctx: Ctx) -> int:
    tree = _tree_fingerprint()
    _setup(ctx.scratch)
    depth_bound = 3 if ctx.thorough else 2
    models = list(MODELS)
    fams = list(FAMILIES)
    # alphabet of (model, family): thorough = the whole family; quick = core + seed slice of the family
    alph: typing.Dict[typing.Tuple[str, str], typing.List[str]] = {}
    space: typing.Dict[typing.Tuple[str, str], int] = {}
    for m in models:
        for f in fams:
            full = [e for e in all_events() if e.gs in MODELS[m]["gs"] and in_family(e, f)]
            space[(m, f)] = len(full)
            alph[(m, f)] = [e.eid for e in full if is_core(e, m) or ctx.in_slice("C12/event/" + e.eid)]
    used = {m: sorted({e for f in fams for e in alph[(m, f)]}) for m in models}
    universe = {m: len({e.eid for e in all_events() if e.gs in MODELS[m]["gs"] and any(in_family(e, f) for f in fams)}) for m in models}

    # 1. clean-run table: cold (no bytecode cache, pristine process image) ...
    jobs = [(m, e, False) for m in models for e in sorted(set(used[m]) | {E_SUPPORT_ONLY, E_TYPES_ONLY})]
    cold = ctx.pool_map(_ref_job, jobs)
    # ... warm this process up (imports, template bytecode, nunavut's own lru_caches) so that every later fork starts
    # from one and the same warm image, and recompute the table warm: both must agree byte for byte.
    fsm.set_template_bytecode_cache(True)
    for m in models:
        warm_root = _fresh_dir("warm")
        os.makedirs(warm_root / "out", mode=0o755)
        _run_event(m, EVENTS["m644-ov-ser-as-needed-limit0"], warm_root)
        fsm.rm_tree(warm_root)
    if fsm.template_bytecode_cache_size() == 0:
        raise HarnessError("template bytecode cache hook was never used")
    warm = ctx.pool_map(_ref_job, [(m, e, True) for m, e, _ in jobs])
    for (m, e, _), a, b in zip(jobs, cold, warm):
        if a != b:
            diff = sorted(p for p in set(a["files"]) | set(b["files"]) if a["files"].get(p) != b["files"].get(p))
            raise HarnessError(
                f"clean run of {e} [{m}] is not reproducible (cold vs warm process): rc {a['rc']}/{b['rc']}, "
                f"exc {a['exc']}/{b['exc']}, differing files {diff}"
            )
        _G.refs[(m, e)] = a
    for m in models:
        model_info(m)
        for e in used[m]:
            get_ref(m, e)
    # the program events must really differ from the plain ones, in every generated file (else they test nothing)
    for m in models:
        for e in used[m]:
            ev = EVENTS[e]
            if ev.pp in ("prog", "progarg"):
                plain = get_ref(m, ev._replace(pp="none").eid)["files"] if ev._replace(pp="none").eid in used[m] else None
                mine = get_ref(m, e)["files"]
                if plain is not None and any(mine[p][0] == plain[p][0] for p in mine):
                    raise HarnessError(f"vacuous exploration: [{m}] clean run of {e} leaves a generated file that the external program did not edit")

    # 2. initial states
    inits: typing.Dict[str, typing.List[typing.Tuple[str, str]]] = {m: [] for m in models}
    for m in models:
        (_G.images / m).mkdir(exist_ok=True)
        for init in INITS:
            tmp = _fresh_dir("init")
            build_init(m, init, tmp)
            key = fsm.key_of(fsm.snap(tmp))
            if key in [k for k, _ in inits[m]]:
                raise HarnessError(f"[{m}] two initial states coincide ({init})")
            if not fsm.store_image(tmp, _image(m, key)):
                raise HarnessError(f"[{m}] cannot store the image of initial state {init}")
            inits[m].append((key, init))

    # 3. one BFS per family; (state, event) pairs already executed for another family are not executed again
    done: typing.Dict[typing.Tuple[str, str, str], str] = {}  # (model, state, event) -> successor state
    origin: typing.Dict[typing.Tuple[str, str], dict] = {}  # first way a state was reached (any family)
    nontrivial = 0
    outcomes: typing.Dict[tuple, dict] = {}
    totals: typing.Dict[str, int] = collections.Counter()
    edges_per_model: typing.Dict[str, int] = collections.Counter()
    fam_report: typing.Dict[str, dict] = {}
    # thorough: beyond the guaranteed depth the search goes on while a level costs at most EXTRA_LEVEL_BUDGET runs, to
    # find out whether the graph closes (then histories of every length are covered); quick stops at its depth.
    max_depth = 6 if ctx.thorough else depth_bound
    for f in fams:
        seen: typing.Dict[str, typing.Dict[str, dict]] = {m: {} for m in models}
        frontier: typing.List[typing.Tuple[str, str]] = []
        for m in models:
            for key, init in inits[m]:
                seen[m][key] = {"init": init, "history": [], "depth": 0}
                origin.setdefault((m, key), seen[m][key])
                frontier.append((m, key))
        per_level: typing.List[typing.Dict[str, int]] = []
        completed = 0
        while frontier:
            depth = completed + 1
            todo = [(m, key, [e for e in alph[(m, f)] if (m, key, e) not in done]) for m, key in frontier]
            if depth > depth_bound and (depth > max_depth or sum(len(t[2]) for t in todo) > EXTRA_LEVEL_BUDGET):
                break
            bfs_jobs = []
            for m, key, eids in todo:
                st = seen[m][key]
                for ch in _chunks(eids, 9):
                    bfs_jobs.append((m, st["init"], key, st["history"], ch))
            results = ctx.pool_map(_bfs_job, bfs_jobs)
            for (m, init, key, history, _), rs in zip(bfs_jobs, results):
                for r in rs:
                    done[(m, key, r["eid"])] = r["dst"]
                    edges_per_model[m] += 1
                    for k, v in r["stats"].items():
                        totals[k] += v
                    nontrivial += r["stats"].get("nontrivial", 0)
                    if r["outcome"] not in outcomes:
                        outcomes[r["outcome"]] = {"model": m, "init": init, "history": history + [r["eid"]]}
                    for sig, case, what in r["viols"]:
                        ctx.violation(sig, case, what)
            new: typing.List[typing.Tuple[str, str]] = []
            for m, key in frontier:
                st = seen[m][key]
                for e in alph[(m, f)]:
                    dst = done[(m, key, e)]
                    if dst not in seen[m]:
                        seen[m][dst] = {"init": st["init"], "history": st["history"] + [e], "depth": depth}
                        origin.setdefault((m, dst), seen[m][dst])
                        new.append((m, dst))
            _check_tree_unchanged(tree)
            per_level.append({m: sum(1 for mm, _ in new if mm == m) for m in models})
            completed = depth
            frontier = new
        fam_report[f] = {
            "events": {m: f"{len(alph[(m, f)])}/{space[(m, f)]}" for m in models},
            "states": {m: len(seen[m]) for m in models},
            "new_states_per_level": per_level,
            "depth_completed": completed,
            "closed_for": [m for m in models if not any(mm == m for mm, _ in frontier)],
            "unexpanded_frontier": len(frontier),
        }
    transitions = len(done)
    n_states = len(origin)
    closed = all(len(r["closed_for"]) == len(models) for r in fam_report.values())
    completed_min = min(r["depth_completed"] for r in fam_report.values())

    # 4. the stored images must be what the recorded histories really produce (1/16 of the states, stable choice),
    #    and every violation must reappear when its history is replayed for real from the initial state.
    check_states = [mk for mk, st in sorted(origin.items()) if st["history"] and stable_hash("C12/img/" + mk[1]) % 16 == 0]
    reps = ctx.pool_map(_replay_job, [(m, origin[(m, k)]["init"], origin[(m, k)]["history"]) for m, k in check_states])
    _check_tree_unchanged(tree)
    for (m, k), rep in zip(check_states, reps):
        if rep["final"] != k:
            raise HarnessError(
                f"[{m}] state {k} is not what its history {origin[(m, k)]['init']} + {origin[(m, k)]['history']} produces "
                f"({rep['final']}; replayed steps: {[(st['eid'], st['rc'], st['exc'], st['dst']) for st in rep['steps']]}): "
                "execution is not a function of (directory state, event) - transient failure or changing environment"
            )
    vlist = sorted(ctx.bag.v.items())[:60]
    vreps = ctx.pool_map(_replay_job, [(v.case["model"], v.case["init"], v.case["history"]) for _, v in vlist])
    _check_tree_unchanged(tree)
    for (_, v), rep in zip(vlist, vreps):
        again = [sig for sig, _ in rep["steps"][-1]["viols"]]
        if v.sig not in again:
            raise HarnessError(f"violation {v.sig} did not reappear when {v.case} was replayed from its initial state: {again}")

    # 5. vacuity guards + evidence
    need = [
        "ok_overwrote_read_only",
        "ok_overwrote_writable",
        "ok_overwrote_owner_ro_but_group_or_other_writable",
        "ok_program_run_over_other_content",
        "ok_replaced_different_content",
        "conflict_reported",
        "conflict_reported_after_creating_files",
        "ok_nothing_in_the_way",
    ]
    if not ctx.bag.v:
        missing = [k for k in need if not totals.get(k)]
        if missing:
            raise HarnessError(f"vacuous exploration: never observed {missing}")
    by_kind: typing.Dict[tuple, dict] = {}
    for k, v in sorted(outcomes.items(), key=lambda kv: (-len(kv[1]["history"]), str(kv[0]))):
        by_kind.setdefault((k[1], k[2], k[4]), dict(v, outcome=[k[0], k[1], k[2], list(k[3]), k[4]]))
    ctx.samples = [by_kind[k] for k in sorted(by_kind)][:6]
    ctx.stats.update(totals)
    ctx.stats.update(
        events_used={m: f"{len(used[m])}/{universe[m]}" for m in models},
        families=fam_report,
        transitions_per_model=dict(edges_per_model),
        states_per_model={m: sum(1 for mm, _ in origin if mm == m) for m in models},
        clean_runs=2 * len(jobs),
        images_revalidated_by_real_replay=len(check_states),
        violations_reexecuted=len(vlist),
    )
    cov = {
        "states": n_states,
        "transitions": transitions,
        "traces_validated_against_impl": transitions,
        "evaluations": transitions,
        "distinct_nontrivial": nontrivial,
        "distinct_outcomes": len(outcomes),
        "graph_closed": closed,
        "depth_completed": completed_min,
        "rule": "state = canonical snapshot (path -> sha256, mode) of the sandbox around out/, deduplicated; transition = "
        "one real nnvg run in a forked child without CAP_DAC_OVERRIDE on a copy of the stored image of the state; every "
        "(state, event) pair is executed once (also across families), so transitions are distinct by construction; "
        "non-trivial = the event writes at least one path that already exists in the state (overwrite or --no-overwrite "
        "conflict); outcome = (model, ok | exception class, overwrite flag, {file class:read-only|owner-read-only but "
        "group/other-writable|writable} in the way, partial effect)",
        "bound_completed": f"{len(INITS)} initial states x models {models} x event families "
        + "; ".join(
            f"{f} (modes {[oct(x) for x in FAMILIES[f][0]]} x post-processors {list(FAMILIES[f][1])}: events "
            f"{fam_report[f]['events']}, all histories of length <= {fam_report[f]['depth_completed']}"
            + (", graph closed" if len(fam_report[f]["closed_for"]) == len(models) else f", closed for {fam_report[f]['closed_for']}")
            + ")"
            for f in fams
        )
        + (" - every family graph is closed: histories of every length within each family are covered" if closed else ""),
        "exhaustive": bool(ctx.thorough),
    }
    return ctx.finish(
        "model_checking",
        cov,
        [
            "uid 0 minus CAP_DAC_OVERRIDE/CAP_DAC_READ_SEARCH (also removed from the bounding set, so exec'd programs do not regain them) behaves like an ordinary owner of the files (probed on a 0o444 file in every worker, in-process and through /bin/sh)",
            "wall clock frozen (datetime.utcnow in nunavut.jinja, time.time seen by gzip) so that the clean-run bytes are a value",
            "Jinja template bytecode cached in memory per process through the engine's bytecode_cache hook; the clean-run table is computed without it and again with it and must agree",
            "nnvg = nunavut.cli.main() in-process with sys.argv set; an escaping exception counts as a reported failure (the console script turns it into exit status 1)",
            "two-type namespace, targets c / py / cpp; SupportGenerator._copy_header is reached only through an injected plain TYPE_SUPPORT resource (no shipped language has one)",
            "the 300-event product of all option values is explored as four families (line post-processors / five ordinary modes / external program / modes 0o000 and 0o200), not as one graph: histories mixing e.g. mode 0o464 with the external program are not covered",
            "the external program is a 4-line /bin/sh script that appends one marker line; read-only directories, symlinks and non-regular files in the output tree are out of scope (the statement speaks of files)",
        ],
        min_outcomes=("distinct_outcomes", 12),
    )


def replay(ctx: Ctx, case: dict) -> int:
    _setup(ctx.scratch)
    for e in case["history"]:
        if e not in EVENTS:
            raise HarnessError(f"unknown event {e}")
    rep = fsm.forked(lambda: replay_history(case["model"], case["init"], list(case["history"])))
    bad = 0
    for i, st in enumerate(rep["steps"], 1):
        print(f"step {i}: {st['eid']}: rc={st['rc']} exc={st['exc']} outcome={st['outcome']}")
        for sig, detail in st["viols"]:
            bad += 1
            print(f"   VIOLATED {sig}: {detail}")
    return 1 if bad else 0
