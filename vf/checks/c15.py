"""
C15 - line post-processing is chunking-independent (model checking of chunk schedules).

State space: (text, cut schedule, processor list).  Every text of length <= L over {a, ' ', TAB, CR, LF}; for every
text EVERY way of cutting it into non-empty chunks (2^(len-1) schedules) and, for short texts, additionally every
schedule with one empty chunk inserted at every position.  The real CodeGenerator._generate_with_line_buffer is driven
with the explorer's chunk iterator; SupportGenerator._copy_header_using_line_pps is driven with the text as a file.

Oracles: (1) schedule independence: output(schedule) == output(one chunk); (2) agreement of the one-chunk output with
a line-by-line reference (identity / exact trailing-whitespace removal keeping the terminator / at most N consecutive
empty lines, non-empty lines untouched).
"""
from __future__ import annotations

import io
import itertools
import os
import pathlib
import typing

from vf.core import Bag, Ctx, HarnessError

ALPHABET = ["a", " ", "\t", "\r", "\n"]

PPS_SPECS = [
    ("none", []),
    ("trim", [("trim",)]),
    ("limit0", [("limit", 0)]),
    ("limit1", [("limit", 1)]),
    ("limit2", [("limit", 2)]),
    ("trim+limit1", [("trim",), ("limit", 1)]),
    ("limit1+trim", [("limit", 1), ("trim",)]),
    # several processors of one class, differently parameterised, in both orders
    ("limit0+limit2", [("limit", 0), ("limit", 2)]),
    ("limit2+limit0", [("limit", 2), ("limit", 0)]),
    ("limit2+trim+limit1", [("limit", 2), ("trim",), ("limit", 1)]),
    ("trim+trim", [("trim",), ("trim",)]),
]


# ---------------------------------------------------------------- reference model (deliberately boring)
def ref_lines(text: str) -> typing.List[typing.Tuple[str, str]]:
    out, cur, i = [], [], 0
    while i < len(text):
        c = text[i]
        if c == "\n":
            out.append(("".join(cur), "\n"))
            cur = []
            i += 1
        elif c == "\r" and i + 1 < len(text) and text[i + 1] == "\n":
            out.append(("".join(cur), "\r\n"))
            cur = []
            i += 2
        else:
            cur.append(c)
            i += 1
    if cur:
        out.append(("".join(cur), ""))
    return out


def ref_apply(text: str, spec: typing.List[tuple]) -> str:
    counters = [0] * len(spec)
    out = []
    for line, term in ref_lines(text):
        for k, pp in enumerate(spec):
            if pp[0] == "trim":
                while line and line[-1].isspace():
                    line = line[:-1]
            else:
                if line == "":
                    counters[k] += 1
                else:
                    counters[k] = 0
                if counters[k] > pp[1]:
                    line, term = "", ""
        out.append(line + term)
    return "".join(out)


# ---------------------------------------------------------------- real implementation drivers
def make_pps(spec: typing.List[tuple]) -> list:
    from nunavut._postprocessors import LimitEmptyLines, TrimTrailingWhitespace

    return [TrimTrailingWhitespace() if p[0] == "trim" else LimitEmptyLines(p[1]) for p in spec]


def run_impl(chunks: typing.Sequence[str], spec: typing.List[tuple]) -> str:
    from nunavut.jinja import CodeGenerator

    out = io.StringIO()
    if spec:
        CodeGenerator._generate_with_line_buffer(out, iter(chunks), make_pps(spec))
    else:
        # what _generate_code does without line post-processors
        for part in iter(chunks):
            out.write(part)
    return out.getvalue()


def run_copy(text: str, spec: typing.List[tuple], tmp: pathlib.Path) -> str:
    from nunavut.jinja import SupportGenerator

    src, dst = tmp / "src.h", tmp / "dst.h"
    with open(src, "w", encoding="utf-8", newline="") as f:
        f.write(text)
    object.__new__(SupportGenerator)._copy_header_using_line_pps(src, dst, make_pps(spec))
    with open(dst, "r", encoding="utf-8", newline="") as f:
        return f.read()


class _Fault(Exception):
    pass


def _faulting(chunks: typing.Sequence[str], k: int) -> typing.Iterator[str]:
    """The chunk iterator of a template that raises after its first k chunks."""
    for c in chunks[:k]:
        yield c
    raise _Fault()


def run_impl_after_fault(chunks: typing.Sequence[str], k: int, spec: typing.List[tuple], text: str) -> str:
    """History [a run of `chunks` that is aborted after k chunks ; a complete one-chunk run of `text`] -> output of the
    second run (fresh processor objects for both, as for two generators in one process)."""
    from nunavut.jinja import CodeGenerator

    try:
        CodeGenerator._generate_with_line_buffer(io.StringIO(), _faulting(chunks, k), make_pps(spec))
    except _Fault:
        pass
    else:
        raise HarnessError("the faulting chunk iterator did not abort the run")
    return run_impl([text], spec)


# ---------------------------------------------------------------- end-to-end driver: a real DSDLCodeGenerator
E2E_TEMPLATE = "{% for c in chunks %}{{ c }}{% endfor %}"


class _Bomb:
    """A template value whose rendering raises: the run is refused in the middle of a file."""

    def __str__(self) -> str:
        raise _Fault()

    __html__ = __str__


class E2E:
    """One real generator per processor list (target language cpp: its configuration adds no processors of its own);
    the template renders the chunk list handed over through a global, one chunk per list element."""

    def __init__(self, scratch: pathlib.Path) -> None:
        import pydsdl
        from nunavut import build_namespace_tree
        from nunavut.lang import LanguageContextBuilder

        self.base = scratch
        (self.base / "in" / "x").mkdir(parents=True, exist_ok=True)
        (self.base / "in" / "x" / "A.1.0.dsdl").write_text("uint8 v\n@sealed\n")
        (self.base / "tpl").mkdir(exist_ok=True)
        with open(self.base / "tpl" / "Any.j2", "w", encoding="utf-8", newline="") as f:
            f.write(E2E_TEMPLATE)
        self.types = pydsdl.read_namespace(str(self.base / "in" / "x"), [])
        self.lctx = LanguageContextBuilder(include_experimental_languages=True).set_target_language("cpp").create()
        self.build = build_namespace_tree
        self.gens: typing.Dict[str, tuple] = {}
        self.n = 0

    def generator(self, name: str, spec: typing.List[tuple], fresh: bool = False) -> tuple:
        from nunavut.jinja import DSDLCodeGenerator

        if fresh or name not in self.gens:
            self.n += 1
            out = self.base / f"out{self.n}"
            ns = self.build(self.types, str(self.base / "in" / "x"), str(out), self.lctx)
            holder: typing.List[typing.Any] = []
            g = DSDLCodeGenerator(ns, templates_dir=self.base / "tpl", additional_globals={"chunks": holder},
                                  post_processors=make_pps(spec) if spec else None)
            (path,) = [p for _, p in ns.get_all_datatypes()]
            entry = (g, holder, pathlib.Path(path))
            if fresh:
                return entry
            self.gens[name] = entry
        return self.gens[name]

    def run(self, entry: tuple, chunks: typing.Sequence[typing.Any]) -> typing.Optional[str]:
        g, holder, path = entry
        holder[:] = list(chunks)
        try:
            g.generate_all()
        except _Fault:
            return None
        with open(path, "r", encoding="utf-8", newline="") as f:
            return f.read()


def schedules(text: str, with_empty: bool) -> typing.Iterator[typing.List[str]]:
    n = len(text)
    if n == 0:
        yield []
        if with_empty:
            yield [""]
        return
    for mask in range(1 << (n - 1)):
        chunks, start = [], 0
        for i in range(1, n):
            if mask >> (i - 1) & 1:
                chunks.append(text[start:i])
                start = i
        chunks.append(text[start:])
        yield chunks
        if with_empty:
            for pos in range(len(chunks) + 1):
                yield chunks[:pos] + [""] + chunks[pos:]


def classify_cut(text: str, chunks: typing.Sequence[str]) -> str:
    pos = 0
    for c in chunks[:-1]:
        pos += len(c)
        if 0 < pos < len(text) and text[pos - 1] == "\r" and text[pos] == "\n":
            return "cut_inside_crlf"
    if any(c == "" for c in chunks):
        return "empty_chunk"
    return "other_cut"


# ---------------------------------------------------------------- worker
def _work(job: typing.Tuple[typing.List[str], bool, bool, str]) -> dict:
    texts, with_empty, do_copy, scratch = job
    copy_only = scratch.endswith("#copyonly")
    scratch = scratch.split("#")[0]
    bag = Bag()
    evals = 0
    outcomes = set()
    nontrivial = 0
    tmp = pathlib.Path(scratch) / f"w{os.getpid()}"
    if do_copy:
        tmp.mkdir(parents=True, exist_ok=True)
    for text in texts:
        for name, spec in PPS_SPECS:
            whole = run_impl([text], spec)
            evals += 1
            ref = ref_apply(text, spec)
            if whole != text:
                nontrivial += 1
            outcomes.add(hash((name, whole)) & 0xFFFFFFFF)
            if whole != ref:
                bag.add(
                    {"kind": "reference_mismatch", "pps": name},
                    {"mode": "chunks", "text": text, "chunks": [text], "pps": name},
                    f"one-chunk output {whole!r} != line-by-line reference {ref!r} for text {text!r} [{name}]",
                )
            for chunks in ([] if copy_only else schedules(text, with_empty)):
                if len(chunks) == 1 and chunks[0] == text:
                    continue
                got = run_impl(chunks, spec)
                evals += 1
                if got != whole:
                    bag.add(
                        {"kind": "chunk_dependence", "pps": name, "feature": classify_cut(text, chunks)},
                        {"mode": "chunks", "text": text, "chunks": list(chunks), "pps": name},
                        f"chunks {list(chunks)!r} give {got!r}, one chunk gives {whole!r} [{name}]",
                    )
            if do_copy and spec:
                got = run_copy(text, spec, tmp)
                evals += 1
                if got != ref:
                    feat = (
                        "no_final_newline"
                        if text and not text.endswith("\n")
                        else ("cr" if "\r" in text else "other")
                    )
                    bag.add(
                        {"kind": "copy_header_mismatch", "pps": name, "feature": feat},
                        {"mode": "copy", "text": text, "pps": name},
                        f"support-file copy of {text[:40]!r}{'...' if len(text) > 40 else ''} (len {len(text)}) gives {got[-24:]!r}, reference {ref[-24:]!r} [{name}]",
                    )
    return {"evals": evals, "bag": bag, "outcomes": outcomes, "nontrivial": nontrivial, "texts": len(texts)}


PROBES = ["a", "\n", " a \n\n\nb", "\r\n a"]


def _work_hist(job: typing.Tuple[typing.List[str], bool, str]) -> dict:
    """Histories: [a run that is aborted after k chunks ; a complete run] on the line-buffer routine, and runs of one
    real generator object per processor list (every cut schedule, aborted renderings in between)."""
    texts, do_e2e, scratch = job
    bag = Bag()
    evals = nontrivial = faults = e2e_runs = 0
    outcomes = set()
    e2e = None
    if do_e2e:
        tmp = pathlib.Path(scratch) / f"e2e{os.getpid()}"
        tmp.mkdir(parents=True, exist_ok=True)
        e2e = E2E(tmp)
    for name, spec in PPS_SPECS:
        probe_ref = {t: ref_apply(t, spec) for t in PROBES}
        entry = e2e.generator(name, spec) if e2e else None
        for text in texts:
            ref = ref_apply(text, spec)
            for chunks in schedules(text, False):
                # ---- direct: abort after k chunks, then a complete run of a probe text
                if spec:
                    for k in range(len(chunks)):
                        probe = PROBES[(len(text) + k) % len(PROBES)]
                        got = run_impl_after_fault(chunks, k, spec, probe)
                        evals += 1
                        faults += 1
                        if "".join(chunks[:k]) and not "".join(chunks[:k]).endswith("\n"):
                            nontrivial += 1  # the aborted run stopped inside a line
                        if got != probe_ref[probe]:
                            bag.add(
                                {"kind": "aborted_run_leaks", "pps": name, "driver": "line_buffer"},
                                {"mode": "fault", "text": text, "chunks": list(chunks), "k": k, "probe": probe, "pps": name},
                                f"after a run of {list(chunks)!r} aborted behind chunk {k}, {probe!r} is written as {got!r} instead of {probe_ref[probe]!r} [{name}]",
                            )
                # ---- end to end: the same generator object renders this schedule
                if entry is not None:
                    got = e2e.run(entry, chunks)
                    evals += 1
                    e2e_runs += 1
                    outcomes.add(hash((name, got)) & 0xFFFFFFFF)
                    if got != ref:
                        bag.add(
                            {"kind": "generator_output_mismatch", "pps": name, "feature": classify_cut(text, chunks) if len(chunks) > 1 else "one_chunk"},
                            {"mode": "e2e", "text": text, "chunks": list(chunks), "pps": name},
                            f"DSDLCodeGenerator with processors [{name}] writes {got!r} for template output {list(chunks)!r}; line-by-line reference {ref!r}",
                        )
            # ---- end to end: a rendering refused inside the file, then a complete one (same generator; new generator)
            if entry is not None and text:
                for k in (0, len(text) // 2, len(text)):
                    aborted = [text[:k], _Bomb(), text[k:]]
                    if e2e.run(entry, aborted) is not None:
                        raise HarnessError("the refused rendering completed")
                    probe = PROBES[(len(text) + k) % len(PROBES)]
                    for fresh in (False, True) if k == len(text) // 2 and len(text) <= 2 else (False,):
                        got = e2e.run(e2e.generator(name, spec, fresh=True) if fresh else entry, [probe])
                        evals += 1
                        faults += 1
                        if got != probe_ref[probe]:
                            bag.add(
                                {"kind": "aborted_run_leaks", "pps": name, "driver": "generator" + ("_new_object" if fresh else "_same_object")},
                                {"mode": "e2e_fault", "text": text, "k": k, "probe": probe, "pps": name, "fresh": fresh},
                                f"after a rendering of {text!r} refused behind character {k}, the "
                                f"{'next' if fresh else 'same'} generator writes {probe!r} as {got!r} instead of {probe_ref[probe]!r} [{name}]",
                            )
    return {"evals": evals, "bag": bag, "outcomes": outcomes, "nontrivial": nontrivial, "texts": len(texts), "faults": faults, "e2e": e2e_runs}


def all_texts(max_len: int, alphabet: typing.List[str]) -> typing.Iterator[str]:
    for n in range(0, max_len + 1):
        for t in itertools.product(alphabet, repeat=n):
            yield "".join(t)


def run(ctx: Ctx) -> int:
    core_len = 5
    full_len = 7 if ctx.thorough else 6
    core = list(all_texts(core_len, ALPHABET))
    uni = [t.replace("a", "é") for t in all_texts(4, ALPHABET) if "a" in t]
    uni += [" a\n", "a \n", "a　\r\n b"]
    ext = [t for n in range(core_len + 1, full_len + 1) for t in map("".join, itertools.product(ALPHABET, repeat=n))]
    ext_total = len(ext)
    ext = [t for t in ext if ctx.in_slice(t)]

    jobs = []

    def shard(texts: typing.List[str], with_empty: bool, do_copy: bool, size: int) -> None:
        for i in range(0, len(texts), size):
            jobs.append((texts[i : i + size], with_empty, do_copy, str(ctx.scratch)))

    shard(core + uni, True, True, 120)
    shard(ext, False, False, 400)
    # the support-file copy reads the resource in blocks: put a CRLF / whitespace run at every position around the block size
    import io as _io

    bs = _io.DEFAULT_BUFFER_SIZE
    big = ["a" * pos + tail for pos in range(bs - 4, bs + 3) for tail in ("\r\n", " \r\nb", "\r\n\r\n\r\nb", "\r", " \t\r\n\n\n\nb ")]
    jobs.append((big, False, True, str(ctx.scratch) + "#copyonly"))
    results = ctx.pool_map(_work, jobs)
    # histories: aborted runs on the line buffer (texts len <= 4, every cut, every abort point) and real generator objects
    hist_len = 4
    e2e_len = 4 if ctx.thorough else 3
    hjobs = []
    short = list(all_texts(e2e_len, ALPHABET))
    for i in range(0, len(short), 40):
        hjobs.append((short[i : i + 40], True, str(ctx.scratch)))
    rest = [t for t in all_texts(hist_len, ALPHABET) if len(t) > e2e_len]
    for i in range(0, len(rest), 80):
        hjobs.append((rest[i : i + 80], False, str(ctx.scratch)))
    hres = ctx.pool_map(_work_hist, hjobs)
    faults = sum(r["faults"] for r in hres)
    e2e_runs = sum(r["e2e"] for r in hres)
    if faults == 0 or e2e_runs == 0:
        raise HarnessError("no aborted run / no generator run was explored")
    results = results + hres
    evals = sum(r["evals"] for r in results)
    outcomes = set()
    for r in results:
        outcomes |= r["outcomes"]
        ctx.bag.merge(r["bag"])
    ntexts = sum(r["texts"] for r in results)
    nontrivial = sum(r["nontrivial"] for r in results)
    ctx.samples = [
        {"text": "a \r\n\nb", "schedule": ["a \r", "\n\nb"], "pps": "trim"},
        {"text": "\n\n\n", "schedule": ["\n", "", "\n\n"], "pps": "limit1"},
    ]
    ctx.stats.update(texts=ntexts, ext_space=ext_total, ext_explored=len(ext), aborted_runs=faults, generator_runs=e2e_runs)
    cov = {
        "states": ntexts * len(PPS_SPECS),
        "transitions": evals,
        "traces_validated_against_impl": evals,
        "evaluations": evals,
        "distinct_nontrivial": nontrivial,
        "distinct_outcomes": len(outcomes),
        "rule": "state = (text, processor list); transition = one execution of the real _generate_with_line_buffer "
        "(or _copy_header_using_line_pps) under one chunk schedule; non-trivial = (text, processors) whose output "
        "differs from the input text",
        "bound_completed": f"all texts len<={core_len} over {ALPHABET!r} x all 2^(n-1) cuts x one empty chunk at every "
        f"position x {len(PPS_SPECS)} processor lists; texts of len {core_len + 1}..{full_len}: "
        f"{len(ext)}/{ext_total} x all cuts; histories [run aborted behind chunk k ; complete run]: texts len<={hist_len} x all cuts x every k "
        f"x {len(PPS_SPECS) - 1} lists ({faults} aborted runs); real DSDLCodeGenerator objects (one per processor list, reused for every "
        f"run, + new ones after refused renderings): texts len<={e2e_len} x all cuts x {len(PPS_SPECS)} lists ({e2e_runs} generator runs)",
        "exhaustive": bool(ctx.thorough),
    }
    return ctx.finish(
        "model_checking",
        cov,
        [
            "alphabet {a,space,TAB,CR,LF} (+ e-acute and 3 unicode-whitespace texts) stands for all characters",
            "fresh processor objects per execution of the line-buffer routine; the generator-object runs keep one processor list "
            "per generator, reset by the generator before each file (state carried across files of real types is C10's subject)",
            "generator-object runs use target language cpp (its configuration adds no processors to the supplied list)",
        ],
        min_outcomes=("distinct_outcomes", 50),
    )


def replay(ctx: Ctx, case: dict) -> int:
    spec = dict(PPS_SPECS)[case["pps"]]
    ref = ref_apply(case["text"], spec)
    if case.get("mode") == "copy":
        tmp = ctx.scratch / "replay"
        tmp.mkdir(exist_ok=True)
        got = run_copy(case["text"], spec, tmp)
        print(f"copy: got={got!r} reference={ref!r}")
        return 0 if got == ref else 1
    if case.get("mode") == "fault":
        got = run_impl_after_fault(case["chunks"], case["k"], spec, case["probe"])
        want = ref_apply(case["probe"], spec)
        print(f"after {case['chunks']!r} aborted behind chunk {case['k']}: {case['probe']!r} -> {got!r}, reference {want!r}")
        return 0 if got == want else 1
    if case.get("mode") in ("e2e", "e2e_fault"):
        tmp = ctx.scratch / "replay"
        tmp.mkdir(exist_ok=True)
        e2e = E2E(tmp)
        entry = e2e.generator(case["pps"], spec)
        if case["mode"] == "e2e":
            got = e2e.run(entry, case["chunks"])
            print(f"generator [{case['pps']}] chunks={case['chunks']!r}: got={got!r} reference={ref!r}")
            return 0 if got == ref else 1
        k = case["k"]
        e2e.run(entry, [case["text"][:k], _Bomb(), case["text"][k:]])
        got = e2e.run(e2e.generator(case["pps"], spec, fresh=True) if case.get("fresh") else entry, [case["probe"]])
        want = ref_apply(case["probe"], spec)
        print(f"after a refused rendering of {case['text']!r}: {case['probe']!r} -> {got!r}, reference {want!r}")
        return 0 if got == want else 1
    got = run_impl(case["chunks"], spec)
    whole = run_impl([case["text"]], spec)
    print(f"chunks={case['chunks']!r}: got={got!r} one-chunk={whole!r} reference={ref!r}")
    return 0 if got == whole == ref else 1
