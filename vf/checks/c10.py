"""
C10 - per-type output ignores sibling types, processing order and earlier runs
(explicit-state search over HISTORIES of generator invocations in one interpreter; fork() is the state snapshot).

State   : the interpreter's process-wide state (UniqueNameGenerator._singleton, LimitEmptyLines._empty_line_count of the
          post-processor objects, lru_caches on strop / get_dependency_builder / load_language_class, the template lookup
          cache, LanguageConfig sections, and - found by this check - the lazily memoized values inside PyDSDL objects).
Event   : gen(N, S, pi, sigma, lang, templates, pps[, reuse]) = pydsdl.read_namespace(N) -> the types of S in order pi ->
          build_namespace_tree -> DSDLCodeGenerator(templates_dir, post_processors).generate_all(), with
          N      one of 5 small namespaces (<= 4 types; equal short names in different namespaces; a twin pair with the
                 same type names but different dependencies; a cross-root lookup dependency),
          S      every dependency-closed subset of N,
          pi     every permutation of S handed to build_namespace_tree,
          sigma  every schedule with <= 1 deviation (thorough: a 2nd, restricted) of the permuting-set choice points inside
                 nunavut._namespace (namespace index, nested-namespace sets),
          lang   c, cpp, py;  templates: built-in | a user `Any.j2` that emits template-unique names and starts/ends with
                 blank lines;  pps: none | [LimitEmptyLines(1)] | [TrimTrailingWhitespace()],
          reuse  (events after the first) the LanguageContext object of the previous event of the same language is reused.
          omit/audit/support/reuse_gen: the omit_serialization_support / embed_auditing_info arguments of
                 generate_all(), a SupportGenerator next to the DSDLCodeGenerator, and "no new objects at all":
                 generate_all() is called a second time on the SAME generator object(s) with other argument values.
Search  : depth 1 = the full alphabet; depth 2 = prefix alphabet x last alphabet (reduced, see ALPHABETS below);
          depth 3 (thorough) = a further reduced alphabet.  A history is executed by fork(): the child that executed the
          prefix forks once per last event, so every node of the history tree is a real interpreter state.
Invariant (checked on the LAST event of every history): for every type t it generated, the bytes of t's file equal the
          bytes produced for t by generating just {t} + deps(t), t first, in a FRESH process; namespace files are compared
          with the fresh-process run of the same type set.  The clock seam is frozen (C07 owns the clock).
"""
from __future__ import annotations

import hashlib
import itertools
import json
import os
import pathlib
import pickle
import re
import shutil
import subprocess
import sys
import traceback
import typing

from vf import permset
from vf.core import VERIF, Bag, Ctx, HarnessError

# ------------------------------------------------------------------------------------------ namespaces
_S = "@sealed\n"
# deps are declared by hand (the oracle's notion of "the types it refers to") and cross-checked against PyDSDL at start
NAMESPACES: typing.Dict[str, typing.Dict[str, typing.Any]] = {
    "fan": {
        "root": "x",
        "files": {
            "x/A.1.0.dsdl": "x.y.B.1.0 b\nx.if.Struct_.1.0[<=2] s\nuint8 v\n" + _S,
            "x/y/B.1.0.dsdl": "uint8[<=3] v\n" + _S,
            "x/if/Struct_.1.0.dsdl": "bool v\nfloat16 w\n" + _S,
            "x/y/A.1.0.dsdl": "int13 v\nbool[3] f\n" + _S,
        },
        "deps": {"x.A.1.0": ["x.y.B.1.0", "x.if.Struct_.1.0"], "x.y.B.1.0": [], "x.if.Struct_.1.0": [], "x.y.A.1.0": []},
    },
    "chain": {
        "root": "x",
        "files": {
            "x/A.1.0.dsdl": "x.y.B.1.0 b\n@extent 256\n",
            "x/A.1.1.dsdl": "x.y.B.1.0 b\nx.y.if.Struct_.1.0 s\n@extent 256\n",
            "x/y/B.1.0.dsdl": "x.y.if.Struct_.1.0[2] s\n" + _S,
            "x/y/if/Struct_.1.0.dsdl": "@union\nuint8 a\nuint16[<=2] b\n" + _S,
        },
        "deps": {
            "x.A.1.0": ["x.y.B.1.0"],
            "x.A.1.1": ["x.y.B.1.0", "x.y.if.Struct_.1.0"],
            "x.y.B.1.0": ["x.y.if.Struct_.1.0"],
            "x.y.if.Struct_.1.0": [],
        },
    },
    # twins: same type names, x.A.1.0 has the same bit length set in both (so PyDSDL calls them equal) but refers to
    # another type and names its field differently
    "twin_a": {
        "root": "x",
        "files": {
            "x/A.1.0.dsdl": "x.y.B.1.0 b\nuint8 v\n" + _S,
            "x/y/B.1.0.dsdl": "uint8 v\n" + _S,
            "x/y/C.1.0.dsdl": "uint8 v\n" + _S,
        },
        "deps": {"x.A.1.0": ["x.y.B.1.0"], "x.y.B.1.0": [], "x.y.C.1.0": []},
    },
    "twin_b": {
        "root": "x",
        "files": {
            "x/A.1.0.dsdl": "x.y.C.1.0 b\nuint8 w\n" + _S,
            "x/y/B.1.0.dsdl": "uint8 v\n" + _S,
            "x/y/C.1.0.dsdl": "uint8 v\n" + _S,
        },
        "deps": {"x.A.1.0": ["x.y.C.1.0"], "x.y.B.1.0": [], "x.y.C.1.0": []},
    },
    "xroot": {
        "root": "x",
        "files": {
            "x/A.1.0.dsdl": "z.B.1.0 a\nx.y.B.1.0[<=2] c\n" + _S,
            "x/y/B.1.0.dsdl": "z.B.1.0 a\nz.y.Struct_.1.0 b\n" + _S,
        },
        "lookup": {"z": {"z/B.1.0.dsdl": "uint8 v\n" + _S, "z/y/Struct_.1.0.dsdl": "int8 v\n" + _S}},
        "deps": {"x.A.1.0": ["x.y.B.1.0"], "x.y.B.1.0": []},  # generated types only (z.* is looked up, never generated)
    },
    # sibling types whose fields have the SAME names but different types: variable-length arrays of different
    # capacity / element type, fixed array vs variable-length array, different primitive widths, composite vs primitive
    "same": {
        "root": "x",
        "files": {
            "x/Log.1.0.dsdl": "uint8[<=10] data\nuint16 value\nx.y.Inner.1.0 item\nuint8[4] fixed\n" + _S,
            "x/Packet.1.0.dsdl": "uint8[<=200] data\nuint32 value\nuint8 item\nuint8[<=4] fixed\n" + _S,
            "x/y/Inner.1.0.dsdl": "uint8 v\n" + _S,
            "x/y/Packet.1.0.dsdl": "float32[<=3] data\nbool value\n" + _S,
        },
        "deps": {"x.Log.1.0": ["x.y.Inner.1.0"], "x.Packet.1.0": [], "x.y.Inner.1.0": [], "x.y.Packet.1.0": []},
    },
}
# types whose names coincide after a lossy conversion: CamelCase vs nested namespace (both X_FOO_BAR_1_0 as a macro) and
# namespaces that differ only in letter case (PyDSDL accepts them).  `if` vs `_if` is left out: both strop to the same
# output folder for C/C++ (one file overwrites the other - a matter of C11, not of C10).
NAMESPACES["clash"] = {
    "root": "x",
    "files": {
        "x/FooBar.1.0.dsdl": "uint8 v\n" + _S,
        "x/foo/Bar.1.0.dsdl": "uint16 v\n" + _S,
        "x/q/T.1.0.dsdl": "uint8 v\n" + _S,
        "x/Q/T.1.0.dsdl": "uint16 v\n" + _S,
    },
    "deps": {"x.FooBar.1.0": [], "x.foo.Bar.1.0": [], "x.q.T.1.0": [], "x.Q.T.1.0": []},
}
# namespace components that need stropping in one target or another; the dependencies put them into #include/import lines
NAMESPACES["strop"] = {
    "root": "x",
    "files": {
        "x/register/A.1.0.dsdl": "x.if.D.1.0 d\nx.class.B.1.0 b\n" + _S,
        "x/class/B.1.0.dsdl": "x.def.C.1.0 c\n" + _S,
        "x/def/C.1.0.dsdl": "uint8 v\n" + _S,
        "x/if/D.1.0.dsdl": "uint8 v\n" + _S,
    },
    "deps": {
        "x.register.A.1.0": ["x.if.D.1.0", "x.class.B.1.0"],
        "x.class.B.1.0": ["x.def.C.1.0"],
        "x.def.C.1.0": [],
        "x.if.D.1.0": [],
    },
}
# documented types: header and field comments that end inside a list item / a numbered item / an indented block, and
# comments whose paragraphs are long enough to be re-wrapped (C++ wraps at the comment width; a text wrapper object is
# cached per width and indent) - what one type's comment leaves behind must not shape the next type's comment
_LONG = "The measured value together with its variance as it is reported by the estimator once per control period of the unit under test."
NAMESPACES["docs"] = {
    "root": "x",
    "files": {
        "x/Alpha.1.0.dsdl": "# Operating mode of the unit. The mode is one of:\n#  - idle: nothing is commanded and the outputs are released\n"
        "#  - active: the commanded set point is tracked\nuint8 mode\n# Numbered:\n#  1. first item that is rather long and goes on and on "
        "until it has to be wrapped by whatever wraps comments in the target language, surely\nuint8 other\n" + _S,
        "x/Beta.1.0.dsdl": "# " + _LONG + "\n# See Alpha for the operating modes.\nfloat32 value\n# " + _LONG + " " + _LONG + "\nfloat32 variance\n" + _S,
        "x/y/Gamma.1.0.dsdl": "# " + _LONG + "\n#\n#     indented block that ends the comment\nuint8 v\n#  * a starred item at the very end\nuint8 w\n" + _S,
    },
    "deps": {"x.Alpha.1.0": [], "x.Beta.1.0": [], "x.y.Gamma.1.0": []},
}
# language / generator configurations other than the default one (event option `variant`)
VARIANTS: typing.Dict[str, typing.Dict[str, typing.Any]] = {
    "prefix": {"overrides": {"stropping_prefix": "dsdl_"}},
    "suffix": {"overrides": {"stropping_suffix": "_dsdl"}},
    "nostrop": {"overrides": {"enable_stropping": False}, "langs": ["c", "cpp"]},
    "reserved": {"reserve": ["y", "B", "D", "foo"]},
    "asserts": {"options": {"enable_serialization_asserts": True}, "langs": ["c", "cpp"]},
    "trim": {"gen": {"trim_blocks": True, "lstrip_blocks": True}},
    "ext": {"extension": ".hh", "langs": ["c", "cpp"]},
    "stem": {"stem": "ns_", "langs": ["py"]},
    "pmr": {"options": {"std": "c++17-pmr"}, "langs": ["cpp"]},
    "cetl": {"options": {"std": "cetl++14-17"}, "langs": ["cpp"]},
}
NS_DEEP = ["fan", "chain", "twin_a", "twin_b", "xroot"]  # namespaces of the depth >= 2 alphabets
LANG_LIST = ["c", "cpp", "py"]
CPP_STDS = ["c++17", "c++17-pmr", "cetl++14-17", "c++20"]  # non-default --language-standard flavours (default: c++14)
TPLS = ["builtin", "user"]  # + "userx" (unique names requested through ANOTHER language's ln.<lang>.* filter) in family X
PPS = ["none", "limit", "trim"]
NAMESPACE_FILE_LANGS = ("py",)

_USER_TEMPLATE = {
    "c": "\n\n// {{ T.full_name }}\n{% for a in T.attributes %}// {{ a.name | to_template_unique_name }} "
    "{{ 'k' | to_template_unique_name }}   \n{% endfor %}// {{ 'k' | to_template_unique_name }}\n\n\n"
    "{% for n in T | includes %}#include {{ n }}\n{% endfor %}// end \t \n\n\n",
    "py": "\n\n# {{ T.full_name }}\n{% for a in T.attributes %}# {{ a.name | to_template_unique_name }} "
    "{{ 'k' | to_template_unique_name }}   \n{% endfor %}# {{ 'k' | to_template_unique_name }}\n\n\n"
    "{% for n in T | imports %}import {{ n }}\n{% endfor %}# end \t \n\n\n",
}
_USER_TEMPLATE["cpp"] = _USER_TEMPLATE["c"]
# fault templates: the user template with an assertion in the MIDDLE of the file (after unique names and pending blank
# lines were produced) that fails for the type with short name A (first generated) / B (generated later) iff the run
# omits serialization support; with omit=False they render exactly like the user template
FAIL_TPLS = {"failA": "A", "failB": "B"}


def _fail_template(lang: str, short_name: str) -> str:
    text = _USER_TEMPLATE[lang]
    marker = "{% for n in T | "
    if text.count(marker) != 1:
        raise HarnessError("user template lost its include/import loop")
    return text.replace(marker, "{% assert not (T.short_name is defined and T.short_name == '" + short_name + "' and nunavut.support.omit) %}" + marker)


def _userx(own: str, others: typing.Sequence[str], comment: str) -> str:
    """A user template that asks OTHER languages' filters (ln.<lang>.to_template_unique_name) for template-unique names,
    with the same base tokens in every file, next to the target language's own filter."""
    cells = " ".join("{{ 'h' | ln.%s.to_template_unique_name }} {{ a.name | ln.%s.to_template_unique_name }}" % (o, o) for o in others)
    tail = " ".join("{{ 'h' | ln.%s.to_template_unique_name }}" % o for o in others)
    return (
        comment + " {{ T.full_name }}\n{% for a in T.attributes %}" + comment + " " + cells
        + " {{ 'h' | to_template_unique_name }}\n{% endfor %}" + comment + " " + tail + " {{ 'h' | to_template_unique_name }}\n"
    )


_USERX_TEMPLATE = {
    "c": _userx("c", ["cpp", "py"], "//"),
    "cpp": _userx("cpp", ["c", "py"], "//"),
    "py": _userx("py", ["c", "cpp"], "#"),
}


def closure(ns: str, t: str) -> typing.List[str]:
    deps = NAMESPACES[ns]["deps"]
    seen: typing.List[str] = []
    todo = [t]
    while todo:
        x = todo.pop()
        if x not in seen:
            seen.append(x)
            todo += deps[x]
    return sorted(seen)


def closed_subsets(ns: str) -> typing.List[typing.Tuple[str, ...]]:
    names = sorted(NAMESPACES[ns]["deps"])
    out = []
    for k in range(1, len(names) + 1):
        for sub in itertools.combinations(names, k):
            if all(set(closure(ns, t)) <= set(sub) for t in sub):
                out.append(sub)
    return out


def leaf(ns: str) -> str:
    return sorted(t for t, d in NAMESPACES[ns]["deps"].items() if not d)[0]


# ------------------------------------------------------------------------------------------ events
FLAG_KEYS = ("omit", "audit", "support", "reuse_gen")


def event(
    ns: str,
    types: typing.Sequence[str],
    lang: str,
    tpl: str,
    pps: str,
    dev: typing.Sequence[typing.Sequence[int]] = (),
    expect: typing.Sequence[int] = (),
    reuse: bool = False,
    omit: bool = False,
    audit: bool = False,
    support: bool = False,
    reuse_gen: bool = False,
    std: typing.Optional[str] = None,
    variant: typing.Optional[str] = None,
) -> dict:
    """omit/audit = the omit_serialization_support / embed_auditing_info arguments of generate_all(); support = a
    SupportGenerator is created next to the DSDLCodeGenerator (create_default_generators, shared post-processor list) and
    runs first, as in the CLI; reuse_gen = no new objects at all: generate_all() is called again on the generator
    object(s) of the previous event (same namespace tree, same output directory, emptied before)."""
    return {
        "ns": ns,
        "S": list(types),
        "lang": lang,
        "tpl": tpl,
        "pps": pps,
        "dev": [list(d) for d in dev],
        "expect": list(expect),
        "reuse": bool(reuse),
        "omit": bool(omit),
        "audit": bool(audit),
        "support": bool(support),
        "reuse_gen": bool(reuse_gen),
        "std": std,  # language option `std` (--language-standard), None = the language's default
        "variant": variant,  # a key of VARIANTS: another language configuration / other generator arguments
    }


def faulting(ev: dict) -> bool:
    """The run is refused half-way: a fault template, serialization support omitted, and a type with the fatal name."""
    short = FAIL_TPLS.get(ev["tpl"])
    return bool(short and ev["omit"] and any(n.split(".")[-3] == short for n in ev["S"]))


def flagged(ev: dict) -> bool:
    return any(ev.get(k) for k in FLAG_KEYS)


def _flags(ev: dict, keys: typing.Sequence[str] = FLAG_KEYS) -> str:
    return "+".join(k for k in keys if ev.get(k))


def ev_id(ev: dict) -> str:
    base = "{ns}/{lang}/{tpl}/{pps}/{S}/{dev}/{r}".format(
        ns=ev["ns"],
        lang=ev["lang"],
        tpl=ev["tpl"],
        pps=ev["pps"],
        S=",".join(ev["S"]),
        dev=";".join(":".join(map(str, d)) for d in ev["dev"]),
        r="reuse" if ev["reuse"] else "",
    )
    return base + ("/" + _flags(ev) if flagged(ev) else "") + ("/std=" + ev["std"] if ev.get("std") else "") + ("/var=" + ev["variant"] if ev.get("variant") else "")


def plain(ev: dict) -> dict:
    """The event as a history of its own: nothing reused."""
    return dict(ev, reuse=False, reuse_gen=False)


def ref_event(ev: dict, order: typing.Sequence[str]) -> dict:
    return event(
        ev["ns"], order, ev["lang"], ev["tpl"], ev["pps"], omit=ev["omit"], audit=ev["audit"], support=ev["support"], std=ev.get("std"),
        variant=ev.get("variant"),
    )


def ref_key(rev: dict) -> str:
    """Key of a reference event; types in GENERATION order (t first for closure references, sorted for set references)."""
    f = _flags(rev, ("omit", "audit", "support"))
    lang = rev["lang"] + (":" + rev["std"] if rev.get("std") else "") + ("~" + rev["variant"] if rev.get("variant") else "")
    return f"{rev['ns']}|{lang}|{rev['tpl']}|{rev['pps']}|{','.join(rev['S'])}" + ("|" + f if f else "")


class Layout:
    def __init__(self, scratch: typing.Union[str, pathlib.Path]) -> None:
        self.base = pathlib.Path(scratch) / "c10"
        self.inputs = self.base / "in"
        self.tpl = self.base / "tpl"
        self.refs = self.base / "refs"
        self.out = self.base / "o"

    def materialize(self) -> None:
        for name, d in NAMESPACES.items():
            for rel, text in d["files"].items():
                p = self.inputs / name / rel
                p.parent.mkdir(parents=True, exist_ok=True)
                p.write_text(text, encoding="utf-8")
            for files in d.get("lookup", {}).values():
                for rel, text in files.items():
                    p = self.inputs / name / "lookup" / rel
                    p.parent.mkdir(parents=True, exist_ok=True)
                    p.write_text(text, encoding="utf-8")
        for kind, table in (("user", _USER_TEMPLATE), ("userx", _USERX_TEMPLATE)):
            for lang, text in table.items():
                d = self.tpl / (lang if kind == "user" else lang + "_x")
                d.mkdir(parents=True, exist_ok=True)
                with open(d / "Any.j2", "w", encoding="utf-8", newline="") as f:
                    f.write(text)
        for kind, short_name in FAIL_TPLS.items():
            for lang in _USER_TEMPLATE:
                d = self.tpl / (lang + "_" + kind)
                d.mkdir(parents=True, exist_ok=True)
                with open(d / "Any.j2", "w", encoding="utf-8", newline="") as f:
                    f.write(_fail_template(lang, short_name))
        self.refs.mkdir(parents=True, exist_ok=True)
        self.out.mkdir(parents=True, exist_ok=True)


class EvResult(typing.NamedTuple):
    files: typing.Dict[str, bytes]  # relative path -> bytes
    type_path: typing.Dict[str, str]  # type name -> relative path
    ns_paths: typing.List[str]
    order: typing.List[str]  # generation order
    trace: typing.List[list]
    error: typing.Optional[str]


# carried along a history (fork inherits it): the LanguageContext per language and the generator objects of the last event
_SHARED: typing.Dict[str, typing.Any] = {}
_COUNTER = [0]


def _site_filter(site: str) -> bool:
    return site.startswith("nunavut._namespace")


def _maker(ev: dict) -> tuple:
    return (ev["ns"], tuple(ev["S"]), ev["lang"], ev.get("std"), ev.get("variant"), ev["tpl"], ev["pps"], ev["support"])


def _language_context(ev: dict) -> typing.Any:
    """The LanguageContext the way the CLI builds it: target, option overrides, configuration overrides of the variant."""
    from nunavut.lang import Language, LanguageClassLoader, LanguageContextBuilder  # pylint: disable=import-outside-toplevel

    b = LanguageContextBuilder(include_experimental_languages=True).set_target_language(ev["lang"])
    v = VARIANTS.get(ev.get("variant") or "", {})
    options = dict(v.get("options", {}))
    if ev.get("std"):
        options["std"] = ev["std"]
    if "extension" in v:
        b.set_target_language_extension(v["extension"])
    if "stem" in v:
        b.set_target_language_configuration_override(Language.WKCV_NAMESPACE_FILE_STEM, v["stem"])
    for key, value in v.get("overrides", {}).items():
        b.set_target_language_configuration_override(key, value)
    if "reserve" in v:
        section = LanguageClassLoader.to_language_module_name(ev["lang"])
        current = list(b.config.get_config_value_as_list(section, "reserved_identifiers", default_value=[]))
        b.set_target_language_configuration_override("reserved_identifiers", current + list(v["reserve"]))
    if options:
        b.set_target_language_configuration_override(Language.WKCV_LANGUAGE_OPTIONS, options)
    return b.create()


def _make_pps(name: str) -> typing.Optional[list]:
    from nunavut._postprocessors import LimitEmptyLines, TrimTrailingWhitespace  # pylint: disable=import-outside-toplevel

    if name == "none":
        return None
    return [LimitEmptyLines(1)] if name == "limit" else [TrimTrailingWhitespace()]


def run_event(ev: dict, lay: Layout) -> EvResult:
    """One generator invocation on the real code, in THIS interpreter (whatever state it is in)."""
    import pydsdl  # pylint: disable=import-outside-toplevel
    from nunavut import build_namespace_tree  # pylint: disable=import-outside-toplevel
    from nunavut._generators import create_default_generators  # pylint: disable=import-outside-toplevel
    from nunavut.jinja import DSDLCodeGenerator  # pylint: disable=import-outside-toplevel

    from vf import gen  # pylint: disable=import-outside-toplevel

    permset.install()
    permset.install_clock()
    permset.set_clock("2024")
    nsdef = NAMESPACES[ev["ns"]]
    root_dir = lay.inputs / ev["ns"] / nsdef["root"]
    lookups = [str(lay.inputs / ev["ns"] / "lookup" / r) for r in nsdef.get("lookup", {})]
    _COUNTER[0] += 1
    out = lay.out / f"{os.getpid()}_{_COUNTER[0]}"
    held = _SHARED.get("gen")
    if ev["reuse_gen"]:
        if held is None or held["made_by"] != _maker(ev):
            raise HarnessError(f"event {ev_id(ev)} reuses a generator object that the previous event did not create")
        out = held["out"]  # the generator's namespace tree is bound to its output directory
    shutil.rmtree(out, ignore_errors=True)
    out.mkdir(parents=True)
    sched = permset.Scheduler([tuple(d) for d in ev["dev"]], ev["expect"], _site_filter)
    error = None
    order: typing.List[str] = []
    type_path: typing.Dict[str, str] = {}
    ns_paths: typing.List[str] = []
    try:
        parsed = pydsdl.read_namespace(str(root_dir), lookups, allow_unregulated_fixed_port_id=True)
        by_name = {str(t): t for t in parsed}
        sel = [by_name[n] for n in ev["S"]]
        lkey = ev["lang"] + ":" + (ev.get("std") or "") + ":" + (ev.get("variant") or "")
        lctx = _SHARED.get(lkey) if ev["reuse"] else None
        if lctx is None:
            lctx = _language_context(ev)
        _SHARED[lkey] = lctx
        with permset.scheduled(sched):
            if ev["reuse_gen"]:
                g, sg, ns = held["g"], held["sg"], held["ns"]
            else:
                ns = build_namespace_tree(sel, str(root_dir), str(out), lctx)
                kwargs: typing.Dict[str, typing.Any] = {"post_processors": _make_pps(ev["pps"])}
                if ev["tpl"] in ("user", "userx"):
                    kwargs["templates_dir"] = lay.tpl / (ev["lang"] if ev["tpl"] == "user" else ev["lang"] + "_x")
                elif ev["tpl"] in FAIL_TPLS:
                    kwargs["templates_dir"] = lay.tpl / (ev["lang"] + "_" + ev["tpl"])
                kwargs.update(VARIANTS.get(ev.get("variant") or "", {}).get("gen", {}))
                if ev["support"]:
                    g, sg = create_default_generators(ns, **kwargs)  # both share the post-processor list (as the CLI does)
                else:
                    g, sg = DSDLCodeGenerator(ns, **kwargs), None
                _SHARED["gen"] = {"g": g, "sg": sg, "ns": ns, "out": out, "made_by": _maker(ev)}
            if sg is not None:
                order = [str(pathlib.Path(p).relative_to(out)) for p in sg.generate_all(False, True, ev["omit"], ev["audit"])]
            order += [str(pathlib.Path(p).relative_to(out)) for p in g.generate_all(False, True, ev["omit"], ev["audit"])]
        type_path = {str(t): str(pathlib.Path(p).relative_to(out)) for t, p in ns.get_all_datatypes()}
        if g.generate_namespace_types:
            ns_paths = [str(pathlib.Path(p).relative_to(out)) for _, p in ns.get_all_namespaces()]
        trace = [[cp.n, cp.arity, cp.alt, cp.site] for cp in sched.finish()]
    except HarnessError:
        raise
    except Exception as e:  # pylint: disable=broad-except
        error = f"{type(e).__name__}: {str(e).replace(str(lay.base), '<scratch>')}"[:300]
        trace = [[cp.n, cp.arity, cp.alt, cp.site] for cp in sched.trace]
    files = {}
    for dirpath, dirnames, filenames in os.walk(out):
        dirnames.sort()
        for f in sorted(filenames):
            p = pathlib.Path(dirpath) / f
            files[str(p.relative_to(out))] = p.read_bytes()
    shutil.rmtree(out, ignore_errors=True)
    return EvResult(files, type_path, ns_paths, order, trace, error)


def pristine() -> None:
    """A history must start from the initial interpreter state."""
    import nunavut.lang._common as common  # pylint: disable=import-outside-toplevel
    import nunavut.lang._language as language  # pylint: disable=import-outside-toplevel

    if common.UniqueNameGenerator._singleton is not None:  # pylint: disable=protected-access
        raise HarnessError("history does not start from a pristine interpreter: UniqueNameGenerator already created")
    for fn in (
        common.TokenEncoder.strop,
        language.Language.get_dependency_builder,
        language.LanguageClassLoader.load_language_class,
    ):
        info = getattr(fn, "cache_info", None)  # absent when the function is not memoized (any more)
        if info is not None and info().currsize != 0:
            raise HarnessError(f"history does not start from a pristine interpreter: {fn.__qualname__} cache is warm")
    if _SHARED:
        raise HarnessError("history does not start from a pristine interpreter: nunavut objects are already held")


# ------------------------------------------------------------------------------------------ fork plumbing
def in_child(fn: typing.Callable, *args: typing.Any) -> typing.Any:
    """Runs fn(*args) in a fork()ed copy of this interpreter and returns its (pickled) result."""
    r, w = os.pipe()
    pid = os.fork()
    if pid == 0:
        code = 0
        try:
            os.close(r)
            try:
                res = ("ok", fn(*args))
            except HarnessError as e:
                res = ("harness", str(e))
            except BaseException:  # pylint: disable=broad-except
                res = ("harness", "unexpected exception in forked worker:\n" + traceback.format_exc())
            with os.fdopen(w, "wb") as f:
                pickle.dump(res, f)
        except BaseException:  # pylint: disable=broad-except
            code = 3
        finally:
            os._exit(code)  # pylint: disable=protected-access
    os.close(w)
    with os.fdopen(r, "rb") as f:
        data = f.read()
    _, status = os.waitpid(pid, 0)
    if status != 0 or not data:
        raise HarnessError(f"forked worker died (status {status})")
    kind, val = pickle.loads(data)
    if kind != "ok":
        raise HarnessError(val)
    return val


# ------------------------------------------------------------------------------------------ references
def needed_refs(ev: dict) -> typing.List[typing.Tuple[str, dict]]:
    """[(key, reference event)] the invariant needs for the last event `ev`."""
    out = []
    if flagged(ev):  # option / generator-object histories: the fresh-process run of the same type set, same options
        if ev["S"] != sorted(ev["S"]) or ev["dev"]:
            raise HarnessError("flagged events use the sorted type list and the default schedule")
        rev = ref_event(ev, ev["S"])
        return [(ref_key(rev), rev)]
    for t in ev["S"]:
        cl = closure(ev["ns"], t)
        rev = ref_event(ev, [t] + [x for x in cl if x != t])
        out.append((ref_key(rev), rev))
    if ev["lang"] in NAMESPACE_FILE_LANGS:
        rev = ref_event(ev, sorted(ev["S"]))
        out.append((ref_key(rev), rev))
    return out


def _ref_dir(lay: Layout, key: str) -> pathlib.Path:
    return lay.refs / hashlib.sha256(key.encode()).hexdigest()[:24]


def _ref_one(ev: dict, lay: Layout, key: str) -> dict:
    pristine()
    r = run_event(ev, lay)
    if r.error is not None:
        raise HarnessError(f"reference generation {key} failed: {r.error}")
    d = _ref_dir(lay, key)
    d.mkdir(parents=True, exist_ok=True)
    index = {}
    for rel, data in r.files.items():
        h = hashlib.sha256(data).hexdigest()
        (d / h).write_bytes(data)
        index[rel] = h
    return {"files": index, "type_path": r.type_path, "ns_paths": r.ns_paths}


def ref_main() -> None:
    """Entry of the reference subprocess: argv[1] = job file (json: scratch, refs:[[key, reference event]]).
    Nothing of nunavut has run in this process but the imports; every reference is generated in its own fork() of that
    state, i.e. in an interpreter in which no generator has ever run."""
    job = json.loads(pathlib.Path(sys.argv[1]).read_text())
    lay = Layout(job["scratch"])
    permset.install()
    out = {}
    for key, rev in job["refs"]:
        if job.get("direct"):  # self-check mode: this very process generates (exactly one reference per process)
            out[key] = _ref_one(rev, lay, key)
        else:
            out[key] = in_child(_ref_one, rev, lay, key)
    pathlib.Path(sys.argv[2]).write_text(json.dumps(out))


_REF_DRIVER = "import sys; sys.path.insert(0, sys.argv.pop(1)); from vf.checks import c10; c10.ref_main()"


def _ref_job(job: dict) -> dict:
    lay = Layout(job["scratch"])
    tag = hashlib.sha256(json.dumps([job["refs"], job.get("direct")]).encode()).hexdigest()[:16]
    jf, rf = lay.refs / f"job_{tag}.json", lay.refs / f"res_{tag}.json"
    jf.write_text(json.dumps(job))
    p = subprocess.run(
        [sys.executable, "-c", _REF_DRIVER, str(VERIF), str(jf), str(rf)],
        stdout=subprocess.PIPE,
        stderr=subprocess.PIPE,
        text=True,
        check=False,
        timeout=1800,
    )
    if p.returncode != 0 or not rf.exists():
        raise HarnessError(f"reference subprocess failed ({p.returncode}): {p.stderr[-1500:]}")
    return json.loads(rf.read_text())


# ------------------------------------------------------------------------------------------ diff classification
def _read_ref(lay: Layout, key: str, h: str) -> bytes:
    return (_ref_dir(lay, key) / h).read_bytes()


def classify(ref: bytes, got: bytes, lay: Layout) -> typing.List[str]:
    """Cause tags derived from the two renderings only; independent causes are peeled off one after the other."""
    from vf.checks import c07  # pylint: disable=import-outside-toplevel

    ta, tb = ref.decode("utf-8", "replace"), got.decode("utf-8", "replace")
    causes: typing.List[str] = []
    if len(ta) - len(ta.lstrip("\r\n")) != len(tb) - len(tb.lstrip("\r\n")):
        causes.append("leading_blank_lines")
        ta, tb = ta.lstrip("\r\n"), tb.lstrip("\r\n")
    if ta == tb:
        return causes
    la, lb = ta.splitlines(), tb.splitlines()
    na, nb = [x for x in la if x], [x for x in lb if x]
    if na == nb:  # the non-empty lines agree
        return causes + (["blank_lines"] if [bool(x) for x in la] != [bool(x) for x in lb] else ["line_terminators"])
    if len(na) == len(nb) and len(la) != len(lb):
        causes.append("blank_lines")
    if len(na) == len(nb) and [re.sub(r"\d+", "#", x) for x in na] == [re.sub(r"\d+", "#", x) for x in nb]:
        # same text up to numbers: are the differing lines the ones carrying template-unique names?
        if all(re.search(r"_[A-Za-z]+\d+_", x) for x, y in zip(na, nb) if x != y):
            return causes + ["unique_name_numbering"]
    inc = ("#include", "import ", "from ")
    ia, ib = [x for x in na if x.lstrip().startswith(inc)], [x for x in nb if x.lstrip().startswith(inc)]
    ra, rb = [x for x in na if x not in ia], [x for x in nb if x not in ib]
    if ia != ib:
        word = "import" if any(x.lstrip().startswith(("import ", "from ")) for x in ia + ib) else "include"
        causes.append(f"{word}_order" if sorted(ia) == sorted(ib) else f"{word}_set")
        if ra == rb:
            return causes
    if len(ra) == len(rb) and [re.sub(r"\d+", "#", x) for x in ra] == [re.sub(r"\d+", "#", x) for x in rb]:
        if all(re.search(r"_[A-Za-z]+\d+_", x) for x, y in zip(ra, rb) if x != y):
            return causes + ["unique_name_numbering"]

    class _L:  # what c07.classify needs for scrubbing paths
        @staticmethod
        def scrub(s: str) -> str:
            return s.replace(str(lay.base), "<scratch>")

    rest = c07.classify("\n".join(ra).encode(), "\n".join(rb).encode(), _L())  # type: ignore[arg-type]
    return causes + [c for c in rest if c not in causes]


# ------------------------------------------------------------------------------------------ invariant
def check_last(history: typing.List[dict], r: EvResult, refs: dict, lay: Layout, alone: typing.Optional[set]) -> typing.Tuple[Bag, set]:
    """Returns (violations, {(file_kind, type-or-path, cause)}) for the last event of the history."""
    ev = history[-1]
    bag = Bag()
    found: set = set()

    def report(file_kind: str, what_file: str, cause: str, dim: str) -> None:
        found.add((file_kind, what_file, cause))
        if alone is not None and (file_kind, what_file, cause) in alone:
            return  # the last event shows this on its own already (reported for the depth-1 history)
        sig = {
            "kind": "depends_on",
            "dim": dim,
            "lang": ev["lang"],
            "templates": ev["tpl"],
            "file_kind": file_kind,
            "cause": cause,
            "language_context": "reused" if ev["reuse"] else "fresh",
            "generator": "reused" if ev["reuse_gen"] else "fresh",
        }
        case = {"history": history}
        head = f"{ev['lang']}/{ev['tpl']} templates, pps={ev['pps']}, after {len(history) - 1} earlier run(s): "
        if file_kind == "run":
            text = head + f"generating {ev['S']} fails ({cause}) although it succeeds in a fresh process"
        else:
            text = head + (
                f"{file_kind} file of {what_file} generated together with {ev['S']} differs from the fresh-process "
                f"generation of {'its dependency closure' if file_kind == 'type' and not flagged(ev) else 'the same type set'}"
                f"{' with the same generate_all() options [' + _flags(ev) + ']' if flagged(ev) else ''} "
                f"({cause}; attributed to {dim})"
            )
        bag.add(sig, case, text)

    if r.error is not None:
        report("run", "-", "exception:" + r.error.split(":")[0], "earlier_runs" if len(history) > 1 else "earlier_files_in_run")
        return bag, found
    def differs(key: str, rel: str) -> typing.Optional[bytes]:
        h = refs[key]["files"][rel]
        return None if hashlib.sha256(r.files[rel]).hexdigest() == h else _read_ref(lay, key, h)

    if flagged(ev):
        # options of generate_all() / generator objects used twice: every type (and namespace) file of the last event
        # must equal the fresh-process run of the same type set with the LAST event's options
        ((key, _),) = needed_refs(ev)
        ref = refs[key]
        for kind, mapping in (("type", r.type_path), ("namespace", {p: p for p in r.ns_paths})):
            for what, rel in sorted(mapping.items()):
                if rel not in r.files or rel not in ref["files"]:
                    report(kind, what, "path_set", "earlier_runs")
                    continue
                old = differs(key, rel)
                if old is None:
                    continue
                # a history of ONE event in a fresh fork that differs from the fresh-process reference of the same
                # event: nothing of the history explains it, but it is a difference between two generations of the
                # same input all the same (never swallowed as a harness problem)
                for cause in classify(old, r.files[rel], lay):
                    report(kind, what, cause, "earlier_runs" if len(history) > 1 else "unexplained_same_event")
        return bag, found
    first = r.order[0] if r.order else None
    gen_first_type = next((p for p in r.order if p in r.type_path.values()), None)
    for t in ev["S"]:
        cl = closure(ev["ns"], t)
        key = ref_key(ref_event(ev, [t] + [x for x in cl if x != t]))
        ref = refs[key]
        rel = r.type_path.get(t)
        if rel is None or rel not in r.files:
            raise HarnessError(f"event {ev_id(ev)} did not produce a file for {t}")
        if ref["type_path"].get(t) != rel:
            report("type", t, "output_path", "sibling_types")
            continue
        old = differs(key, rel)
        if old is None:
            continue
        if len(history) > 1:
            dim = "earlier_runs"
        elif rel != gen_first_type and rel != first:
            dim = "earlier_files_in_run"
        elif set(ev["S"]) != set(cl):
            dim = "sibling_types"
        else:
            dim = "unexplained_same_event"  # first file, same type set, fresh fork - and still another result
        for cause in classify(old, r.files[rel], lay):
            report("type", t, cause, dim)
    if ev["lang"] in NAMESPACE_FILE_LANGS and r.ns_paths:
        key = ref_key(ref_event(ev, sorted(ev["S"])))
        ref = refs[key]
        if sorted(ref["ns_paths"]) != sorted(r.ns_paths):
            report("namespace", "-", "path_set", "type_order")
        for rel in sorted(set(r.ns_paths) & set(ref["ns_paths"])):
            old = differs(key, rel)
            if old is None:
                continue
            if len(history) > 1:
                dim = "earlier_runs"
            elif ev["dev"]:
                dim = "nested_namespace_order"
            elif ev["S"] != sorted(ev["S"]):
                dim = "type_order"
            else:
                dim = "unexplained_same_event"
            for cause in classify(old, r.files[rel], lay):
                report("namespace", rel, cause, dim)
    return bag, found


# ------------------------------------------------------------------------------------------ history workers
_REFS: typing.Dict[str, dict] = {}
_ALONE: typing.Dict[str, set] = {}


def _load_refs(lay: Layout) -> dict:
    if not _REFS:
        _REFS.update(json.loads((lay.refs / "index.json").read_text()))
    return _REFS


def _load_alone(lay: Layout) -> typing.Dict[str, set]:
    """What every last event shows as a history of its own (computed once, in the depth-1 phase of the run)."""
    if not _ALONE:
        with open(lay.base / "alone.pkl", "rb") as f:
            _ALONE.update(pickle.load(f))
    return _ALONE


def _leaf_exec(history: typing.List[dict], lay: Layout, alone: typing.Optional[set], keep: bool = False) -> dict:
    r = run_event(history[-1], lay)
    bag, found = check_last(history, r, _load_refs(lay), lay, alone)
    digest = hashlib.sha256(
        b"".join(k.encode() + hashlib.sha256(v).digest() for k, v in sorted(r.files.items())) + (r.error or "").encode()
    ).hexdigest()[:16]
    unique = sum(len(re.findall(rb"_[A-Za-z]+\d+_", v)) for v in r.files.values())
    out = {"bag": bag, "found": found, "trace": r.trace, "digest": digest, "order": r.order, "nfiles": len(r.files), "unique": unique}
    if keep:
        out["result"] = r
    return out


def _run_prefix_then(prefix: typing.List[dict], lasts: typing.List[dict], lay: Layout, alone: typing.Dict[str, set]) -> list:
    for ev in prefix:
        r = run_event(ev, lay)
        if faulting(ev):
            if r.error is None or "TemplateAssertionError" not in r.error:
                raise HarnessError(f"fault event {ev_id(ev)} did not fail with the template assertion: {r.error}")
        elif r.error is not None:
            raise HarnessError(f"prefix event {ev_id(ev)} failed: {r.error}")
    # a last event that reuses the LanguageContext is preceded by its twin that does not (itself a history of the
    # thorough space), so that what the twin already shows is not reported a second time as an effect of the reuse
    todo: typing.List[dict] = []
    for last in lasts:
        base = dict(last, reuse=False)
        if last["reuse"] and base not in todo:
            todo.append(base)
        if last not in todo:
            todo.append(last)
    out = []
    by_base: typing.Dict[str, set] = {}
    for last in todo:
        bid = ev_id(dict(last, reuse=False))
        known = None
        if prefix:
            aid = ev_id(plain(last))
            if aid not in alone:
                raise HarnessError(f"no depth-1 result recorded for {aid}")
            known = set(alone[aid])
            if last["reuse"]:
                known |= by_base[bid]
        res = in_child(_leaf_exec, prefix + [last], lay, known)
        if not last["reuse"]:
            by_base[bid] = res["found"]
        res["history"] = prefix + [last]
        out.append(res)
    return out


def _history_job(job: dict) -> dict:
    """job: prefix (list of events), lasts (list of events), sigma ('none'|'one'|'two'), scratch."""
    lay = Layout(job["scratch"])
    permset.install()  # imports every nunavut module once in the pool worker; no generator code runs here
    permset.install_clock()
    pristine()
    prefix, lasts = job["prefix"], job["lasts"]
    results = in_child(_run_prefix_then, prefix, lasts, lay, _load_alone(lay) if prefix else {})
    executions = len(prefix) + len(results)
    found_by_event = {}
    if not prefix:
        found_by_event = {ev_id(res["history"][-1]): res["found"] for res in results}
    # sigma: schedules of the permuting-set choice points in nunavut._namespace (depth-1 jobs only)
    if job.get("sigma", "none") != "none" and not prefix:
        more = []
        for res in results:
            ev = res["history"][-1]
            trace = [permset.ChoicePoint(*cp) for cp in res["trace"]]
            for dev in permset.expand((), trace):
                e1 = dict(ev, dev=[list(d) for d in dev], expect=permset.arities(trace)[: dev[-1][0] + 1])
                r1 = in_child(_run_prefix_then, [], [e1], lay, {})[0]
                more.append(r1)
                if job["sigma"] == "two":
                    t1 = [permset.ChoicePoint(*cp) for cp in r1["trace"]]
                    for dev2 in permset.expand(dev, t1, light=True):
                        e2 = dict(ev, dev=[list(d) for d in dev2], expect=permset.arities(t1)[: dev2[-1][0] + 1])
                        more.append(in_child(_run_prefix_then, [], [e2], lay, {})[0])
        executions += len(more)
        results += more
    bag = Bag()
    digests = set()
    unique = 0
    for res in results:
        bag.merge(res["bag"])
        digests.add(res["digest"])
        unique += res["unique"]
    sample = results[0]["history"] if results else None
    sigma_points = sorted({cp[3] for res in results for cp in res["trace"]})
    return {
        "bag": bag,
        "executions": executions,
        "histories": len(results),
        "found_by_event": found_by_event,
        "digests": digests,
        "unique": unique,
        "sample": sample,
        "sigma_points": sigma_points,
        "deviating": sum(1 for res in results if res["history"][-1]["dev"]),
        "same_generator": sum(1 for res in results if res["history"][-1]["reuse_gen"]),
    }


# ------------------------------------------------------------------------------------------ alphabets
def full_alphabet() -> typing.List[typing.Tuple[dict, bool]]:
    """Depth 1: (event, explore sigma?) - every (N, S, pi) x lang x templates x pps; sigma is explored on pi = sorted."""
    out = []
    for ns in NAMESPACES:
        for lang in LANG_LIST:
            for tpl in TPLS:
                for pps in PPS:
                    for sub in closed_subsets(ns):
                        for pi in itertools.permutations(sub):
                            out.append((event(ns, pi, lang, tpl, pps), list(pi) == sorted(pi)))
    # family F: every non-default C++ language standard flavour (built-in templates), siblings with same-named fields
    for ns in ("same", "fan"):
        for std in CPP_STDS:
            for sub in closed_subsets(ns):
                for pi in itertools.permutations(sub):
                    out.append((event(ns, pi, "cpp", "builtin", "none", std=std), False))
    # family X: user templates that request unique names through another language's ln.<lang>.* filter
    for ns in ("fan", "same"):
        for lang in LANG_LIST:
            for sub in closed_subsets(ns):
                for pi in itertools.permutations(sub):
                    out.append((event(ns, pi, lang, "userx", "none"), False))
    return out


def option_histories() -> typing.List[typing.Tuple[dict, dict]]:
    """[a run with configuration v1 ; a run with configuration v2 != v1 for the same target, every object new] for every
    ordered pair of {default} + VARIANTS that apply to the target; compared with the fresh-process run with v2."""
    out = []
    for ns in ("strop", "fan"):
        names = sorted(NAMESPACES[ns]["deps"])
        for lang in LANG_LIST:
            vs: typing.List[typing.Optional[str]] = [None]
            vs += [v for v, d in VARIANTS.items() if lang in d.get("langs", LANG_LIST)]
            for v1 in vs:
                for v2 in vs:
                    if v1 != v2:
                        out.append((event(ns, names, lang, "builtin", "none", variant=v1), event(ns, names, lang, "builtin", "none", variant=v2)))
    return out


def _core_o(a: dict, b: dict) -> bool:
    if a["ns"] != "strop":
        return False
    pair = (a["variant"], b["variant"])
    return pair in (("prefix", None), (None, "prefix"), ("nostrop", None), ("suffix", None), ("reserved", None)) or (
        pair == ("asserts", None) and a["lang"] == "c"
    )


def cross_language_histories() -> typing.List[typing.Tuple[dict, dict]]:
    """[an earlier run for target Y (built-in templates, or a userx template) ; a userx run for target X]"""
    out = []
    fan = sorted(NAMESPACES["fan"]["deps"])
    for l1 in LANG_LIST:
        for tpl in ("builtin", "userx"):
            a = event("fan", fan, l1, tpl, "none")
            for ns in ("fan", "same"):
                for l2 in LANG_LIST:
                    out.append((a, event(ns, sorted(NAMESPACES[ns]["deps"]), l2, "userx", "none")))
    return out


def last_alphabet(nss: typing.Sequence[str], ppss: typing.Sequence[str]) -> typing.List[dict]:
    out = []
    for ns in nss:
        names = sorted(NAMESPACES[ns]["deps"])
        for sub in (names, [leaf(ns)]):
            for lang in LANG_LIST:
                for tpl in TPLS:
                    for pps in ppss:
                        out.append(event(ns, sub, lang, tpl, pps))
    return out


def prefix_alphabet(nss: typing.Sequence[str], ppss: typing.Sequence[str], tpls: typing.Sequence[str] = TPLS) -> typing.List[dict]:
    return [
        event(ns, sorted(NAMESPACES[ns]["deps"]), lang, tpl, pps)
        for ns in nss
        for lang in LANG_LIST
        for tpl in tpls
        for pps in ppss
    ]


FLAG_PAIRS = [(o, a) for o in (False, True) for a in (False, True)]  # (omit_serialization_support, embed_auditing_info)


def generator_reuse_histories() -> typing.List[typing.Tuple[dict, dict]]:
    """[gen(flags1) ; the SAME generator object(s): generate_all(flags2)] - every ordered pair of flag combinations
    (the equal pair = plain repetition), with and without a SupportGenerator next to the DSDLCodeGenerator."""
    out = []
    for ns in NS_DEEP:
        names = sorted(NAMESPACES[ns]["deps"])
        for lang in LANG_LIST:
            for tpl in TPLS:
                for pps in ("none", "limit"):
                    for support in (False, True):
                        for o1, a1 in FLAG_PAIRS:
                            e1 = event(ns, names, lang, tpl, pps, omit=o1, audit=a1, support=support)
                            for o2, a2 in FLAG_PAIRS:
                                out.append((e1, dict(e1, omit=o2, audit=a2, reuse_gen=True)))
                                out.append((e1, dict(e1, omit=o2, audit=a2)))  # all objects new, same process
    return out


def fault_histories() -> typing.List[typing.Tuple[dict, dict]]:
    """[a run that is REFUSED half-way (template assertion inside the file of the first / of a later type, after
    template-unique names and blank lines were produced) ; a run that must not notice]: the same generator object called
    again without the fault, and runs with all objects new (same / other target, user / built-in templates, with and
    without the LanguageContext of the refused run)."""
    out = []
    for ns in NS_DEEP:
        names = sorted(NAMESPACES[ns]["deps"])
        for lang in LANG_LIST:
            for ftpl in FAIL_TPLS:
                for pps in ("none", "limit"):
                    for support in (False, True):
                        e1 = event(ns, names, lang, ftpl, pps, omit=True, support=support)
                        if not faulting(e1):
                            raise HarnessError(f"namespace {ns} has no type named {FAIL_TPLS[ftpl]}")
                        out.append((e1, dict(e1, omit=False, reuse_gen=True)))
                        if support:
                            continue
                        for lang2 in LANG_LIST:
                            for tpl2 in TPLS:
                                for pps2 in ("none", "limit"):
                                    out.append((e1, event(ns, names, lang2, tpl2, pps2)))
                                    if lang2 == lang:
                                        out.append((e1, event(ns, names, lang2, tpl2, pps2, reuse=True)))
    return out


def _core_f(a: dict, b: dict) -> bool:
    if a["ns"] not in ("fan", "chain") or a["tpl"] != "failB":
        return False
    return b["reuse_gen"] or (b["lang"] == a["lang"] and b["tpl"] == "user" and b["pps"] == "limit")


def _core1(ev: dict) -> bool:
    if ev["ns"] == "docs":  # every order of the three documented types, built-in templates, every target
        return ev["tpl"] == "builtin" and ev["pps"] == "none" and len(ev["S"]) == 3
    if ev["ns"] == "clash":  # the two pairs of coinciding names, both orders, C and C++
        pairs = ({"x.FooBar.1.0", "x.foo.Bar.1.0"}, {"x.q.T.1.0", "x.Q.T.1.0"})
        return ev["lang"] in ("c", "cpp") and ev["tpl"] == "builtin" and ev["pps"] == "none" and set(ev["S"]) in pairs
    if ev.get("std") or ev["tpl"] == "userx":  # all types of the namespace, in sorted and in reversed order
        whole = len(ev["S"]) == len(NAMESPACES[ev["ns"]]["deps"]) and ev["S"] in (sorted(ev["S"]), sorted(ev["S"], reverse=True))
        return whole and ev["ns"] == ("same" if ev.get("std") else "fan")
    return ev["ns"] == "fan" and ((ev["tpl"] == "user" and ev["pps"] == "limit") or (ev["tpl"] == "builtin" and ev["pps"] == "none"))


def _core2(a: dict, b: dict) -> bool:
    twins = {a["ns"], b["ns"]} == {"twin_a", "twin_b"}
    return twins and a["lang"] == b["lang"] and a["tpl"] == b["tpl"] and b["pps"] == "limit" and len(b["S"]) > 1


def _core_g(a: dict, b: dict) -> bool:
    """One flag toggled between the two generate_all() calls of one generator pair (built-in templates, all 3 targets)."""
    if not (a["ns"] == "fan" and a["tpl"] == "builtin" and a["pps"] == "none" and a["support"]):
        return False
    fa, fb = (a["omit"], a["audit"]), (b["omit"], b["audit"])
    return sorted([fa, fb]) in ([(False, False), (True, False)], [(False, False), (False, True)])


# ------------------------------------------------------------------------------------------ the check
def _verify_deps(lay: Layout) -> None:
    """The hand-written dependency tables must agree with PyDSDL (restricted to generated types)."""
    import pydsdl  # pylint: disable=import-outside-toplevel

    for name, d in NAMESPACES.items():
        root = lay.inputs / name / d["root"]
        lookups = [str(lay.inputs / name / "lookup" / r) for r in d.get("lookup", {})]
        parsed = pydsdl.read_namespace(str(root), lookups, allow_unregulated_fixed_port_id=True)
        have = {}
        for t in parsed:
            deps = set()
            for a in t.attributes:
                dt = a.data_type
                dt = getattr(dt, "element_type", dt)
                if isinstance(dt, pydsdl.CompositeType) and str(dt).startswith(d["root"] + "."):
                    deps.add(str(dt))
            have[str(t)] = sorted(deps)
        want = {k: sorted(v) for k, v in d["deps"].items()}
        if have != want:
            raise HarnessError(f"dependency table of namespace {name} disagrees with PyDSDL: {have} vs {want}")


def run(ctx: Ctx) -> int:
    lay = Layout(ctx.scratch)
    lay.materialize()
    stamp = permset.tree_stamp()
    in_child(_verify_deps, lay)  # in a fork: the main interpreter must stay pristine (workers are forked from it)
    scratch = str(ctx.scratch)

    # ---- enumerate histories (deterministic; quick = core + seed slice: 1/16 of depth 1, 1/96 of depth 2, 1/96 of the
    # generator-object / option histories - thinner than 1/16 to keep the quick tier within ~350 CPU seconds)
    d1: typing.Dict[str, typing.Tuple[dict, bool]] = {}
    d1_space = 0
    for ev, sigma in full_alphabet():
        d1_space += 1
        added_later = ev["ns"] in ("same", "clash", "strop", "docs") or ev.get("std") or ev["tpl"] == "userx"  # thinner slice: quick CPU budget
        if ctx.thorough or _core1(ev) or ctx.in_slice("d1|" + ev_id(ev), 64 if added_later else 16):
            d1[ev_id(ev)] = (ev, sigma)
    P2 = prefix_alphabet(NS_DEEP, ["none", "limit"])
    L2 = last_alphabet(NS_DEEP, PPS)
    deep: typing.Dict[str, typing.Tuple[typing.List[dict], typing.List[dict]]] = {}  # prefix id -> (prefix, last events)
    d2_space = 0
    for a in P2:
        for b in L2:
            for reuse in (False, True):
                if reuse and a["lang"] != b["lang"]:
                    continue
                e = dict(b, reuse=reuse)
                d2_space += 1
                if ctx.thorough or _core2(a, b) or ctx.in_slice("d2|" + ev_id(a) + ">" + ev_id(e), 96):
                    deep.setdefault("2|" + ev_id(a), ([a], []))[1].append(e)
    d3_space = 0
    if ctx.thorough:
        N3 = ["twin_a", "twin_b", "fan"]
        P3 = prefix_alphabet(N3, ["limit"])
        L3 = last_alphabet(N3, ["none", "limit"])
        for a in P3:
            for b in P3:
                if b["lang"] != a["lang"]:
                    continue
                for c in L3:
                    if c["lang"] != a["lang"]:
                        continue
                    for reuse in (False, True):
                        pre = [a, dict(b, reuse=reuse)]
                        # (reuse, reuse) also brings its twin (reuse in the prefix only): see _run_prefix_then
                        d3_space += 2 if reuse else 1
                        deep.setdefault("3|" + ev_id(pre[0]) + ">" + ev_id(pre[1]), (pre, []))[1].append(dict(c, reuse=reuse))
        ctx.cap(
            "depth 3 is explored over a reduced alphabet (namespaces twin_a/twin_b/fan, one language per history, "
            "pps=limit in the prefix, LanguageContext reuse pattern in {never, always, prefix only})"
        )
    o_space = 0
    for a, b in option_histories():
        o_space += 1
        if ctx.thorough or _core_o(a, b) or ctx.in_slice("o|" + ev_id(a) + ">" + ev_id(b), 96):
            deep.setdefault("o|" + ev_id(a), ([a], []))[1].append(b)
    x_space = 0
    for a, b in cross_language_histories():  # cheap (user templates): all of them in both tiers
        x_space += 1
        deep.setdefault("x|" + ev_id(a), ([a], []))[1].append(b)
    g_space = 0
    for a, b in generator_reuse_histories():
        g_space += 1
        if ctx.thorough or _core_g(a, b) or ctx.in_slice("g|" + ev_id(a) + ">" + ev_id(b), 96):
            deep.setdefault("g|" + ev_id(a), ([a], []))[1].append(b)
    g_sel = sum(len(lasts) for key, (_, lasts) in deep.items() if key.startswith("g|"))
    f_space = 0
    for a, b in fault_histories():
        f_space += 1
        if ctx.thorough or _core_f(a, b) or ctx.in_slice("f|" + ev_id(a) + ">" + ev_id(b), 16):
            deep.setdefault("f|" + ev_id(a), ([a], []))[1].append(b)
    f_sel = sum(len(lasts) for key, (_, lasts) in deep.items() if key.startswith("f|"))
    ctx.cap(
        "depth >= 2: prefix events use the full type set in sorted order with pps in {none, limit} "
        "(TrimTrailingWhitespace is stateless, hence symmetric to none as a prefix); last events use S in "
        "{all types, one leaf type}, sorted order, default nested-namespace order; generator-object reuse is explored "
        "at depth 2 on the full type set (all 16 flag transitions x with/without support generator)"
    )
    # every last event is also a history of its own (depth 1): what it shows alone is not reported again at depth >= 2
    extra1 = 0
    for _, lasts in deep.values():
        for ev in lasts:
            base = plain(ev)
            if ev_id(base) not in d1:
                d1[ev_id(base)] = (base, False)
                extra1 += 1

    # ---- references (fresh processes)
    need: typing.Dict[str, list] = {}
    for ev, _ in d1.values():
        for key, rev in needed_refs(ev):
            need.setdefault(key, [key, rev])
    for _, lasts in deep.values():
        for ev in lasts:
            for key, rev in needed_refs(ev):
                need.setdefault(key, [key, rev])
    n_groups = max(1, min(2 * ctx.workers, len(need) // 4))
    groups: typing.List[list] = [[] for _ in range(n_groups)]
    for i, key in enumerate(sorted(need)):
        groups[i % n_groups].append(need[key])
    ref_jobs = [{"scratch": scratch, "refs": g} for g in groups if g]
    index: typing.Dict[str, dict] = {}
    for part in ctx.pool_map(_ref_job, ref_jobs):
        index.update(part)
    if set(index) != set(need):
        raise HarnessError("reference generation is incomplete")
    (lay.refs / "index.json").write_text(json.dumps(index))
    # self-check of the reference machinery: three references regenerated by a plain one-shot subprocess each
    for key in sorted(need)[:: max(1, len(need) // 3)][:3]:
        again = _ref_job({"scratch": scratch, "refs": [need[key]], "direct": True})
        if again[key]["files"] != index[key]["files"]:
            raise HarnessError(f"reference {key} is not reproducible across fresh processes")
    # vacuity: post-processors, the omit flag and the auditing flag must be effective in the references
    def _ref_bytes(k: str) -> bytes:
        return b"".join(_read_ref(lay, k, h) for _, h in sorted(index[k]["files"].items()))

    eff = {"limit": 0, "trim": 0, "omit": 0, "audit": 0}
    for key, (_, rev) in need.items():
        if rev["pps"] == "none" and rev["tpl"] == "user" and not flagged(rev):
            for pps in ("limit", "trim"):
                other = ref_key(dict(rev, pps=pps))
                if other in index and _ref_bytes(other) != _ref_bytes(key):
                    eff[pps] += 1
        for flag in ("omit", "audit"):
            if rev["tpl"] == "builtin" and rev[flag]:
                other = ref_key(dict(rev, **{flag: False}))
                if other in index and _ref_bytes(other) != _ref_bytes(key):
                    eff[flag] += 1
    if min(eff.values()) == 0:
        raise HarnessError(f"post-processors / generate_all() flags without visible effect on the references: {eff}")

    # ---- phase A: depth 1 (sigma explored on sorted pi)
    sig_mode = "two" if ctx.thorough else "one"
    jobs_a = []
    for mode in ("none", sig_mode):
        evs = [ev for _, (ev, sigma) in sorted(d1.items()) if (sig_mode if sigma else "none") == mode]
        size = 12 if mode == "none" else 4
        for i in range(0, len(evs), size):
            jobs_a.append({"prefix": [], "lasts": evs[i : i + size], "sigma": mode, "scratch": scratch})
    res_a = ctx.pool_map(_history_job, jobs_a)
    alone: typing.Dict[str, set] = {}
    for r in res_a:
        alone.update(r["found_by_event"])
    with open(lay.base / "alone.pkl", "wb") as f:
        pickle.dump(alone, f)
    # ---- phase B: depth 2 / 3 and generator-object reuse
    jobs_b = []
    for _, (pre, lasts) in sorted(deep.items()):
        for i in range(0, len(lasts), 40):
            jobs_b.append({"prefix": pre, "lasts": lasts[i : i + 40], "scratch": scratch})
    res_b = ctx.pool_map(_history_job, jobs_b)

    executions = len(need)
    histories = 0
    digests: typing.Set[str] = set()
    by_depth = {1: 0, 2: 0, 3: 0}
    unique = 0
    deviating = 0
    same_generator = 0
    sigma_points: typing.Set[str] = set()
    for job, r in zip(jobs_a + jobs_b, res_a + res_b):
        ctx.bag.merge(r["bag"])
        executions += r["executions"]
        histories += r["histories"]
        by_depth[len(job["prefix"]) + 1] += r["histories"]
        digests |= r["digests"]
        unique += r["unique"]
        deviating += r["deviating"]
        same_generator += r["same_generator"]
        sigma_points |= set(r["sigma_points"])
        if r["sample"] and len(ctx.samples) < 6:
            shape = (len(r["sample"]), r["sample"][-1]["reuse_gen"])
            if shape not in [(len(s), s[-1]["reuse_gen"]) for s in ctx.samples]:
                ctx.samples.append(r["sample"])
    if unique == 0:
        raise HarnessError("no template-unique name was ever emitted: the unique-name state is not exercised")
    if deviating == 0 or not sigma_points:
        raise HarnessError("no nested-namespace choice point was explored")
    if same_generator == 0:
        raise HarnessError("no history used a generator object twice")
    if f_sel == 0:
        raise HarnessError("no history with a refused run was explored")

    permset.assert_tree_unchanged(stamp)
    _confirm(ctx, lay)
    permset.assert_tree_unchanged(stamp)

    ctx.stats.update(
        cpu_seconds=round(sum(os.times()[:4]), 1),
        references=len(need),
        histories_depth1=by_depth[1],
        histories_depth2=by_depth[2],
        histories_depth3=by_depth[3],
        depth1_space_without_sigma=d1_space,
        depth1_events_added_as_last_events=extra1,
        depth2_space=d2_space,
        depth3_space=d3_space,
        generator_reuse_histories_run=same_generator,
        generator_reuse_space=g_space,
        fault_histories_run=f_sel,
        fault_history_space=f_space,
        sigma_schedules_run=deviating,
        sigma_choice_sites=sorted(sigma_points),
        unique_names_emitted=unique,
        effective_refs=eff,
    )
    cov = {
        "states": histories + len(need),
        "transitions": executions,
        "traces_validated_against_impl": executions,
        "evaluations": executions,
        "distinct_nontrivial": histories,
        "distinct_outcomes": len(digests),
        "rule": "state = history of generator invocations executed in one interpreter (a node of the history tree, "
        "materialized by fork()); transition = one real generator invocation; non-trivial = distinct histories whose "
        "last event was checked against fresh-process references (every history differs from the reference run in "
        "type set, order, schedule or prefix); distinct_outcomes = distinct output trees of last events",
        "bound_completed": (
            f"depth 1: {by_depth[1]} histories = ({'all' if ctx.thorough else 'core+slice of'} {d1_space} events: {len(NAMESPACES)} namespaces x "
            f"every dependency-closed subset x every permutation x 3 languages x 2 template sets x 3 pps, + C++ standards "
            f"{CPP_STDS} and cross-language unique-name templates on 2 namespaces) + nested-namespace "
            f"schedules with <={'2' if ctx.thorough else '1'} deviation(s) on sorted order + {extra1} option events; "
            f"depth 2: {by_depth[2] - g_sel - f_sel}/{d2_space + x_space + o_space} (incl. {x_space} cross-language unique-name histories and {o_space} configuration-change histories); generator object used twice with "
            f"(omit, auditing) flag transitions, and the same transitions with all objects new: {g_sel}/{g_space}; "
            f"refused run (template assertion inside the first / a later file) followed by the same generator object or by new objects: {f_sel}/{f_space}; depth 3: {by_depth[3]}/{d3_space}; "
            f"{len(need)} fresh-process references"
        ),
        "exhaustive": False,
    }
    return ctx.finish(
        "model_checking",
        cov,
        [
            "a forked copy of an interpreter that has only imported nunavut is a fresh process for the purpose of the "
            "references (three references per run are re-generated by one-shot subprocesses and compared)",
            "clock seam frozen; inputs at one absolute location (C07 owns clock and location)",
            "the SupportGenerator runs only in the generator-object histories (there it shares the post-processor list "
            "with the DSDLCodeGenerator as in the CLI); support files themselves are not compared (not per-type files)",
            "histories with generate_all() options or reused generator objects are compared with the fresh-process run "
            "of the same type set and the last event's options (not with per-type dependency closures)",
            "pydsdl.read_namespace is called anew for every event, as nunavut.generate_types does",
            "pydsdl 1.25 trusted as front end; dependency closure taken from a hand-written table cross-checked with it",
        ],
        min_outcomes=("distinct_outcomes", 50),
    )


# ------------------------------------------------------------------------------------------ confirm / replay
def _norm_history(history: typing.List[dict]) -> typing.List[dict]:
    """Replay files written before an event option existed lack its key."""
    return [dict(event(e["ns"], e["S"], e["lang"], e["tpl"], e["pps"]), **e) for e in history]


def _exec_history(history: typing.List[dict], lay: Layout, keep: bool = False) -> dict:
    pristine()
    for ev in history[:-1]:
        r = run_event(ev, lay)
        if r.error is not None:
            raise HarnessError(f"prefix event failed: {r.error}")
    return _leaf_exec(history, lay, None, keep)


def _ensure_refs(history: typing.List[dict], lay: Layout) -> None:
    idx_file = lay.refs / "index.json"
    index = json.loads(idx_file.read_text()) if idx_file.exists() else {}
    miss = [[k, rev] for k, rev in needed_refs(history[-1]) if k not in index]
    if miss:
        index.update(_ref_job({"scratch": str(lay.base.parent), "refs": miss}))
        idx_file.write_text(json.dumps(index))
    _REFS.clear()


def _confirm(ctx: Ctx, lay: Layout) -> None:
    for v in list(ctx.bag.v.values()):
        res = in_child(_exec_history, _norm_history(v.case["history"]), lay)
        sigs = {json.dumps(x.sig, sort_keys=True) for x in res["bag"].v.values()}
        want = dict(v.sig)
        if json.dumps(want, sort_keys=True) not in sigs:
            # at depth >= 2 the 'alone' filter is not applied on re-execution: accept the same cause under any dim
            causes = {(x.sig["file_kind"], x.sig["cause"]) for x in res["bag"].v.values()}
            if (want["file_kind"], want["cause"]) not in causes:
                raise HarnessError(f"violation {json.dumps(want, sort_keys=True)} did not reproduce from its recorded history")


def replay(ctx: Ctx, case: dict) -> int:
    import difflib  # pylint: disable=import-outside-toplevel

    lay = Layout(ctx.scratch)
    lay.materialize()
    history = _norm_history(case["history"])
    _ensure_refs(history, lay)
    res = in_child(_exec_history, history, lay, True)
    print("history:")
    for ev in history:
        print("   gen " + ev_id(ev))
    for v in res["bag"].v.values():
        print(f"  {json.dumps(v.sig, sort_keys=True)}\n     {v.what}")
    r: EvResult = res["result"]
    refs = _load_refs(lay)
    ev = history[-1]
    shown = 0
    for key, rev in needed_refs(ev):
        whole_set = flagged(ev) or rev["S"] == sorted(ev["S"]) and len(needed_refs(ev)) > len(ev["S"]) and key == needed_refs(ev)[-1][0]
        for rel, h in sorted(refs[key]["files"].items()):
            is_t = refs[key]["type_path"].get(rev["S"][0]) == rel or (flagged(ev) and rel in refs[key]["type_path"].values())
            is_ns = rel in refs[key]["ns_paths"] and whole_set
            if not (is_t or is_ns) or rel not in r.files:
                continue
            ref = _read_ref(lay, key, h)
            if ref != r.files[rel] and shown < 4:
                shown += 1
                d = difflib.unified_diff(
                    ref.decode("utf-8", "replace").splitlines(),
                    r.files[rel].decode("utf-8", "replace").splitlines(),
                    "fresh-process/" + rel,
                    "history/" + rel,
                    lineterm="",
                    n=1,
                )
                print("\n".join(line[:160] for line in itertools.islice(d, 24)))
    print("invariant violated" if len(res["bag"]) else "invariant holds")
    return 1 if len(res["bag"]) else 0
