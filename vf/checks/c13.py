"""
C13 - configuration sources are merged with a fixed, order-insensitive precedence (model checking of merge histories).

Part A  the merge function.  Real `nunavut._utilities.deep_update` is driven with EVERY sequence of <= 3 source
        documents taken from bounded universes of nested maps over keys {a, b} (leaves: explicit 1/2, DefaultValue(1)/
        DefaultValue(2), a list, sub-maps up to depth 3).  Oracles: (1) the accumulated result equals an independent
        reference merge on immutable canonical values (default marks included); (2) after the sequence every source
        document still equals its pristine canonical form (no mutation through aliasing).

Part B  the builders.  Explicit-state search over histories of real API calls in a fresh interpreter per history
        (a forked child): LanguageContextBuilder.add_config_files(F0|F1|F2), set_target_language_configuration_override
        (explicit / DefaultValue-marked / nested-map values, the value objects shared by all builders of the history),
        create(); <= 4 events (+ a final create) on one builder, and two builders in sequence; plus the CLI path
        (nnvg --list-configuration and ArgparseRunner._create_language_context) over store-true flags x
        --language-standard x --configuration file orders x endianness x extension.  Invariants: everything a created
        context reports (config sections, Language.get_options/get_option/get_config_value*/extension, `options` seen by
        a probe template, the --list-configuration dump) equals the reference precedence model; the C++ shorthands set
        their documented group; override documents handed to the API stay unmodified; a context created by an EARLIER
        builder reports the same after every event of a LATER builder.
"""
from __future__ import annotations

import itertools
import json
import os
import pathlib
import pickle
import traceback
import typing

from vf import c13ref as R
from vf.core import REPO, Bag, Ctx, HarnessError, stable_hash

# =====================================================================================================================
# Part A
# =====================================================================================================================
_UNI: typing.Dict[str, typing.List[R.Canon]] = {}


def universes() -> typing.Dict[str, typing.List[R.Canon]]:
    if not _UNI:
        full = [R.LEAF[k] for k in ("1", "2", "D1", "D2", "L")]
        trim = [R.LEAF["1"], R.LEAF["D2"]]
        _UNI["L1"] = R.maps_full(1, full)  # 36: depth 1, both keys, every leaf kind
        _UNI["C3"] = R.maps_chain(3, full)  # 77: depth <= 3, one key (a|b) per map, every leaf kind
        _UNI["T2"] = R.maps_full(2, trim)  # 144: depth <= 2, both keys, leaves {1, Default(2)}
        _UNI["F2"] = R.maps_full(2, full)  # 1764: depth <= 2, both keys, every leaf kind
        _UNI["T3"] = R.maps_full(3, trim)  # 21609: depth <= 3, both keys, leaves {1, Default(2)}
        # 14: key a only, leaves incl. the falsy / None / string / empty-container values a truthiness test would confuse
        _UNI["X1"] = [R.EMPTY] + [("m", (("a", R.to_canon(v)),)) for v in R.EXTRA_LEAVES]
    return _UNI


# plan: (tag, universes per position, lengths evaluated, {length: prefix length used for the quick slice})
A_PLANS: typing.List[typing.Tuple[str, typing.Tuple[str, ...], typing.Tuple[int, ...], typing.Dict[int, int]]] = [
    ("L1", ("L1", "L1", "L1"), (1, 2, 3), {}),
    ("C3", ("C3", "C3", "C3"), (1, 2, 3), {}),
    ("T2", ("T2", "T2", "T2"), (1, 2, 3), {3: 2}),
    ("F2", ("F2", "F2"), (1, 2), {2: 1}),
    ("T3", ("T3",), (1,), {}),
    ("X1", ("X1", "X1", "X1"), (1, 2, 3), {}),
    ("T3xC3", ("T3", "C3"), (2,), {2: 1}),
    ("C3xT3", ("C3", "T3"), (2,), {2: 2}),
]
KINDS_EARLIER = ("absent", "explicit", "default", "list", "map")
KINDS_LATER = ("explicit", "default", "list", "map")


def enc(c: typing.Any) -> typing.Any:
    """canonical -> json-able"""
    return [enc(x) for x in c] if isinstance(c, tuple) else c


def dec(j: typing.Any) -> typing.Any:
    return tuple(dec(x) for x in j) if isinstance(j, list) else j


class AResult:
    def __init__(self) -> None:
        self.bag = Bag()
        self.evals = 0
        self.merges = 0
        self.states: typing.Set[int] = set()
        self.nontrivial = 0
        self.contests: typing.Set[typing.Tuple[str, str]] = set()
        self.alias_maps = 0  # result shares a dict object with a source (statistic only)
        self.space: typing.Dict[str, int] = {}
        self.done: typing.Dict[str, int] = {}


_IMPL: typing.List[typing.Any] = []


def _impl() -> typing.Tuple[typing.Any, typing.Any]:
    if not _IMPL:
        from nunavut._utilities import DefaultValue, deep_update  # the code under test

        _IMPL.extend([DefaultValue, deep_update])
    return _IMPL[0], _IMPL[1]


def eval_sequence(seq: typing.Sequence[R.Canon], ref: R.Canon, shallow: R.Canon, res: AResult) -> None:
    """one trace: merge the sources (fresh objects) with the real deep_update, compare with the reference."""
    DefaultValue, deep_update = _impl()
    srcs = [R.build(t) for t in seq]
    acc: typing.Any = {}
    res.evals += 1
    res.merges += len(seq)
    case = {"part": "A", "seq": [enc(t) for t in seq]}
    try:
        for s in srcs:
            acc = deep_update(acc, s)
    except Exception as e:  # pylint: disable=broad-except
        res.bag.add(
            {"part": "A", "kind": "exception", "type": type(e).__name__},
            case,
            f"deep_update raised {type(e).__name__}: {e} merging {[R.show(t) for t in seq]}",
        )
        return
    got = R.canon_impl(acc, DefaultValue)
    res.states.add(hash(got))
    if ref != shallow:
        res.nontrivial += 1
    if got != ref:
        d = R.first_diff(R.unwrap(got), R.unwrap(ref))
        marks_only = d is None
        if d is None:
            d = R.first_diff(got, ref)
        assert d is not None
        path, g, x = d
        # feature of the input that decides: the kinds of the last two values the sources supply at that path
        supplied = [R.kind(R.cget(t, *path)) for t in seq]
        supplied = [k for k in supplied if k != "absent"] or ["absent"]
        contest = ">".join(supplied[-2:])
        res.bag.add(
            {
                "part": "A",
                "kind": "mark_mismatch" if marks_only else "value_mismatch",
                "expected": R.kind(x),
                "got": R.kind(g),
                "contest": contest,
            },
            case,
            f"merging {' then '.join(R.show(t) for t in seq)}: at {'.'.join(path)} got {R.show(g)}, "
            f"reference precedence gives {R.show(x)}",
        )
    for j, s in enumerate(srcs):
        now = R.canon_impl(s, DefaultValue)
        if now != seq[j]:
            d = R.first_diff(now, seq[j])
            assert d is not None
            path = d[0]
            before = R.EMPTY
            for t in seq[:j]:
                before = R.ref_merge(before, t)
            displaced = "map"
            for n in range(1, len(path) + 1):
                v = R.cget(before, *path[:n])
                if v is None or v[0] != "m":
                    displaced = R.kind(v)
                    break
            res.bag.add(
                {"part": "A", "kind": "source_mutated", "displaced": displaced},
                case,
                f"source document #{j} {R.show(seq[j])} was modified to {R.show(now)} by merging "
                f"{' then '.join(R.show(t) for t in seq)} (its map replaced a value of kind '{displaced}' and "
                f"a later source was merged into the sub-map shared with the result)",
            )
    if len(seq) == 2:
        for k in R.KEYS:
            v1 = R.cget(seq[1], k)
            if v1 is not None:
                res.contests.add((R.kind(R.cget(seq[0], k)), R.kind(v1)))


def _work_a(job: dict) -> AResult:
    uni = universes()
    unis = [uni[n] for n in job["unis"]]
    lens, slice_at, sel, tag = set(job["lens"]), job["slice_at"], job["sel"], job["tag"]
    res = AResult()

    def picked(n: int, prefix: typing.Tuple[int, ...]) -> bool:
        if sel is None or n not in slice_at:
            return True
        p = prefix[: slice_at[n]]
        return stable_hash(f"A|{tag}|{n}|{','.join(map(str, p))}") % 16 == sel

    def note(n: int, total: int, done: int) -> None:
        key = f"{tag}/len{n}"
        res.space[key] = res.space.get(key, 0) + total
        res.done[key] = res.done.get(key, 0) + done

    for i in job["first"]:
        t0 = unis[0][i]
        r0 = R.ref_merge(R.EMPTY, t0)
        s0 = R.shallow_update(R.EMPTY, t0)
        if 1 in lens:
            eval_sequence((t0,), r0, s0, res)
            note(1, 1, 1)
        if len(unis) < 2:
            continue
        n2 = len(unis[2]) if len(unis) > 2 else 0
        for j, t1 in enumerate(unis[1]):
            need2 = 2 in lens and picked(2, (i, j))
            need3 = 3 in lens and picked(3, (i, j))
            if 2 in lens:
                note(2, 1, 1 if need2 else 0)
            if 3 in lens:
                note(3, n2, n2 if need3 else 0)
            if not (need2 or need3):
                continue
            r1 = R.ref_merge(r0, t1)
            s1 = R.shallow_update(s0, t1)
            if need2:
                eval_sequence((t0, t1), r1, s1, res)
            if need3:
                for t2 in unis[2]:
                    eval_sequence((t0, t1, t2), R.ref_merge(r1, t2), R.shallow_update(s1, t2), res)
    return res


def jobs_a(ctx: Ctx) -> typing.List[dict]:
    uni = universes()
    sel = None if ctx.thorough else ctx.seed % 16
    jobs = []
    for tag, names, lens, slice_at in A_PLANS:
        n0 = len(uni[names[0]])
        per_first = 1
        for n in names[1:]:
            per_first *= len(uni[n])
        shard = max(1, min(n0, 50_000 // max(1, per_first)))
        for start in range(0, n0, shard):
            jobs.append(
                {
                    "tag": tag,
                    "unis": names,
                    "lens": lens,
                    "slice_at": slice_at,
                    "sel": sel,
                    "first": list(range(start, min(n0, start + shard))),
                }
            )
    return jobs


# =====================================================================================================================
# Part B
# =====================================================================================================================
PROBE_KEYS = ("zz", "zd", "zl", "zmap", "extension", "namespace_file_stem", "enable_stropping", "stropping_suffix", "znone")
OPTION_PROBES = (
    "enable_serialization_asserts",
    "omit_float_serialization_support",
    "enable_override_variable_array_capacity",
    "target_endianness",
    "zz_opt",
    "zz_new",
    "std",
    "ctor_convention",
    "allocator_type",
    "znone",
)
UNSET = "<unset>"
# DESIGN.md fixes "a context created earlier" as a context of an EARLIER BUILDER.  Contexts of the same builder share the
# builder's LanguageConfig by documented design ("the config is scoped by the builder"), so a later create() on the same
# builder is visible through them; that is counted (stats) and only reported when this switch is turned on.
REPORT_SAME_BUILDER_SHARING = False
PROBE_TEMPLATE = "{% for k, v in options.items() %}{{ k }}\x01{{ v }}\x01{{ 'T' if v else 'F' }}\x02{% endfor %}"
CLI_FLAGS = (
    ("omit_float_serialization_support", "--omit-float-serialization-support"),
    ("enable_serialization_asserts", "--enable-serialization-asserts"),
    ("enable_override_variable_array_capacity", "--enable-override-variable-array-capacity"),
)

_BUILTIN: typing.Dict[str, typing.Dict[str, R.Canon]] = {}


def builtin_config() -> typing.Dict[str, R.Canon]:
    """The built-in defaults, read by the harness itself (not through nunavut)."""
    key = str(REPO)
    if key not in _BUILTIN:
        import yaml

        p = REPO / "src" / "nunavut" / "lang" / "properties.yaml"
        try:
            loader = getattr(yaml, "CSafeLoader", yaml.SafeLoader)
            with open(p, "r", encoding="utf-8") as f:
                doc = yaml.load(f, Loader=loader)
        except Exception as e:  # pylint: disable=broad-except
            raise HarnessError(f"cannot read built-in properties {p}: {e}") from e
        _BUILTIN[key] = {sec: R.to_canon(m) for sec, m in doc.items()}
    return _BUILTIN[key]


def write_config_files(root: pathlib.Path) -> None:
    import yaml

    for lang in R.LANGS:
        d = root / lang
        d.mkdir(parents=True, exist_ok=True)
        for name, doc in R.file_docs(lang).items():
            (d / f"{name}.yaml").write_text(yaml.safe_dump(doc), encoding="utf-8")
            (d / "alias").mkdir(exist_ok=True)  # F0.yaml is also reachable as alias/../F0.yaml
    (root / "ns").mkdir(exist_ok=True)


def _try(fn: typing.Callable[[], typing.Any]) -> typing.Tuple[str, typing.Any]:
    try:
        return ("ok", fn())
    except HarnessError:
        raise
    except Exception as e:  # pylint: disable=broad-except
        return ("raise", type(e).__name__)


class HistoryRunner:
    """Executes one history (API or CLI) against the real implementation and the reference, in this interpreter."""

    def __init__(self, cfgdir: str) -> None:
        from nunavut._utilities import DefaultValue

        self.DV = DefaultValue
        self.cfgdir = pathlib.Path(cfgdir)
        self.builtin = builtin_config()
        self.docs = {lang: {n: {s: R.to_canon(m) for s, m in d.items()} for n, d in R.file_docs(lang).items()} for lang in R.LANGS}
        # override value objects: built once per interpreter, shared by all builders of the history
        self.ovr_impl = {name: (key, R.to_impl(spec)) for name, (key, spec) in R.OVERRIDES.items()}
        self.ovr_canon = {name: (key, R.to_canon(spec)) for name, (key, spec) in R.OVERRIDES.items()}
        self.used_ovr: typing.Set[str] = set()
        self.violations: typing.List[typing.Tuple[dict, str]] = []
        self.tainted = False
        self.transitions = 0
        self.states: typing.Set[int] = set()
        self.outcomes: typing.Set[int] = set()
        self.nontrivial: typing.Set[int] = set()
        self.stats: typing.Dict[str, int] = {}
        # (builder index, context, observation at creation, description)
        self.contexts: typing.List[typing.List[typing.Any]] = []

    # ------------------------------------------------------------------ helpers
    def stat(self, key: str, n: int = 1) -> None:
        self.stats[key] = self.stats.get(key, 0) + n

    def canon(self, obj: typing.Any) -> R.Canon:
        return R.canon_impl(obj, self.DV)

    def count_marks(self, c: R.Canon) -> int:
        if c[0] == "d":
            return 1
        if c[0] == "m":
            return sum(self.count_marks(v) for _, v in c[1])
        if c[0] == "l":
            return sum(self.count_marks(v) for v in c[1])
        return 0

    def violate(self, sig: dict, what: str) -> None:
        sig = dict(sig)
        sig["part"] = "B"
        sig["tainted"] = bool(self.tainted)
        self.violations.append((sig, what))

    # ------------------------------------------------------------------ observation of a real context
    def observe(self, lctx: typing.Any, template: bool = True) -> typing.Dict[str, typing.Any]:
        tl = lctx.get_target_language()
        obs: typing.Dict[str, typing.Any] = {}
        raw = {sec: self.canon(m) for sec, m in lctx.config.sections().items()}
        obs["marks"] = sum(self.count_marks(m) for m in raw.values())
        obs["sections"] = {sec: R.unwrap(m) for sec, m in raw.items()}
        obs["options"] = _try(lambda: R.unwrap(self.canon(tl.get_options())))
        for k in OPTION_PROBES:
            obs["opt:" + k] = _try(lambda k=k: R.unwrap(self.canon(tl.get_option(k, UNSET))))  # type: ignore
        for k in PROBE_KEYS:
            obs["str:" + k] = _try(lambda k=k: tl.get_config_value(k, UNSET))  # type: ignore
            obs["bool:" + k] = _try(lambda k=k: tl.get_config_value_as_bool(k))  # type: ignore
            obs["dict:" + k] = _try(lambda k=k: R.unwrap(self.canon(tl.get_config_value_as_dict(k, {UNSET: 1}))))  # type: ignore
            obs["list:" + k] = _try(lambda k=k: R.unwrap(self.canon(tl.get_config_value_as_list(k, [UNSET]))))  # type: ignore
        obs["prop:extension"] = _try(lambda: tl.extension)
        # a Language object of the context that is not the target (js: configured by F1 / F2 only)
        obs["other:js:extension"] = _try(lambda: lctx.get_language("js").extension)
        obs["other:js:zjs"] = _try(lambda: R.unwrap(self.canon(lctx.get_language("js").get_config_value_as_dict("zjs", {UNSET: 1}))))  # type: ignore
        obs["prop:name"] = _try(lambda: tl.name)
        if template:
            # only at creation: a probe environment copies get_options() when it is built, so re-rendering later adds
            # nothing to re-reading get_options()
            obs["template"] = _try(lambda: self.render_options(lctx))
        return obs

    @staticmethod
    def render_options(lctx: typing.Any) -> typing.Tuple[typing.Tuple[str, str, str], ...]:
        from nunavut.jinja.environment import CodeGenEnvironment
        from nunavut.jinja.jinja2 import DictLoader

        env = CodeGenEnvironment(DictLoader({"probe.j2": PROBE_TEMPLATE}), lctx, False, False, None, None, None, [], False)
        text = env.get_template("probe.j2").render()
        rows = []
        for rec in text.split("\x02"):
            if rec:
                parts = rec.split("\x01")
                if len(parts) != 3:
                    raise HarnessError(f"probe template output not parseable: {text!r}")
                rows.append((parts[0], parts[1], parts[2]))
        return tuple(sorted(rows))

    # ------------------------------------------------------------------ expectation
    def accepted_options(self, rc: R.RefContext) -> typing.Tuple[typing.Dict[str, R.Canon], typing.Dict[str, typing.Set[R.Canon]]]:
        """expected options (unwrapped) and, for the keys the statement leaves open, the further accepted values."""
        sec = rc.cfg[R.section(rc.lang)]
        opts = R.cget(sec, "options")
        exp = dict(R.unwrap(opts)[1]) if opts is not None and opts[0] == "m" else {}
        alt: typing.Dict[str, typing.Set[R.Canon]] = {}
        if rc.lang == "py":
            # the Python language object forces this option on; not a configuration source, statement silent
            alt["enable_serialization_asserts"] = {("s", "bool", True)}
        if rc.lang == "cpp" and rc.requested_std is not None:
            group = R.cget(sec, "defaults", rc.requested_std)
            if group is not None and group[0] == "m":
                for k, _ in group[1]:
                    if k in rc.user_explicit_opts and k != "std":
                        # shorthand group vs. an explicit user value for a member of the group: statement silent
                        alt.setdefault(k, set()).add(R.unwrap(rc.user_explicit_opts[k]))
        return exp, alt

    def compare(self, obs: typing.Dict[str, typing.Any], rc: R.RefContext, path: str, desc: str) -> None:
        lang = rc.lang
        secname = R.section(lang)
        mism: typing.List[typing.Tuple[str, str, str, str]] = []  # via, key, expected, got
        exp_opts, alt = self.accepted_options(rc)

        def opt_ok(k: str, got: typing.Optional[R.Canon]) -> bool:
            exp = exp_opts.get(k)
            if got == exp:
                return True
            if got is not None and got in alt.get(k, ()):
                self.stat("statement_silent:" + ("py_forced_asserts" if lang == "py" else "group_vs_explicit_member"))
                return True
            return False

        def cmp_opts(via: str, got_map: typing.Optional[R.Canon]) -> None:
            if got_map is None or got_map[0] != "m":
                mism.append((via, "options", R.show(("m", tuple(sorted(exp_opts.items())))), R.show(got_map)))
                return
            got = dict(got_map[1])
            for k in sorted(set(got) | set(exp_opts)):
                if not opt_ok(k, got.get(k)):
                    d = R.first_diff(got.get(k), exp_opts.get(k))
                    assert d is not None
                    mism.append((via, ".".join(("options", k) + d[0]), R.show(d[2])[:200], R.show(d[1])[:200]))

        # 1. the configuration sections the context exposes
        sections = obs["sections"]
        for sec in sorted(set(sections) | set(rc.cfg)):
            got_sec, exp_sec = sections.get(sec), rc.cfg.get(sec)
            exp_sec = R.unwrap(exp_sec) if exp_sec is not None else None
            if sec != secname or got_sec is None or exp_sec is None:
                d = R.first_diff(got_sec, exp_sec)
                if d is not None:
                    mism.append(("sections", sec + "/" + ".".join(d[0][:2]), R.show(d[2])[:200], R.show(d[1])[:200]))
                continue
            gd, ed = dict(got_sec[1]), dict(exp_sec[1])
            for k in sorted(set(gd) | set(ed)):
                if k == "options" and ed.get(k) is not None and ed[k][0] == "m":
                    cmp_opts("sections", gd.get(k))
                    continue
                d = R.first_diff(gd.get(k), ed.get(k))
                if d is not None:
                    mism.append(("sections", ".".join((k,) + d[0][:2]), R.show(d[2])[:200], R.show(d[1])[:200]))
        # 2. Language.get_options / get_option
        st, val = obs["options"]
        if st != "ok":
            mism.append(("get_options", "options", "a mapping", f"raised {val}"))
        else:
            cmp_opts("get_options", val)
        for k in OPTION_PROBES:
            st, val = obs["opt:" + k]
            if st != "ok":
                mism.append(("get_option", "options." + k, R.show(exp_opts.get(k)), f"raised {val}"))
                continue
            got = None if (val == ("s", "str", UNSET) and k not in exp_opts) else val
            if k not in exp_opts and got is None:
                continue
            if not opt_ok(k, got):
                mism.append(("get_option", "options." + k, R.show(exp_opts.get(k)), R.show(got)))
        # 3. Language.get_config_value*
        sec = R.unwrap(rc.cfg[secname])
        for k in PROBE_KEYS:
            v = R.cget(sec, k)
            scalar = v is not None and v[0] == "s"
            if v is None or scalar:
                exp_s = UNSET if v is None else R.ref_as_str(v[2])
                if obs["str:" + k] != ("ok", exp_s):
                    mism.append(("get_config_value", k, repr(exp_s), repr(obs["str:" + k])))
                exp_b = False if v is None else R.ref_as_bool(R.ref_as_str(v[2]))
                if obs["bool:" + k] != ("ok", exp_b):
                    mism.append(("get_config_value_as_bool", k, repr(exp_b), repr(obs["bool:" + k])))
            exp_d = v if v is not None and v[0] == "m" else R.to_canon({UNSET: 1})
            if obs["dict:" + k] != ("ok", exp_d):
                d = R.first_diff(obs["dict:" + k][1] if obs["dict:" + k][0] == "ok" else None, exp_d)
                mism.append(("get_config_value_as_dict", ".".join((k,) + (d[0] if d else ())), R.show(exp_d), str(obs["dict:" + k])[:200]))
            exp_l = v if v is not None and v[0] == "l" else R.to_canon([UNSET])
            if obs["list:" + k] != ("ok", exp_l):
                mism.append(("get_config_value_as_list", k, R.show(exp_l), str(obs["list:" + k])[:200]))
        ext = R.cget(sec, "extension")
        if ext is not None and ext[0] == "s" and obs["prop:extension"] != ("ok", R.ref_as_str(ext[2])):
            mism.append(("Language.extension", "extension", R.show(ext), repr(obs["prop:extension"])))
        if obs["prop:name"] != ("ok", lang):
            mism.append(("Language.name", "target_language", lang, repr(obs["prop:name"])))
        # 3b. the other Language objects of the context follow the same merged configuration
        js = R.unwrap(rc.cfg["nunavut.lang.js"])
        jext = R.cget(js, "extension")
        if jext is not None and jext[0] == "s" and obs["other:js:extension"] != ("ok", R.ref_as_str(jext[2])):
            mism.append(("get_language('js').extension", "nunavut.lang.js/extension", R.show(jext), repr(obs["other:js:extension"])))
        zjs = R.cget(js, "zjs")
        exp_z = zjs if zjs is not None and zjs[0] == "m" else R.to_canon({UNSET: 1})
        if obs["other:js:zjs"] != ("ok", exp_z):
            mism.append(("get_language('js').get_config_value_as_dict", "nunavut.lang.js/zjs", R.show(exp_z), str(obs["other:js:zjs"])[:200]))
        # 4. `options` as a template sees it
        st, rows = obs["template"]
        if st != "ok":
            mism.append(("template", "options", "rendered", f"raised {rows}"))
        else:
            seen = {k: (v, t) for k, v, t in rows}
            for k in sorted(set(seen) | set(exp_opts)):
                cands = [exp_opts[k]] if k in exp_opts else []
                cands += sorted(alt.get(k, ()), key=repr)
                ok = False
                for c in cands:
                    pv = R.plain(c)
                    truth = "T" if pv else "F"
                    if k in seen and seen[k][1] == truth:
                        if c[0] != "s" or seen[k][0] == str(pv):
                            ok = True
                        elif seen[k][0] == f"DefaultValue({pv})":
                            self.stat("default_marker_rendered_in_template")
                            ok = True
                    if ok:
                        if c is not cands[0]:
                            self.stat("statement_silent:template_alt")
                        break
                if not ok:
                    mism.append(("template", "options." + k, R.show(exp_opts.get(k)), repr(seen.get(k))))
        # 5. the documented shorthand groups
        if lang == "cpp" and rc.requested_std in R.SHORTHAND_STD:
            std = rc.requested_std
            group = R.cget(rc.cfg[secname], "defaults", std)
            gkeys = set(k for k, _ in group[1]) if group is not None and group[0] == "m" else set()
            for k in R.DOCUMENTED_GROUP_KEYS + ("std",):
                if k not in gkeys:
                    self.violate(
                        {"kind": "group_incomplete", "std": std, "key": k, "path": path},
                        f"{desc}: shorthand {std} does not set documented option {k}",
                    )
            if obs["options"][0] == "ok" and obs["options"][1][0] == "m":
                got = dict(obs["options"][1][1])
                for k, want in (("std", R.SHORTHAND_STD[std]), ("ctor_convention", "uses-trailing-allocator")):
                    if got.get(k) != ("s", "str", want) and got.get(k) not in alt.get(k, ()):
                        self.violate(
                            {"kind": "group_not_applied", "std": std, "key": k, "path": path},
                            f"{desc}: --language-standard/std {std} must resolve {k} to {want!r}, context reports "
                            f"{R.show(got.get(k))}",
                        )
            self.stat("shorthand_contexts")
        if obs["marks"]:
            self.stat("contexts_with_default_marks_left_in_config")
        if not rc.pure_equal:
            self.stat("recreate_state_differs_from_stateless_precedence")
        seen_keys = set()
        for via, key, exp, got in mism:
            if key in seen_keys:
                continue
            seen_keys.add(key)
            self.violate(
                {"kind": "precedence_mismatch", "path": path, "via": via, "key": key},
                f"{desc}: {via} reports {key} = {got}; reference precedence (explicit CLI/API > later file > earlier "
                f"file > built-in, defaults never displace explicit) gives {exp}",
            )

    # ------------------------------------------------------------------ invariants checked after every event
    def check_sources(self, desc: str) -> None:
        for name in sorted(self.used_ovr):
            key, obj = self.ovr_impl[name]
            now = self.canon(obj)
            want = self.ovr_canon[name][1]
            if now != want:
                d = R.first_diff(now, want)
                self.tainted = True
                self.violate(
                    {"kind": "source_mutated", "source": name},
                    f"{desc}: the override document passed for '{key}' ({name}) was modified by the library at "
                    f"{'.'.join(d[0]) if d else '?'}: now {R.show(d[1]) if d else '?'}, was {R.show(d[2]) if d else '?'}",
                )
                # report once; keep the mutated object (its consequences are part of the history)
                self.ovr_canon[name] = (key, now)

    def check_earlier(self, builder_index: int, desc: str) -> None:
        for rec in self.contexts:
            bi, lctx, then, cdesc = rec
            if bi == builder_index:
                continue
            now = self.observe(lctx, template=False)
            if now != then:
                key = "?"
                for k in sorted(now):
                    if now[k] != then[k]:
                        key = k
                        if k == "sections":
                            for sec in sorted(now[k]):
                                d = R.first_diff(now[k].get(sec), then[k].get(sec))
                                if d is not None:
                                    key = sec + "/" + ".".join(d[0][:2])
                                    break
                        break
                self.violate(
                    {"kind": "earlier_context_changed", "key": key},
                    f"{desc}: the context created earlier by {cdesc} now reports a different {key}",
                )
                rec[2] = now

    def note_same_builder(self, builder_index: int, desc: str = "") -> None:
        for rec in self.contexts:
            bi, lctx, then, cdesc = rec
            if bi == builder_index:
                now = self.observe(lctx, template=False)
                if now != then:
                    self.stat("same_builder_earlier_context_follows_later_create")
                    if REPORT_SAME_BUILDER_SHARING:
                        self.violate(
                            {"kind": "earlier_context_of_same_builder_changed"},
                            f"{desc}: the context created earlier by {cdesc} (same builder) reports different values now",
                        )
                    rec[2] = now

    def note_state(self, rb: R.RefBuilder) -> None:
        self.states.add(hash((rb.cfg.get(rb.sec), rb._pending_map())))  # pylint: disable=protected-access

    def note_outcome(self, obs: typing.Dict[str, typing.Any], rb: R.RefBuilder, initial: R.Canon) -> None:
        fp = hash(tuple(sorted((k, repr(v)) for k, v in obs.items() if k != "sections")) + (repr(obs["sections"].get(rb.sec)),))
        self.outcomes.add(fp)
        if obs["sections"].get(rb.sec) != initial:
            self.nontrivial.add(fp)

    # ------------------------------------------------------------------ API histories
    def run_api(self, builders: typing.Sequence[dict]) -> None:
        from nunavut.lang import LanguageContextBuilder

        for bi, spec in enumerate(builders):
            lang = spec["lang"]
            events = list(spec["events"]) + ["CREATE"]
            tag = f"builder#{bi + 1}[{lang}]"
            b = LanguageContextBuilder(include_experimental_languages=True).set_target_language(lang)
            b.add_config_files(self.cfgdir / lang / "base.yaml")
            rb = R.RefBuilder(self.builtin, lang)
            rb.add_file(self.docs[lang]["base"])
            initial = R.unwrap(rb.cfg[rb.sec])
            self.note_state(rb)
            for n, ev in enumerate(events):
                desc = f"{tag} after {','.join(events[: n + 1])}"
                self.transitions += 1
                if ev in ("F0", "F1", "F2"):
                    b.add_config_files(self.cfgdir / lang / f"{ev}.yaml")
                    rb.add_file(self.docs[lang][ev])
                elif ev == "F21":  # two files handed over in ONE call (what --configuration a b does): F2, then F1
                    b.add_config_files(self.cfgdir / lang / "F2.yaml", self.cfgdir / lang / "F1.yaml")
                    rb.add_file(self.docs[lang]["F2"])
                    rb.add_file(self.docs[lang]["F1"])
                elif ev == "CREATE":
                    try:
                        lctx = b.create()
                    except Exception as e:  # pylint: disable=broad-except
                        rb.create()
                        self.violate(
                            {"kind": "exception", "where": "create", "type": type(e).__name__, "path": "api"},
                            f"{desc}: create() raised {type(e).__name__}: {e}",
                        )
                        continue
                    rc = rb.create()
                    obs = self.observe(lctx)
                    self.compare(obs, rc, "api", desc)
                    self.note_outcome(obs, rb, initial)
                    self.note_same_builder(bi, desc)
                    base = {k: v for k, v in obs.items() if k != "template"}
                    if bi + 1 < len(builders):
                        # baseline for the later re-observation: taken after the first observation, so that anything
                        # observing itself does to the context is not attributed to the later builder
                        again = self.observe(lctx, template=False)
                        if again != base:
                            self.stat("observing_changes_what_the_context_reports")
                        base = again
                    self.contexts.append([bi, lctx, base, desc])
                else:
                    key, obj = self.ovr_impl[ev]
                    self.used_ovr.add(ev)
                    b.set_target_language_configuration_override(key, obj)
                    rb.set(key, R.to_canon(R.OVERRIDES[ev][1]))
                self.note_state(rb)
                self.check_sources(desc)
                if bi > 0:
                    self.check_earlier(bi, desc)

    # ------------------------------------------------------------------ CLI histories
    def cli_argv(self, run: dict) -> typing.List[str]:
        lang = run["lang"]
        a: typing.List[str] = []
        if run.get("cfg"):
            a += ["--configuration"] + [
                str(self.cfgdir / lang / (f"F{i}.yaml" if i < 3 else "alias/../F0.yaml")) for i in run["cfg"]
            ]
        a += ["--target-language", lang, "--experimental-languages", "--list-configuration"]
        for key, flag in CLI_FLAGS:
            if key in run.get("flags", ()):
                a.append(flag)
        if run.get("std"):
            a += ["--language-standard", run["std"]]
        if run.get("endian"):
            a += ["--target-endianness", run["endian"]]
        if run.get("ext"):
            a += ["--output-extension", run["ext"]]
        a.append(str(self.cfgdir / "ns"))
        return a

    def cli_reference(self, run: dict) -> R.RefContext:
        lang = run["lang"]
        rb = R.RefBuilder(self.builtin, lang)
        for i in run.get("cfg", ()):
            rb.add_file(self.docs[lang][f"F{i if i < 3 else 0}"])
        if run.get("ext"):
            rb.set("extension", R.to_canon(run["ext"]))
        opts: typing.Dict[str, typing.Any] = {}
        if run.get("endian"):
            opts["target_endianness"] = run["endian"]
        for key, _ in CLI_FLAGS:
            # a store-true flag that is present is an explicit True; an absent one is only the default False
            opts[key] = True if key in run.get("flags", ()) else R.D(False)
        if run.get("std"):
            opts["std"] = run["std"]
        rb.set("options", R.to_canon(opts))
        rc = rb.create()
        self.note_state(rb)
        self._last_rb = rb
        return rc

    def parse_listing(self, text: str) -> typing.Tuple[str, typing.Dict[str, R.Canon]]:
        import yaml

        runner = self

        class Loader(yaml.SafeLoader):  # pylint: disable=too-many-ancestors
            pass

        def dv(loader: typing.Any, node: typing.Any) -> typing.Any:
            runner.stat("default_marker_printed_by_list_configuration")
            return loader.construct_mapping(node)["_value"]

        Loader.add_constructor("tag:yaml.org,2002:python/object:nunavut._utilities.DefaultValue", dv)
        head, _, body = text.partition("\n")
        doc = yaml.load(body, Loader=Loader)  # nosec - SafeLoader subclass
        return head, {sec: R.to_canon(m) for sec, m in doc.items()}

    def run_cli(self, runs: typing.Sequence[dict]) -> None:
        import nunavut.cli
        from nunavut.cli.runners import ArgparseRunner
        from vf import gen

        for ri, run in enumerate(runs):
            lang = run["lang"]
            argv = self.cli_argv(run)
            short = " ".join(x for x in argv[:-1] if not x.startswith("/")) + " cfg=" + ",".join(f"F{i}" for i in run.get("cfg", ()))
            desc = f"nnvg#{ri + 1} [{short}]"
            rc = self.cli_reference(run)
            rb = self._last_rb
            self.transitions += 2
            # (1) the process as a user runs it
            res = gen.cli(argv, cwd=self.cfgdir)
            if res.rc != 0:
                self.violate(
                    {"kind": "exception", "where": "cli", "type": (res.exc or "exit").split(":")[0], "path": "cli"},
                    f"{desc}: exit {res.rc} {res.exc or res.err[-200:]}",
                )
            else:
                try:
                    head, listed = self.parse_listing(res.out)
                except Exception as e:  # pylint: disable=broad-except
                    raise HarnessError(f"cannot parse --list-configuration output of {argv}: {e}\n{res.out[:400]}") from e
                if head.strip() != f"target_language: '{lang}'":
                    self.violate(
                        {"kind": "precedence_mismatch", "path": "cli", "via": "list_configuration", "key": "target_language"},
                        f"{desc}: first line {head!r}",
                    )
                fake = {"sections": {s: R.unwrap(m) for s, m in listed.items()}}
                self.compare_sections_only(fake, rc, desc)
            # (2) the same arguments through ArgparseRunner, keeping the context for getters / later re-observation
            try:
                args = nunavut.cli._make_parser().parse_args(argv)  # pylint: disable=protected-access
                cwd = os.getcwd()
                os.chdir(self.cfgdir)
                try:
                    runner = ArgparseRunner(args.root_namespace, args, [])
                finally:
                    os.chdir(cwd)
                lctx = runner._language_context  # pylint: disable=protected-access
            except Exception as e:  # pylint: disable=broad-except
                self.violate(
                    {"kind": "exception", "where": "runner", "type": type(e).__name__, "path": "cli"},
                    f"{desc}: ArgparseRunner raised {type(e).__name__}: {e}",
                )
                continue
            obs = self.observe(lctx)
            self.compare(obs, rc, "cli", desc)
            self.note_outcome(obs, rb, R.unwrap(self.builtin[rb.sec]))
            if ri > 0:
                self.check_earlier(ri, desc)
            base = {k: v for k, v in obs.items() if k != "template"}
            if ri + 1 < len(runs):
                again = self.observe(lctx, template=False)
                if again != base:
                    self.stat("observing_changes_what_the_context_reports")
                base = again
            self.contexts.append([ri, lctx, base, desc])

    def compare_sections_only(self, fake: dict, rc: R.RefContext, desc: str) -> None:
        """the --list-configuration dump against the reference (same rules as compare() step 1)."""
        secname = R.section(rc.lang)
        exp_opts, alt = self.accepted_options(rc)
        for sec in sorted(set(fake["sections"]) | set(rc.cfg)):
            got_sec = fake["sections"].get(sec)
            exp_sec = R.unwrap(rc.cfg[sec]) if sec in rc.cfg else None
            if sec == secname and got_sec is not None and exp_sec is not None:
                gd, ed = dict(got_sec[1]), dict(exp_sec[1])
                go = gd.pop("options", None)
                ed.pop("options", None)
                if go is None or go[0] != "m":
                    got_o: typing.Dict[str, R.Canon] = {}
                else:
                    got_o = dict(go[1])
                for k in sorted(set(got_o) | set(exp_opts)):
                    if got_o.get(k) != exp_opts.get(k) and got_o.get(k) not in alt.get(k, ()):
                        self.violate(
                            {"kind": "precedence_mismatch", "path": "cli", "via": "list_configuration", "key": "options." + k},
                            f"{desc}: --list-configuration prints options.{k} = {R.show(got_o.get(k))}; reference "
                            f"precedence gives {R.show(exp_opts.get(k))}",
                        )
                got_sec, exp_sec = ("m", tuple(sorted(gd.items()))), ("m", tuple(sorted(ed.items())))
            d = R.first_diff(got_sec, exp_sec)
            if d is not None:
                self.violate(
                    {"kind": "precedence_mismatch", "path": "cli", "via": "list_configuration", "key": sec + "/" + ".".join(d[0][:2])},
                    f"{desc}: --list-configuration prints {sec}/{'.'.join(d[0])} = {R.show(d[1])[:160]}; reference "
                    f"precedence gives {R.show(d[2])[:160]}",
                )

    # ------------------------------------------------------------------
    def run(self, case: dict) -> dict:
        if case["mode"] == "api":
            self.run_api(case["builders"])
        else:
            self.run_cli(case["runs"])
        return {
            "violations": self.violations,
            "transitions": self.transitions,
            "states": self.states,
            "outcomes": self.outcomes,
            "nontrivial": self.nontrivial,
            "stats": self.stats,
            "contexts": len(self.contexts),
        }


def run_in_child(case: dict, cfgdir: str) -> dict:
    """One history = one fresh interpreter state (fork of a worker that never ran a history itself)."""
    r, w = os.pipe()
    pid = os.fork()
    if pid == 0:
        code = 0
        try:
            os.close(r)
            try:
                data = pickle.dumps(("ok", HistoryRunner(cfgdir).run(case)))
            except BaseException:  # pylint: disable=broad-except
                data = pickle.dumps(("err", traceback.format_exc()))
            with os.fdopen(w, "wb") as f:
                f.write(data)
        except BaseException:  # pylint: disable=broad-except
            code = 3
        finally:
            os._exit(code)
    os.close(w)
    with os.fdopen(r, "rb") as f:
        data = f.read()
    _, status = os.waitpid(pid, 0)
    if not data or status != 0:
        raise HarnessError(f"history child failed (status {status}) for case {json.dumps(case)}")
    tag, res = pickle.loads(data)
    if tag != "ok":
        raise HarnessError(f"history child raised for case {json.dumps(case)}:\n{res}")
    return res


def warm_up() -> None:
    """
    Import (only import) everything a history needs, and read the built-in properties for the reference, so that the
    forked children do not repeat it.  No builder, loader, language or environment object is created here: the
    children start from the state "modules imported, nothing used".
    """
    import importlib

    for name in (
        "yaml",
        "nunavut",
        "nunavut.lang",
        "nunavut.lang.c",
        "nunavut.lang.cpp",
        "nunavut.lang.py",
        "nunavut.lang.js",
        "nunavut.lang.html",
        "nunavut.lang.c.support",
        "nunavut.lang.cpp.support",
        "nunavut.lang.py.support",
        "nunavut.jinja",
        "nunavut.jinja.environment",
        "nunavut.cli",
        "nunavut.cli.runners",
        "vf.gen",
    ):
        try:
            importlib.import_module(name)
        except ImportError:
            pass
    builtin_config()


class BResult:
    def __init__(self) -> None:
        self.bag = Bag()
        self.histories = 0
        self.transitions = 0
        self.contexts = 0
        self.states: typing.Set[int] = set()
        self.outcomes: typing.Set[int] = set()
        self.nontrivial: typing.Set[int] = set()
        self.stats: typing.Dict[str, int] = {}


def _work_b(job: typing.Tuple[typing.List[dict], str]) -> BResult:
    cases, cfgdir = job
    warm_up()
    out = BResult()
    for case in cases:
        res = run_in_child(case, cfgdir)
        out.histories += 1
        out.transitions += res["transitions"]
        out.contexts += res["contexts"]
        out.states |= res["states"]
        out.outcomes |= res["outcomes"]
        out.nontrivial |= res["nontrivial"]
        for k, v in res["stats"].items():
            out.stats[k] = out.stats.get(k, 0) + v
        for sig, what in res["violations"]:
            out.bag.add(sig, {"part": "B", **case}, what)
    return out


# ---------------------------------------------------------------------------------------------- Part B enumeration
def seqs(alphabet: typing.Sequence[str], max_len: int) -> typing.Iterator[typing.Tuple[str, ...]]:
    for n in range(max_len + 1):
        yield from itertools.product(alphabet, repeat=n)


PAIR_LANGS = (("c", "c"), ("cpp", "cpp"), ("py", "py"), ("c", "cpp"))
CFG_ORDERS: typing.List[typing.Tuple[int, ...]] = [()] + [p for n in (1, 2, 3) for p in itertools.permutations((0, 1, 2), n)]
# ... and file lists that name a file more than once (the LAST mention decides), also under another spelling of its path
# (index 3 = F0.yaml reached as alias/../F0.yaml)
CFG_REPEATS: typing.List[typing.Tuple[int, ...]] = [
    p for n in (2, 3) for p in itertools.product((0, 1, 2), repeat=n) if len(set(p)) < n
] + [(0, 1, 3), (3, 1, 0), (3, 1), (1, 3, 0)]
FLAG_SETS: typing.List[typing.Tuple[str, ...]] = [
    tuple(k for (k, _), bit in zip(CLI_FLAGS, bits) if bit) for bits in itertools.product((0, 1), repeat=3)
]


def enumerate_b(ctx: Ctx) -> typing.Tuple[typing.List[dict], typing.Dict[str, typing.List[int]]]:
    """returns the histories to run and, per family, [size of the thorough space, number selected]."""
    cases: typing.List[dict] = []
    ledger: typing.Dict[str, typing.List[int]] = {}

    def add(family: str, case_id: str, case: dict, core: bool) -> None:
        led = ledger.setdefault(family, [0, 0])
        led[0] += 1
        if core or ctx.in_slice(case_id):
            led[1] += 1
            cases.append(case)

    # one builder, <= 4 events + final create, full alphabet
    for lang in R.LANGS:
        for ev in seqs(R.API_ALPHABET[lang], 4):
            # fixed core: every history of <= 2 events + "override, create, then a file merged into the created config"
            core = len(ev) <= 2 or (len(ev) == 3 and ev[0].startswith("S_") and ev[1] == "CREATE" and ev[2].startswith("F"))
            add(
                f"api_single[{lang}]",
                f"B|api|{lang}|{','.join(ev)}",
                {"mode": "api", "builders": [{"lang": lang, "events": list(ev)}]},
                core,
            )
    # two builders in sequence: first <= 2 events, second <= 3 events (+ final creates), sharing alphabet
    for l1, l2 in PAIR_LANGS:
        for e1 in seqs(R.PAIR_ALPHABET, 2):
            for e2 in seqs(R.PAIR_ALPHABET, 3):
                # fixed core: the short histories + the designated sharing histories (same document handed to both
                # builders, second builder creates and then merges a file into the created configuration)
                core = (len(e1) <= 1 and len(e2) <= 2) or (
                    len(e1) == 1
                    and e1[0].startswith("S_")
                    and len(e2) == 3
                    and e2[0] == e1[0]
                    and e2[1] == "CREATE"
                    and e2[2] in ("F0", "F1")
                )
                add(
                    f"api_pair[{l1},{l2}]",
                    f"B|pair|{l1},{l2}|{','.join(e1)}|{','.join(e2)}",
                    {"mode": "api", "builders": [{"lang": l1, "events": list(e1)}, {"lang": l2, "events": list(e2)}]},
                    core,
                )
    # the CLI path: every combination
    for lang in R.LANGS:
        for flags in FLAG_SETS:
            for std in (None,) + R.STD_CHOICES:
                for cfg in CFG_ORDERS + CFG_REPEATS:
                    repeated = cfg in CFG_REPEATS
                    # "any" is an EXPLICIT value that equals the fallback of the command line; "little" meets F1's value
                    for endian in (None, "big", "any", "little"):
                        for ext in (None, ".cli"):
                            if (repeated or endian in ("any", "little")) and (flags or std or ext):
                                continue  # the two added axes are combined with each other only
                            run = {"lang": lang, "flags": list(flags), "std": std, "cfg": list(cfg), "endian": endian, "ext": ext}
                            deviations = sum(1 for x in (flags, std, cfg, endian, ext) if x)
                            # fixed core: one option at a time, and every single option against three file lists
                            core = deviations <= 1 or (deviations == 2 and cfg in ((0,), (0, 1, 2), (2, 1, 0)))
                            core = core or (repeated and endian is None and len(cfg) == 3 and cfg[0] == cfg[2] != cfg[1])
                            add(
                                f"cli_single[{lang}]",
                                "B|cli|" + json.dumps(run, sort_keys=True),
                                {"mode": "cli", "runs": [run]},
                                core,
                            )
    # two CLI runs in one interpreter over a reduced alphabet, all ordered pairs
    small = [
        {"lang": lang, "flags": list(flags), "std": std, "cfg": list(cfg), "endian": None, "ext": None}
        for lang in ("c", "cpp")
        for flags, cfg in (((), ()), (tuple(k for k, _ in CLI_FLAGS), (0, 1)))
        for std in (None, "c++17-pmr")
    ]
    for r1 in small:
        for r2 in small:
            add("cli_pair", "B|clipair|" + json.dumps([r1, r2], sort_keys=True), {"mode": "cli", "runs": [r1, r2]}, True)
    return cases, ledger


# =====================================================================================================================
def run(ctx: Ctx) -> int:
    universes()
    # ---------------- Part A
    ares = ctx.pool_map(_work_a, jobs_a(ctx))
    a_evals = sum(r.evals for r in ares)
    a_merges = sum(r.merges for r in ares)
    a_states: typing.Set[int] = set()
    contests: typing.Set[typing.Tuple[str, str]] = set()
    a_space: typing.Dict[str, int] = {}
    a_done: typing.Dict[str, int] = {}
    for r in ares:
        a_states |= r.states
        contests |= r.contests
        ctx.bag.merge(r.bag)
        for k, v in r.space.items():
            a_space[k] = a_space.get(k, 0) + v
        for k, v in r.done.items():
            a_done[k] = a_done.get(k, 0) + v
    a_nontrivial = sum(r.nontrivial for r in ares)
    want = {(e, l) for e in KINDS_EARLIER for l in KINDS_LATER}
    if not want <= contests:
        raise HarnessError(f"vacuous exploration: merge contests never exercised: {sorted(want - contests)}")

    # ---------------- Part B
    cfgdir = ctx.scratch / "cfg"
    write_config_files(cfgdir)
    builtin_config()
    cases, ledger = enumerate_b(ctx)
    batch = 24
    jobs = [(cases[i : i + batch], str(cfgdir)) for i in range(0, len(cases), batch)]
    bres = ctx.pool_map(_work_b, jobs)
    b_states: typing.Set[int] = set()
    b_outcomes: typing.Set[int] = set()
    b_nontrivial: typing.Set[int] = set()
    b_stats: typing.Dict[str, int] = {}
    for r in bres:
        ctx.bag.merge(r.bag)
        b_states |= r.states
        b_outcomes |= r.outcomes
        b_nontrivial |= r.nontrivial
        for k, v in r.stats.items():
            b_stats[k] = b_stats.get(k, 0) + v
    b_hist = sum(r.histories for r in bres)
    b_trans = sum(r.transitions for r in bres)
    b_ctx = sum(r.contexts for r in bres)
    if b_hist != len(cases):
        raise HarnessError(f"ran {b_hist} of {len(cases)} histories")
    if b_stats.get("shorthand_contexts", 0) < 4:
        raise HarnessError("vacuous exploration: the C++ shorthand standards were never exercised")

    uni = universes()
    ctx.samples = [
        {"part": "A", "layer": "C3", "sources": [R.show(uni["C3"][i]) for i in (1, 40, 76)], "checked": "result vs reference, every source vs pristine"},
        {"part": "A", "layer": "L1", "sources": [R.show(uni["L1"][i]) for i in (9, 20, 3)]},
    ]
    seen_family: typing.Set[str] = set()
    for case in cases:
        fam = case["mode"] + str(len(case.get("builders", case.get("runs", []))))
        size = sum(len(b["events"]) for b in case.get("builders", [])) + sum(len(r["cfg"]) + len(r["flags"]) for r in case.get("runs", []))
        if fam not in seen_family and size >= 3:
            seen_family.add(fam)
            ctx.samples.append({"part": "B", **case})
    ctx.stats.update(
        a_space=a_space,
        a_explored=a_done,
        b_space={k: v[0] for k, v in ledger.items()},
        b_explored={k: v[1] for k, v in ledger.items()},
        b_contexts_created=b_ctx,
        merge_contests=len(contests),
    )
    for k, v in sorted(b_stats.items()):
        ctx.stats["b:" + k] = v
    a_sizes = {k: len(v) for k, v in universes().items()}
    exhaustive = bool(ctx.thorough)
    cov = {
        "states": len(a_states) + len(b_states),
        "transitions": a_merges + b_trans,
        "traces_validated_against_impl": a_evals + b_hist,
        "evaluations": a_evals + b_ctx,
        "distinct_nontrivial": a_nontrivial + len(b_nontrivial),
        "distinct_outcomes": len(a_states) + len(b_outcomes),
        "rule": "state = distinct merged configuration (Part A: canonical result of a merge sequence incl. default marks; "
        "Part B: reference builder state (target section, pending overrides) reached, validated against the real "
        "context at every create); transition = one real deep_update / add_config_files / "
        "set_target_language_configuration_override / create / nnvg run; non-trivial = Part A sequences whose "
        "reference result differs from plain dict.update chaining (deep or default semantics decide) + Part B distinct "
        "context observations whose target section differs from the builder's initial one",
        "bound_completed": (
            f"A: map universes {a_sizes} over keys a,b; all sequences: L1^<=3, C3^<=3, X1^<=3, T2^<=2 + T2^3 "
            f"{a_done.get('T2/len3', 0)}/{a_space.get('T2/len3', 0)}, F2^1 + F2^2 {a_done.get('F2/len2', 0)}/{a_space.get('F2/len2', 0)}, "
            f"T3^1, T3xC3 {a_done.get('T3xC3/len2', 0)}/{a_space.get('T3xC3/len2', 0)}, C3xT3 "
            f"{a_done.get('C3xT3/len2', 0)}/{a_space.get('C3xT3/len2', 0)}. "
            "B: " + ", ".join(f"{k} {v[1]}/{v[0]}" for k, v in sorted(ledger.items()))
            + " (api_single: every sequence of <=4 events over the language's full alphabet + final create; api_pair: "
            "builder 1 <=2 events, builder 2 <=3 events over the 6-event sharing alphabet, + final creates; cli_single: "
            "3 languages x 8 flag sets x 7 standards x 16 file orders x 2 endianness x 2 extension + 28 file lists with repeated files (also under another path spelling) x 4 endianness values incl. an explicit `any`; cli_pair: all "
            "ordered pairs of 8 invocations)"
        ),
        "exhaustive": exhaustive,
    }
    return ctx.finish(
        "model_checking",
        cov,
        [
            "keys {a,b}, leaves {1,2,Default(1),Default(2),[1,2]} and depth <= 3 stand for arbitrary nested maps; full "
            "two-key depth-3 maps are explored only with the trimmed leaf set {1, Default(2)} and in sequences of <= 2",
            "three YAML documents + base document, seven override values and three target languages (c, cpp, py) stand for "
            "all configurations; every API builder starts with the base document loaded",
            "re-creating on the SAME builder is modelled as cumulative (documented: create applies the overrides to the "
            "builder's LanguageConfig); stale values of an earlier create and earlier contexts of the same builder "
            "following a later create are counted (stats), not reported",
            "statement silent, accepted both ways and counted: Python forcing enable_serialization_asserts, a C++ shorthand "
            "group member that the user also set explicitly, DefaultValue wrappers left in the stored configuration / "
            "printed by --list-configuration (values compared after unwrapping)",
            "built-in defaults are read by the harness from properties.yaml of the tree under test; PyYAML is trusted",
        ],
        min_outcomes=("distinct_outcomes", 200),
    )


def replay(ctx: Ctx, case: dict) -> int:
    if case.get("part") == "A":
        seq = [dec(t) for t in case["seq"]]
        ref, sh = R.EMPTY, R.EMPTY
        for t in seq:
            ref, sh = R.ref_merge(ref, t), R.shallow_update(sh, t)
        res = AResult()
        eval_sequence(seq, ref, sh, res)
        print("sources: " + " ; ".join(R.show(t) for t in seq))
        print("reference result: " + R.show(ref))
        for v in res.bag.v.values():
            print(f"VIOLATION {json.dumps(v.sig, sort_keys=True)}: {v.what}")
        return 1 if len(res.bag) else 0
    cfgdir = ctx.scratch / "cfg"
    write_config_files(cfgdir)
    res = run_in_child({k: v for k, v in case.items() if k != "part"}, str(cfgdir))
    print(f"history: {json.dumps({k: v for k, v in case.items() if k != 'part'})}")
    print(f"contexts created: {res['contexts']}, transitions: {res['transitions']}, stats: {res['stats']}")
    for sig, what in res["violations"]:
        print(f"VIOLATION {json.dumps(sig, sort_keys=True)}: {what}")
    return 1 if res["violations"] else 0
