"""
C17 - headers generated with different language options cannot be compiled together
(bounded exhaustive exploration over ordered pairs of language-option sets; real generator, real compiler).

For a pair (A, B) of option sets the *support header* generated with A and the *type headers* generated with B are put
on the include path of one translation unit (support dir of A first, type dir of B second) and compiled with
gcc/g++ -fsyntax-only.

Oracle (independent of the templates' code: it only knows the option tables below and what a compiler diagnostic
looks like):
  * A and B have the same effective option values  =>  the TU compiles (exit status 0);
  * they differ in the option subset D != {}       =>  the compiler fails AND every type header of the TU has at
    least one "static assertion failed" diagnostic, located in that header, whose text (message + quoted source
    lines + attached notes) names an option of D (NUNAVUT_SUPPORT_LANGUAGE_OPTION_<KEY>, options::<key>, or the bare
    key as a token).

Option sets are described by the dict that is handed to nunavut (`request`); the *effective* values are computed here
from the documented defaults and the documented `std` shorthand of properties.yaml, never by asking nunavut.

Free-form string options additionally get "near-collision" value families (white space only, case only, same
characters in another order, same length, only the first / only the last character different), every ordered pair
of which must be rejected like any other mismatch, and the value that the templates emit into the assertions is
checked directly (bounded exhaustive): for every string over a small alphabet up to a length bound (+ every documented
string value + the family values), handed to the real generator as additional language options, the number emitted on
the support side equals the one on the type side, is pairwise distinct over distinct strings, and is the same in
processes with different PYTHONHASHSEED; bool -> 0/1 and int -> itself as documented.
"""
from __future__ import annotations

import hashlib
import itertools
import json
import os
import pathlib
import re
import shutil
import subprocess
import sys
import time
import typing
import zlib

from vf.core import VERIF, Ctx, HarnessError

# --------------------------------------------------------------------------------------------------------- DSDL
# No floating point fields (omit_float_serialization_support=true is documented to break those), an integer constant,
# a float constant (the only construct whose emitted code uses cast_format; the TUs use it), a fixed array, a nested
# composite, a sealed union and a delimited type with variable-length arrays.
DSDL = {
    "ns/Inner.1.0.dsdl": "uint8 a\nint16[4] b\nuint8 K = 7\nfloat32 F = 1.5\n@sealed\n",
    "ns/Outer.1.0.dsdl": "@union\nns.Inner.1.0 inner\nuint32[3] arr\nbool flag\n@sealed\n",
    "ns/Vla.1.0.dsdl": "ns.Inner.1.0[<=2] items\nuint8[<=5] octets\n@extent 1024\n",
}
HEADERS_BASE = ["Inner_1_0", "Outer_1_0"]
HEADER_VLA = "Vla_1_0"

# --------------------------------------------------------------------------------------------------------- option tables
# (documented in src/nunavut/lang/properties.yaml, docs/templates.rst and the CLI help; transcribed by hand)
C_CAST = "(({type}) {value})"
CPP_CAST = "static_cast<{type}>({value})"
C_CAST_ALT = "({type})({value})"  # cast_format is a free-form format string; second value must be valid C

VEC = "std::vector<{TYPE}>"
VECA = "std::vector<{TYPE}, {REBIND_ALLOCATOR}>"
CETL_VLA = "cetl::VariableLengthArray<{TYPE}, {REBIND_ALLOCATOR}>"
VEC_INC = "<vector>"
CETL_VLA_INC = '"cetl/variable_length_array.hpp"'
MR_INC = "<memory_resource>"
PMR_ALLOC = "std::pmr::polymorphic_allocator"
CETL_ALLOC = "cetl::pf17::pmr::polymorphic_allocator"
TRAILING = "uses-trailing-allocator"
LEADING = "uses-leading-allocator"

COMMON_KEYS = [
    "target_endianness",
    "omit_float_serialization_support",
    "enable_serialization_asserts",
    "enable_override_variable_array_capacity",
    "cast_format",
]
PROFILE_KEYS = [
    "std",
    "std_flavor",
    "variable_array_type_include",
    "variable_array_type_template",
    "variable_array_type_constructor_args",
    "allocator_include",
    "allocator_type",
    "allocator_is_default_constructible",
    "ctor_convention",
]
KEYS = {"c": COMMON_KEYS, "cpp": COMMON_KEYS[:4] + ["std", "std_flavor", "cast_format"] + PROFILE_KEYS[2:]}

COMMON_DOMAIN = {
    "c": [["any", "big", "little"], [False, True], [False, True], [False, True], [C_CAST, C_CAST_ALT]],
    "cpp": [["any", "big", "little"], [False, True], [False, True], [False, True], [CPP_CAST, C_CAST]],
}

DOC_DEFAULTS = {
    "c": dict(zip(COMMON_KEYS, ["any", False, False, False, C_CAST])),
    "cpp": {
        **dict(zip(COMMON_KEYS, ["any", False, False, False, CPP_CAST])),
        **dict(zip(PROFILE_KEYS, ["c++14", "std", VEC_INC, VEC, "", "", "", True, "default"])),
    },
}
# `std` shorthands of properties.yaml (section `defaults`); cetl++14-17 cannot be compiled here (CETL submodule empty).
SHORTHANDS = {
    "c++17-pmr": dict(zip(PROFILE_KEYS, ["c++17", "pmr", VEC_INC, VECA, "", MR_INC, PMR_ALLOC, True, TRAILING])),
}
# values used in the non-cetl profile product
PROFILE_PRODUCT_DOMAIN = [
    ["c++14", "c++17", "c++20"],
    ["std", "pmr"],
    [VEC_INC],
    [VEC, VECA],
    ["", "{MAX_SIZE}"],
    ["", MR_INC],
    ["", PMR_ALLOC],
    [True, False],
    ["default", TRAILING, LEADING],
]
# documented cetl values of single options that never reach the emitted code of the compiled types (see profile_ok)
CETL_SINGLE_VALUES = {
    "std_flavor": "cetl",
    "variable_array_type_include": CETL_VLA_INC,
    "variable_array_type_template": CETL_VLA,
    "allocator_type": CETL_ALLOC,
}


# Helper macros given to every compilation so that cast formats naming a macro are valid code.
CAST_MACROS = ["-DXCAST(t,v)=((t)(v))", "-Dxcast(t,v)=((t)(v))", "-DYCAST(t,v)=((t)(v))", "-DNNVG_A=)", "-DNNVG_B=)", "-DNNVG_a=)"]
# Near-collision families of the free-form string options: every ordered pair inside one group must be rejected.
C_CAST_FAMILY = [
    [
        C_CAST,
        "(({type}){value})",  # white space removed
        "(({type})  {value})",  # two spaces
        "(({type})\t{value})",  # tab instead of space
        " (({type}) {value})",  # leading
        "(({type}) {value}) ",  # trailing
        "( ({type}){value})",  # same characters as the default, space moved
        C_CAST_ALT,  # same characters as "(({type}){value})" in another order
        "XCAST({type}, {value})",
        "xcast({type}, {value})",  # case only
        "YCAST({type}, {value})",  # first character only
        "(({type}) {value} NNVG_A",
        "(({type}) {value} NNVG_B",  # last character only
        "(({type}) {value} NNVG_a",  # case of the last character only
    ]
]
CPP_CAST_FAMILY = [
    [CPP_CAST, "static_cast< {type} >( {value} )", "static_cast<{type}> ({value})", "static_cast<{type}>({value}) "],
    [C_CAST, "(({type}){value})", C_CAST_ALT],
    ["XCAST({type}, {value})", "xcast({type}, {value})", "YCAST({type}, {value})"],
    [CPP_CAST, "static_cast<{type}>({value} NNVG_A", "static_cast<{type}>({value} NNVG_B"],
]
# (option, groups) at the c++17-pmr profile (all emitted there)
CPP_PROFILE_STRING_FAMILIES = [
    ("variable_array_type_template", [[VECA, "std::vector<{TYPE},{REBIND_ALLOCATOR}>", "std::vector< {TYPE}, {REBIND_ALLOCATOR} >"]]),
    ("allocator_type", [[PMR_ALLOC, " " + PMR_ALLOC]]),
    ("allocator_include", [[MR_INC, MR_INC + " "]]),
    ("variable_array_type_include", [[VEC_INC, VEC_INC + " "]]),
    ("variable_array_type_constructor_args", [["{MAX_SIZE}", " {MAX_SIZE}", "{MAX_SIZE} "]]),
]


def _n(v: typing.Any) -> typing.Any:
    """white-space-insensitive view of a string value (harness side only: which code the value stands for)"""
    return "".join(v.split()) if isinstance(v, str) else v


def std_number(std: str) -> int:
    return int(re.sub(r"[^0-9]", "", std)[:2])


def effective(lang: str, request: typing.Mapping[str, typing.Any]) -> typing.Dict[str, typing.Any]:
    eff = dict(DOC_DEFAULTS[lang])
    eff.update(request)
    if lang == "cpp" and eff["std"] in SHORTHANDS:
        eff.update(SHORTHANDS[eff["std"]])
    return {k: eff[k] for k in KEYS[lang]}


def profile_ok(eff: typing.Mapping[str, typing.Any]) -> bool:
    """Harness knowledge of which C++ option combinations describe code that can exist at all (measured once on the
    pinned tree, stated independently): an allocator-taking constructor convention needs the pmr allocator, its
    header, C++17 and (for the union type) a default-constructible allocator."""
    if eff["ctor_convention"] == "default":
        return True
    return (
        _n(eff["allocator_include"]) == MR_INC
        and _n(eff["allocator_type"]) == PMR_ALLOC
        and eff["allocator_is_default_constructible"] is True
        and std_number(eff["std"]) >= 17
    )


def vla_ok(lang: str, eff: typing.Mapping[str, typing.Any]) -> bool:
    """Can the type with variable-length arrays be expressed under these options?"""
    if lang == "c":
        return True
    if not profile_ok(eff) or _n(eff["variable_array_type_include"]) != VEC_INC:
        return False
    return (eff["ctor_convention"], _n(eff["variable_array_type_template"])) in (("default", _n(VEC)), (TRAILING, _n(VECA)))


class OptSet(typing.NamedTuple):
    lang: str
    key: str  # stable, short, unique per (lang, request)
    request: typing.Tuple[typing.Tuple[str, typing.Any], ...]

    @property
    def req(self) -> typing.Dict[str, typing.Any]:
        return dict(self.request)

    @property
    def eff(self) -> typing.Dict[str, typing.Any]:
        return effective(self.lang, self.req)


def _short(v: typing.Any) -> str:
    table = {
        C_CAST: "ccast", CPP_CAST: "cppcast", C_CAST_ALT: "ccast2", VEC: "vec", VECA: "veca", CETL_VLA: "cetlvla",
        VEC_INC: "vector", CETL_VLA_INC: "cetlvlainc", MR_INC: "mr", PMR_ALLOC: "pmralloc", CETL_ALLOC: "cetlalloc",
        TRAILING: "trail", LEADING: "lead", "": "none", "{MAX_SIZE}": "max",
    }  # fmt: skip
    if isinstance(v, bool):
        return "1" if v else "0"
    if v in table:
        return table[v]
    v = str(v)
    if re.fullmatch(r"[A-Za-z0-9+_-]+", v):
        return v.replace("+", "p")
    return "h" + hashlib.sha256(v.encode()).hexdigest()[:10]


def make_set(lang: str, request: typing.Mapping[str, typing.Any], tag: str = "") -> OptSet:
    items = tuple((k, request[k]) for k in KEYS[lang] if k in request)
    if len(items) != len(request):
        raise HarnessError(f"unknown option in {request}")
    key = lang + "-" + ".".join(_short(v) for _, v in items) + (f"-{tag}" if tag else "")
    return OptSet(lang, key, items)


def differing(a: OptSet, b: OptSet) -> typing.List[str]:
    ea, eb = a.eff, b.eff
    return [k for k in KEYS[a.lang] if ea[k] != eb[k]]


# --------------------------------------------------------------------------------------------------------- spaces
def commons(lang: str) -> typing.List[typing.Dict[str, typing.Any]]:
    return [dict(zip(COMMON_KEYS, vals)) for vals in itertools.product(*COMMON_DOMAIN[lang])]


def common_neighbours(lang: str, c: typing.Mapping[str, typing.Any]) -> typing.List[typing.Dict[str, typing.Any]]:
    out = []
    for k, dom in zip(COMMON_KEYS, COMMON_DOMAIN[lang]):
        for v in dom:
            if v != c[k]:
                out.append(dict(c, **{k: v}))
    return out


def profiles_product() -> typing.List[typing.Dict[str, typing.Any]]:
    out = []
    for vals in itertools.product(*PROFILE_PRODUCT_DOMAIN):
        p = dict(zip(PROFILE_KEYS, vals))
        if profile_ok(p):
            out.append(p)
    return out


def profile_neighbours(p: typing.Mapping[str, typing.Any], with_cetl: bool) -> typing.List[typing.Dict[str, typing.Any]]:
    out = []
    for k, dom in zip(PROFILE_KEYS, PROFILE_PRODUCT_DOMAIN):
        vals = list(dom)
        if with_cetl and k in CETL_SINGLE_VALUES:
            vals.append(CETL_SINGLE_VALUES[k])
        for v in vals:
            if v != p[k]:
                q = dict(p, **{k: v})
                if profile_ok(q):
                    out.append(q)
    return out


CENTRES = {
    "c++14": dict(DOC_DEFAULTS["cpp"], std="c++14"),
    "c++17": dict(DOC_DEFAULTS["cpp"], std="c++17"),
    "c++20": dict(DOC_DEFAULTS["cpp"], std="c++20"),
    "c++17-pmr": dict(DOC_DEFAULTS["cpp"], **SHORTHANDS["c++17-pmr"]),
}


class Space:
    """Deterministic list of (family, A, B) with A = support options, B = type options."""

    def __init__(self) -> None:
        self.sets: typing.Dict[str, OptSet] = {}
        self.pairs: typing.Dict[typing.Tuple[str, str], str] = {}  # (A.key, B.key) -> first family that listed it
        self.core: typing.Set[typing.Tuple[str, str]] = set()
        self.family_sizes: typing.Dict[str, int] = {}

    def s(self, lang: str, request: typing.Mapping[str, typing.Any], tag: str = "") -> OptSet:
        o = make_set(lang, request, tag)
        return self.sets.setdefault(o.key, o)

    def add(self, family: str, a: OptSet, b: OptSet, core: bool) -> None:
        k = (a.key, b.key)
        self.family_sizes[family] = self.family_sizes.get(family, 0) + 1
        self.pairs.setdefault(k, family)
        if core:
            self.core.add(k)


def build_space() -> Space:
    sp = Space()
    # ------------------------------------------------------------------ C: the full cross product (48 x 48), core
    cs = [sp.s("c", c) for c in commons("c")]
    for a in cs:
        for b in cs:
            sp.add("c.full_cross", a, b, True)

    # ------------------------------------------------------------------ C++
    dflt_common = {k: DOC_DEFAULTS["cpp"][k] for k in COMMON_KEYS}

    def cpp(common: typing.Mapping[str, typing.Any], profile: typing.Mapping[str, typing.Any]) -> OptSet:
        return sp.s("cpp", {**common, **profile})

    # core: the four documented standards/shorthands and all their single-option neighbours (incl. single cetl values)
    centre_sets = {}
    for name, full in CENTRES.items():
        prof = {k: full[k] for k in PROFILE_KEYS}
        c = cpp(dflt_common, prof)
        centre_sets[name] = c
        sp.add("cpp.identical", c, c, True)
        for q in profile_neighbours(prof, with_cetl=True):
            n = cpp(dflt_common, q)
            for x, y in ((c, n), (n, c)):
                sp.add("cpp.centre_single_diff.profile", x, y, True)
            sp.add("cpp.identical", n, n, True)
        for cn in common_neighbours("cpp", dflt_common):
            n = cpp(cn, prof)
            for x, y in ((c, n), (n, c)):
                sp.add("cpp.centre_single_diff.common", x, y, True)
            sp.add("cpp.identical", n, n, True)
    for a in centre_sets.values():
        for b in centre_sets.values():
            sp.add("cpp.centre_x_centre", a, b, True)
    # the documented shorthand spelling of the pmr profile against the explicit spelling: identical effective options
    short = sp.s("cpp", {**dflt_common, "std": "c++17-pmr"}, tag="shorthand")
    for x, y in ((short, centre_sets["c++17-pmr"]), (centre_sets["c++17-pmr"], short), (short, short)):
        sp.add("cpp.shorthand_spelling", x, y, True)
    for x, y in ((short, centre_sets["c++17"]), (centre_sets["c++17"], short)):
        sp.add("cpp.shorthand_spelling", x, y, True)

    # near-collision value families of the free-form string options (core): every ordered pair inside a group
    def family(name: str, sets: typing.List[OptSet]) -> None:
        for a in sets:
            for b in sets:
                sp.add(name if a is not b else name + ".identical", a, b, True)

    for group in C_CAST_FAMILY:
        family("c.cast_format_family", [sp.s("c", dict(DOC_DEFAULTS["c"], cast_format=v)) for v in group])
    prof14 = {k: CENTRES["c++14"][k] for k in PROFILE_KEYS}
    for group in CPP_CAST_FAMILY:
        family("cpp.cast_format_family", [cpp(dict(dflt_common, cast_format=v), prof14) for v in group])
    profpmr = {k: CENTRES["c++17-pmr"][k] for k in PROFILE_KEYS}
    for opt, groups in CPP_PROFILE_STRING_FAMILIES:
        for group in groups:
            family("cpp.string_option_family", [cpp(dflt_common, dict(profpmr, **{opt: v})) for v in group])

    # T1: full cross product of the common options at two profiles
    for cname in ("c++14", "c++17-pmr"):
        prof = {k: CENTRES[cname][k] for k in PROFILE_KEYS}
        xs = [cpp(c, prof) for c in commons("cpp")]
        for a in xs:
            for b in xs:
                sp.add(f"cpp.common_cross@{cname}", a, b, False)
    # T2: every ordered single-option difference inside the (non-cetl) profile product, + every identical pair
    prods = profiles_product()
    for p in prods:
        a = cpp(dflt_common, p)
        sp.add("cpp.identical", a, a, False)
        for q in profile_neighbours(p, with_cetl=False):
            sp.add("cpp.profile_single_diff", a, cpp(dflt_common, q), False)
    # T2': all ordered pairs of the allocator-capable sub-lattice (multi-option differences among profile options)
    sub = [
        p
        for p in prods
        if p["allocator_include"] == MR_INC
        and p["allocator_type"] == PMR_ALLOC
        and p["allocator_is_default_constructible"] is True
        and std_number(p["std"]) >= 17
    ]
    subsets = [cpp(dflt_common, p) for p in sub]
    for a in subsets:
        for b in subsets:
            sp.add("cpp.allocator_sublattice_cross", a, b, False)
    # T3: profile differs (two different centres) and the common options differ in at most one option
    for c in commons("cpp"):
        for c2 in [c] + common_neighbours("cpp", c):
            for pn, qn in itertools.permutations(CENTRES, 2):
                a = cpp(c, {k: CENTRES[pn][k] for k in PROFILE_KEYS})
                b = cpp(c2, {k: CENTRES[qn][k] for k in PROFILE_KEYS})
                sp.add("cpp.centres_x_common_le1", a, b, False)
    return sp


# --------------------------------------------------------------------------------------------------------- generation
_TYPES: typing.Dict[str, typing.Any] = {}
_ROOT: typing.Optional[pathlib.Path] = None


def set_dir(root: pathlib.Path, s: OptSet) -> pathlib.Path:
    return root / "gen" / s.key


def prepare(root: pathlib.Path) -> None:
    """Writes the DSDL namespace and the translation units; parses the namespace once (workers inherit it by fork)."""
    global _ROOT
    from vf import gen

    _ROOT = root
    if not (root / "dsdl").exists():
        gen.write_ns(root / "dsdl", DSDL)
    _TYPES["all"] = gen.read_types(root / "dsdl" / "ns")
    tu = root / "tu"
    tu.mkdir(parents=True, exist_ok=True)
    for lang, ext, hext, fmt in (("c", "c", "h", "#include <ns/{}.{}>\n"), ("cpp", "cpp", "hpp", '#include "ns/{}.{}"\n')):
        for with_vla in (False, True):
            hs = ["Outer_1_0"] + ([HEADER_VLA] if with_vla else []) + ["Inner_1_0"]
            use = (
                "static const float c17_use_cast_format = ns_Inner_1_0_F;\n"
                if lang == "c"
                else "static const float c17_use_cast_format = ns::Inner_1_0::F;\n"
            )
            (tu / f"tu_{int(with_vla)}.{ext}").write_text("".join(fmt.format(h, hext) for h in hs) + use)


def generate_set(s: OptSet) -> str:
    """Generates support + types with the real generators into <root>/gen/<key>/{support,types}. Returns '' or error."""
    from vf import gen

    assert _ROOT is not None
    d = set_dir(_ROOT, s)
    if (d / "ok").exists():
        return ""
    shutil.rmtree(d, ignore_errors=True)
    types_dir, support_dir = d / "types", d / "support"
    gen.reset_process_state()
    try:
        gen.generate(s.lang, _ROOT / "dsdl" / "ns", types_dir, options=s.req, types=_TYPES["all"])
    except Exception as e:  # pylint: disable=broad-except
        return f"{type(e).__name__}: {e}"
    if not (types_dir / "nunavut").is_dir() or not (types_dir / "ns").is_dir():
        return "generator did not produce nunavut/ and ns/"
    support_dir.mkdir(parents=True)
    os.rename(types_dir / "nunavut", support_dir / "nunavut")
    (d / "ok").write_text("")
    return ""


# --------------------------------------------------------------------------------------------------------- compiling
DIAG_RE = re.compile(r"^(?P<file>[^\s:][^:]*):(?P<line>\d+):(?:(?P<col>\d+):)? (?P<kind>fatal error|error|warning|note): (?P<msg>.*)$")
STATIC_ASSERT_RE = re.compile(r"static[ _]assert(?:ion)? failed", re.I)


def name_regex(key: str) -> typing.Pattern[str]:
    k = re.escape(key)
    return re.compile(
        rf"(?i)(?:(?<![A-Za-z0-9_])|(?<=NUNAVUT_SUPPORT_LANGUAGE_OPTION_)|(?<=options::)){k}(?![A-Za-z0-9_]|\s*::)"
    )


def parse_diagnostics(text: str) -> typing.List[dict]:
    """Groups compiler output into error/warning groups: the primary diagnostic, its quoted source lines and the notes
    that follow it."""
    groups: typing.List[dict] = []
    cur: typing.Optional[dict] = None
    for line in text.splitlines():
        if line.startswith("In file included from") or re.match(r"^\s+from ", line):
            continue
        m = DIAG_RE.match(line)
        if m and m.group("kind") != "note":
            cur = {"file": m.group("file"), "kind": m.group("kind"), "text": [m.group("msg")]}
            groups.append(cur)
        elif cur is not None:
            mm = DIAG_RE.match(line)
            cur["text"].append(mm.group("msg") if mm else line)
    for g in groups:
        g["text"] = "\n".join(g["text"])
    return groups


def compile_pair(root: pathlib.Path, lang: str, a_key: str, b_key: str, std: str, with_vla: bool) -> typing.Tuple[int, str]:
    sup = root / "gen" / a_key / "support"
    typ = root / "gen" / b_key / "types"
    if lang == "c":
        cmd = ["gcc", "-x", "c", f"-std={std}"]
        tu = root / "tu" / f"tu_{int(with_vla)}.c"
    else:
        cmd = ["g++", "-x", "c++", f"-std={std}"]
        tu = root / "tu" / f"tu_{int(with_vla)}.cpp"
    cmd += ["-fsyntax-only", "-DNUNAVUT_ASSERT(x)=((void)(x))"] + CAST_MACROS + ["-I", str(sup), "-I", str(typ), str(tu)]
    env = dict(os.environ, LC_ALL="C", LANG="C")
    try:
        p = subprocess.run(cmd, stdout=subprocess.PIPE, stderr=subprocess.STDOUT, text=True, timeout=300, env=env, check=False)
    except FileNotFoundError as e:
        raise HarnessError(f"compiler missing: {e}") from e
    except subprocess.TimeoutExpired as e:
        raise HarnessError(f"compiler timed out: {' '.join(cmd)}") from e
    return p.returncode, p.stdout


def evaluate(lang: str, diff: typing.List[str], headers: typing.List[str], rc: int, out: str) -> dict:
    """Pure oracle: returns {'verdict': ok|identical_rejected|mismatch_accepted|no_named_assertion, ...}."""
    groups = parse_diagnostics(out)
    errors = [g for g in groups if g["kind"] in ("error", "fatal error")]
    if rc != 0 and not errors:
        raise HarnessError(f"compiler failed without a parsable error:\n{out[-2000:]}")
    if not diff:
        if rc == 0:
            return {"verdict": "ok", "named": {}, "unrelated": 0}
        f = errors[0]["file"]
        where = "support_header" if "/support/nunavut/" in f else ("type_header" if "/types/" in f else "other")
        first_line = re.sub(r"/\S*/dsdl/", "<dsdl>/", errors[0]["text"].splitlines()[0])
        return {
            "verdict": "identical_rejected",
            "named": {},
            "unrelated": len(errors),
            "first": errors[0]["text"][:300],
            "where": where,
            "error": re.sub(r"\d+", "N", first_line)[:80],
        }
    if rc == 0:
        return {"verdict": "mismatch_accepted", "named": {}, "unrelated": 0}
    regs = {k: name_regex(k) for k in KEYS[lang]}
    named: typing.Dict[str, typing.List[str]] = {h: [] for h in headers}
    unrelated = 0
    first_unrelated = ""
    for g in errors:
        if not STATIC_ASSERT_RE.search(g["text"]):
            unrelated += 1
            first_unrelated = first_unrelated or g["text"].splitlines()[0][:200]
            continue
        stem = pathlib.PurePath(g["file"]).name.split(".")[0]
        hits = [k for k, r in regs.items() if r.search(g["text"])]
        if stem in named and hits:
            for k in hits:
                if k not in named[stem]:
                    named[stem].append(k)
        else:
            unrelated += 1  # some other static assertion (e.g. inside the support header)
            first_unrelated = first_unrelated or g["text"].splitlines()[0][:200]
    missing = [h for h in headers if not set(named[h]) & set(diff)]
    res = {"named": named, "unrelated": unrelated, "first_unrelated": first_unrelated}
    res["verdict"] = "no_named_assertion" if missing else "ok"
    res["missing_headers"] = missing
    return res


class Job(typing.NamedTuple):
    lang: str
    a_key: str
    b_key: str
    std: str
    with_vla: bool
    diff: typing.Tuple[str, ...]
    family: str


def _compile_job(job: Job) -> dict:
    assert _ROOT is not None
    rc, out = compile_pair(_ROOT, job.lang, job.a_key, job.b_key, job.std, job.with_vla)
    headers = HEADERS_BASE + ([HEADER_VLA] if job.with_vla else [])
    res = evaluate(job.lang, list(job.diff), headers, rc, out)
    res["rc"] = rc
    if res["verdict"] != "ok":
        res["tail"] = out[-1500:]
    return res


def std_flags(lang: str, a: OptSet, b: OptSet) -> typing.List[str]:
    """The language standard(s) the mixed TU is compiled under: the newer of the two (both headers can be parsed; only
    the static assertion can reject the build) and, if `std` is the one and only difference, also the older one."""
    if lang == "c":
        return ["c11"]
    sa, sb = std_number(a.eff["std"]), std_number(b.eff["std"])
    flags = [f"c++{max(sa, sb)}"]
    if sa != sb and differing(a, b) == ["std"]:
        flags.append(f"c++{min(sa, sb)}")
    return flags


def sig_options(diff: typing.Sequence[str]) -> str:
    return "+".join(diff) if len(diff) <= 2 else f"{len(diff)}_options"


def report(ctx_or_none: typing.Optional[Ctx], job: Job, a: OptSet, b: OptSet, res: dict) -> typing.Optional[tuple]:
    v = res["verdict"]
    if v == "ok":
        return None
    case = {"lang": job.lang, "support_options": a.req, "type_options": b.req, "std": job.std, "differing": list(job.diff)}
    if v == "identical_rejected":
        sig = {"lang": job.lang, "kind": v, "where": res.get("where", ""), "error": res.get("error", "")}
        what = f"{job.lang}: identical option sets do not compile together (-std={job.std}): {res.get('first', '')!r}"
    elif v == "mismatch_accepted":
        sig = {"lang": job.lang, "kind": v, "options": sig_options(job.diff)}
        what = (
            f"{job.lang}: support header generated with {dict_diff(a, b, 0)} and type headers generated with "
            f"{dict_diff(a, b, 1)} compile together (-std={job.std})"
        )
    else:
        sig = {
            "lang": job.lang,
            "kind": v,
            "options": sig_options(job.diff),
            "headers": "+".join(res["missing_headers"]),
        }
        what = (
            f"{job.lang}: options differ in {list(job.diff)} but header(s) {res['missing_headers']} have no failing static "
            f"assertion naming one of them (named: {res['named']}; other errors: {res['unrelated']} "
            f"{res.get('first_unrelated', '')!r})"
        )
    if ctx_or_none is not None:
        ctx_or_none.violation(sig, case, what)
    return sig, case, what


def dict_diff(a: OptSet, b: OptSet, side: int) -> dict:
    ea, eb = a.eff, b.eff
    src = (ea, eb)[side]
    return {k: src[k] for k in KEYS[a.lang] if ea[k] != eb[k]}


# --------------------------------------------------------------------------------------------------------- emitted values
VALUE_ALPHABET = ["a", "A", "b", " ", "\t", "_", "0", "("]
VALUE_INTS = [0, 1, 2, 7, 123, 65535, 2147483647, 2147483648, 4294967295]
EMIT_RE = {
    "c": (
        re.compile(r"^#define NUNAVUT_SUPPORT_LANGUAGE_OPTION_(\w+) (.*)$", re.M),
        re.compile(r"^static_assert\( NUNAVUT_SUPPORT_LANGUAGE_OPTION_(\w+) == (.*),$", re.M),
    ),
    "cpp": (
        re.compile(r"^constexpr std::uint32_t (\w+) = (.*);$", re.M),
        re.compile(r"^static_assert\( nunavut::support::options::(\w+) == (.*),$", re.M),
    ),
}


def documented_strings() -> typing.List[str]:
    vals: typing.List[typing.Any] = ["c11", "c++17-pmr", "cetl++14-17", '"cetl/pf17/sys/memory_resource.hpp"']
    for dom in COMMON_DOMAIN.values():
        vals += [v for d in dom for v in d]
    vals += [v for d in PROFILE_PRODUCT_DOMAIN for v in d] + list(CETL_SINGLE_VALUES.values())
    for groups in [C_CAST_FAMILY, CPP_CAST_FAMILY] + [g for _, g in CPP_PROFILE_STRING_FAMILIES]:
        vals += [v for g in groups for v in g]
    return [v for v in vals if isinstance(v, str)]


def value_strings(max_len: int) -> typing.Tuple[typing.List[str], int]:
    """All strings over VALUE_ALPHABET up to max_len + documented/family values, without duplicates and without strings
    that genuinely share a CRC-32 with an earlier one (the documented value function is a 32 bit checksum, so such pairs
    may exist on correct code; none does in the sets used here). Returns (strings, dropped)."""
    out: typing.List[str] = []
    seen: typing.Set[str] = set()
    crcs: typing.Set[int] = set()
    dropped = 0
    cands = ["".join(t) for n in range(max_len + 1) for t in itertools.product(VALUE_ALPHABET, repeat=n)]
    for v in cands + documented_strings():
        if v in seen:
            continue
        seen.add(v)
        c = zlib.crc32(v.encode("utf-8"))
        if c in crcs:
            dropped += 1
            continue
        crcs.add(c)
        out.append(v)
    return out, dropped


def emit_values(lang: str, strings: typing.Sequence[str], out: pathlib.Path, ns_dir: pathlib.Path) -> dict:
    """Hands the strings (and bools / ints) to the real generator as additional language options x<i> / yb<i> / yi<i> and
    reads back what the support header and a type header emit for them: key -> [support side, type side]."""
    from vf import gen

    opts: typing.Dict[str, typing.Any] = {f"x{i}": v for i, v in enumerate(strings)}
    opts.update({"yb0": False, "yb1": True})
    opts.update({f"yi{i}": n for i, n in enumerate(VALUE_INTS)})
    shutil.rmtree(out, ignore_errors=True)
    gen.reset_process_state()
    gen.generate(lang, ns_dir, out, options=opts, types=_TYPES.get("all"))
    ext = "h" if lang == "c" else "hpp"
    sup = (out / "nunavut" / "support" / f"serialization.{ext}").read_text()
    typ = (out / "ns" / f"Inner_1_0.{ext}").read_text()
    rs, rt = EMIT_RE[lang]
    ds = {k.lower(): v.strip() for k, v in rs.findall(sup)}
    dt = {k.lower(): v.strip() for k, v in rt.findall(typ)}
    return {k: [ds.get(k), dt.get(k)] for k in opts}


def _emit_cli() -> None:
    """child process entry (other PYTHONHASHSEED): argv = lang, strings.json, out dir, dsdl ns dir"""
    lang, sfile, out, ns_dir = sys.argv[1:5]
    strings = json.loads(pathlib.Path(sfile).read_text())
    print("C17-VALUES " + json.dumps(emit_values(lang, strings, pathlib.Path(out), pathlib.Path(ns_dir))))


def _emit_job(job: typing.Tuple[str, typing.Optional[int], str, str]) -> dict:
    lang, seed, sfile, root = job
    out = pathlib.Path(root) / "values" / f"{lang}_{seed}"
    ns_dir = pathlib.Path(root) / "dsdl" / "ns"
    if seed is None:
        return emit_values(lang, json.loads(pathlib.Path(sfile).read_text()), out, ns_dir)
    code = "import sys; sys.path.insert(0, sys.argv.pop(1)); from vf.checks import c17; c17._emit_cli()"
    env = dict(os.environ, PYTHONHASHSEED=str(seed))
    p = subprocess.run(
        [sys.executable, "-c", code, str(VERIF), lang, sfile, str(out), str(ns_dir)],
        stdout=subprocess.PIPE, stderr=subprocess.PIPE, text=True, env=env, timeout=600, check=False,
    )  # fmt: skip
    lines = [l for l in p.stdout.splitlines() if l.startswith("C17-VALUES ")]
    if p.returncode != 0 or not lines:
        raise HarnessError(f"value emission child failed ({p.returncode}): {p.stderr[-1500:]}")
    return json.loads(lines[-1][len("C17-VALUES "):])


def relation(a: str, b: str) -> str:
    if _n(a) == _n(b):
        return "white_space_only"
    if a.lower() == b.lower():
        return "case_only"
    if _n(a).lower() == _n(b).lower():
        return "white_space_and_case_only"
    if sorted(a) == sorted(b):
        return "same_characters_other_order"
    if len(a) == len(b):
        return "same_length"
    if a.startswith(b) or b.startswith(a):
        return "prefix"
    if a.endswith(b) or b.endswith(a):
        return "suffix"
    return "other"


def check_values(ctx: typing.Optional[Ctx], root: pathlib.Path, strings: typing.Sequence[str], seeds: typing.Sequence[int]) -> dict:
    """Returns statistics; reports violations into ctx (or collects them under 'violations' when ctx is None)."""
    found: typing.List[tuple] = []

    def viol(sig: dict, case: dict, what: str) -> None:
        found.append((sig, case, what))
        if ctx is not None:
            ctx.violation(sig, case, what)

    (root / "values").mkdir(parents=True, exist_ok=True)
    sfile = root / "values" / "strings.json"
    sfile.write_text(json.dumps(list(strings)))
    jobs = [(lang, seed, str(sfile), str(root)) for lang in ("c", "cpp") for seed in [None] + list(seeds)]
    results = ctx.pool_map(_emit_job, jobs) if ctx is not None else [_emit_job(j) for j in jobs]
    stats = {"strings": len(strings), "processes_per_language": 1 + len(seeds), "values_compared": 0, "distinct_values": {}}
    for (lang, seed, _, _), res in zip(jobs, results):
        if seed is None:
            base = res
            by_value: typing.Dict[str, str] = {}
            for i, v in enumerate(strings):
                sup, typ = base[f"x{i}"]
                stats["values_compared"] += 1
                case = {"mode": "values", "lang": lang, "strings": [v]}
                if sup is None or typ is None:
                    side = "support_header" if sup is None else "type_header"
                    viol({"lang": lang, "kind": "value_not_emitted", "side": side}, case,
                         f"{lang}: additional string option with value {v!r} is not emitted in the {side}")  # fmt: skip
                    continue
                if sup != typ:
                    viol({"lang": lang, "kind": "value_differs_between_support_and_type_header"}, case,
                         f"{lang}: option value {v!r} is published as {sup} by the support header but asserted as {typ}")  # fmt: skip
                other = by_value.setdefault(typ, v)
                if other != v:
                    rel = relation(other, v)
                    viol({"lang": lang, "kind": "value_collision", "relation": rel},
                         {"mode": "values", "lang": lang, "strings": [other, v]},
                         f"{lang}: option values {other!r} and {v!r} ({rel}) are both emitted as {typ}: a mismatch between "
                         "them cannot be detected by the static assertion")  # fmt: skip
            stats["distinct_values"][lang] = len(by_value)
            want = {"yb0": "0", "yb1": "1", **{f"yi{i}": str(n) for i, n in enumerate(VALUE_INTS)}}
            for k, w in want.items():
                for side, got in zip(("support_header", "type_header"), base[k]):
                    stats["values_compared"] += 1
                    try:
                        ok = got is not None and int(got.rstrip("UuLl")) == int(w)
                    except ValueError:
                        ok = False
                    if not ok:
                        viol({"lang": lang, "kind": "bool_int_not_identity", "type": "bool" if k.startswith("yb") else "int"},
                             {"mode": "values", "lang": lang, "strings": []},
                             f"{lang}: {'bool' if k.startswith('yb') else 'int'} option value {w} is emitted as {got!r} in the {side}")  # fmt: skip
        else:
            diff = [k for k in base if base[k] != res.get(k)]
            stats["values_compared"] += len(base)
            if diff:
                i = int(diff[0][1:]) if diff[0].startswith("x") else -1
                v = strings[i] if i >= 0 else diff[0]
                viol({"lang": lang, "kind": "value_differs_between_processes"},
                     {"mode": "values", "lang": lang, "strings": [v] if i >= 0 else []},
                     f"{lang}: {len(diff)} emitted assertion value(s) differ under PYTHONHASHSEED={seed}, e.g. {v!r}: "
                     f"{base[diff[0]]} vs {res.get(diff[0])}")  # fmt: skip
    stats["violations"] = found
    return stats


def probe_c_std(root: pathlib.Path, sp: Space) -> dict:
    """Statistic only (the statement speaks about documented options of properties.yaml; C has no `std` there, but
    `--language-standard c11` injects one): what happens when only one side was generated with it."""
    with_std = OptSet("c", "c-probe-std-c11", (("std", "c11"),))
    plain = sp.s("c", DOC_DEFAULTS["c"])
    for s in (with_std, plain):
        e = generate_set(s)
        if e:
            return {"error": e}
    out = {}
    for name, a, b in (("support_with_std.types_without", with_std, plain), ("support_without.types_with_std", plain, with_std)):
        rc, text = compile_pair(root, "c", a.key, b.key, "c11", True)
        errs = [g for g in parse_diagnostics(text) if g["kind"] != "warning"]
        out[name] = "compiles" if rc == 0 else "rejected: " + errs[0]["text"].splitlines()[0][:120] if errs else "rejected"
    return out


# --------------------------------------------------------------------------------------------------------- run
def run(ctx: Ctx) -> int:
    for tool in ("gcc", "g++"):
        if shutil.which(tool) is None:
            raise HarnessError(f"{tool} not found")
    root = ctx.scratch / "c17"
    root.mkdir(parents=True, exist_ok=True)
    prepare(root)
    sp = build_space()

    # ---- select (deterministic: core + slice in quick, everything in thorough)
    jobs: typing.List[Job] = []
    job_sets: typing.List[typing.Tuple[OptSet, OptSet]] = []
    seen_jobs = set()
    space_total = 0
    for (ak, bk), family in sp.pairs.items():
        a, b = sp.sets[ak], sp.sets[bk]
        diff = tuple(differing(a, b))
        wv = vla_ok(a.lang, b.eff)
        for std in std_flags(a.lang, a, b):
            space_total += 1
            # the compile depends on the directories only; identical requests under different keys do not exist here
            jid = f"{a.lang}|{ak}|{bk}|{std}"
            if jid in seen_jobs:
                continue
            if not ((ak, bk) in sp.core or ctx.in_slice(jid)):
                continue
            seen_jobs.add(jid)
            jobs.append(Job(a.lang, ak, bk, std, wv, diff, family))
            job_sets.append((a, b))

    needed: typing.Dict[str, OptSet] = {}
    for a, b in job_sets:
        needed.setdefault(a.key, a)
        needed.setdefault(b.key, b)
    need_list = list(needed.values())
    t_gen = time.time()
    gen_err = ctx.pool_map(generate_set, need_list, chunksize=2)
    t_gen = time.time() - t_gen
    failed = {s.key: e for s, e in zip(need_list, gen_err) if e}
    if failed:
        k, e = sorted(failed.items())[0]
        raise HarnessError(f"{len(failed)} option set(s) could not be generated, e.g. {needed[k].req}: {e}")

    t_cc = time.time()
    results = ctx.pool_map(_compile_job, jobs, chunksize=4)
    t_cc = time.time() - t_cc

    # ---- evaluate
    outcomes = set()
    nontrivial = set()
    sampled: typing.Set[tuple] = set()
    identical_samples: typing.List[dict] = []
    single_diff_rejected: typing.Dict[typing.Tuple[str, str], int] = {}
    fam_done: typing.Dict[str, int] = {}
    stats = {"identical_ok": 0, "mismatch_rejected_by_named_assertion": 0, "all_differing_options_named": 0,
             "assertion_named_nondiffering_option": 0, "pairs_with_unrelated_errors": 0}  # fmt: skip
    for job, (a, b), res in zip(jobs, job_sets, results):
        fam_done[job.family] = fam_done.get(job.family, 0) + 1
        report(ctx, job, a, b, res)
        named_all = sorted({k for ks in res["named"].values() for k in ks})
        outcomes.add((job.lang, job.diff, tuple(named_all), res["rc"] != 0, res["verdict"]))
        if job.diff:
            nontrivial.add((job.lang, job.a_key, job.b_key))
        if res["verdict"] == "ok":
            if not job.diff:
                stats["identical_ok"] += 1
                if (job.lang, "identical") not in sampled and (job.lang == "c" or job.a_key != job.b_key):
                    sampled.add((job.lang, "identical"))
                    identical_samples.append({"lang": job.lang, "support": a.req, "types": b.req, "std": job.std, "result": "compiles"})
            else:
                stats["mismatch_rejected_by_named_assertion"] += 1
                if all(set(ks) >= set(job.diff) for ks in res["named"].values()):
                    stats["all_differing_options_named"] += 1
                if any(set(ks) - set(job.diff) for ks in res["named"].values()):
                    stats["assertion_named_nondiffering_option"] += 1
                if res["unrelated"]:
                    stats["pairs_with_unrelated_errors"] += 1
                if len(job.diff) == 1:
                    k = (job.lang, job.diff[0])
                    single_diff_rejected[k] = single_diff_rejected.get(k, 0) + 1
                if len(ctx.samples) < 6 and (job.lang, min(len(job.diff), 3)) not in sampled:
                    sampled.add((job.lang, min(len(job.diff), 3)))
                    ctx.samples.append(
                        {"lang": job.lang, "support": dict_diff(a, b, 0), "types": dict_diff(a, b, 1), "std": job.std,
                         "result": "rejected", "headers": sorted(res["named"]),
                         "options_named_by_failed_static_assertions_in_every_header": named_all}  # fmt: skip
                    )
    ctx.samples = identical_samples[:2] + ctx.samples[:6]
    ctx.stats.update(stats)
    ctx.stats["option_sets_generated"] = len(need_list)
    ctx.stats["phase_wall_s"] = {"generate": round(t_gen, 1), "compile": round(t_cc, 1)}
    ctx.stats["option_sets_in_space"] = len(sp.sets)
    ctx.stats["space_compiles"] = space_total
    ctx.stats["family_sizes_listed"] = sp.family_sizes
    ctx.stats["family_compiles_done"] = fam_done
    ctx.stats["single_option_rejections"] = {f"{l}.{k}": n for (l, k), n in sorted(single_diff_rejected.items())}

    ctx.stats["probe_c_option_std_c11_not_in_properties_yaml"] = probe_c_std(root, sp)

    # ---- the emitted assertion value itself: injective, process independent, bool/int identity
    vmax = 4 if ctx.thorough else 3
    strings, dropped = value_strings(vmax)
    t_val = time.time()
    vstats = check_values(ctx, root, strings, seeds=(1, 2))
    vstats.pop("violations")
    vstats.update(max_len=vmax, alphabet=VALUE_ALPHABET, dropped_genuine_crc32_collisions=dropped, wall_s=round(time.time() - t_val, 1))
    ctx.stats["emitted_value_check"] = vstats
    if vstats["strings"] < 500 or min(vstats["distinct_values"].values(), default=0) < 2:
        raise HarnessError(f"emitted value check is vacuous: {vstats}")

    # ---- vacuity: every option of both languages must have been the single differing option of an evaluated pair
    exercised = {(j.lang, j.diff[0]) for j in jobs if len(j.diff) == 1}
    wanted = {(lang, k) for lang in ("c", "cpp") for k in KEYS[lang]}
    if wanted - exercised:
        raise HarnessError(f"options never exercised as a single difference: {sorted(wanted - exercised)}")
    n_ident = sum(1 for j in jobs if not j.diff)
    if n_ident < 50:
        raise HarnessError(f"only {n_ident} identical pairs explored")

    n_c = sum(1 for j in jobs if j.lang == "c")
    cov = {
        "evaluations": len(jobs) + vstats["values_compared"],
        "compiles": len(jobs),
        "emitted_values_compared": vstats["values_compared"],
        "distinct_nontrivial": len(nontrivial),
        "distinct_outcomes": len(outcomes),
        "identical_pairs": n_ident,
        "rule": "one evaluation = one gcc/g++ -fsyntax-only run of a TU including the type headers generated with "
        "option set B against the support header generated with option set A, or one comparison of the value the real "
        "templates emit for one additional option value (support side vs type side / vs all other strings / vs another "
        "process); non-trivial = distinct ordered pair (lang, A, B) with A != B; outcome = (lang, differing options, "
        "options named by failing static assertions, rejected?, verdict)",
        "bound_completed": (
            f"c: all {n_c} ordered pairs of the 48 option sets (3x2x2x2x2); cpp: {len(jobs) - n_c} of "
            f"{space_total - n_c} compiles of the structured space (4 documented standards/shorthands x every "
            "single-option neighbour incl. single cetl values, 48x48 common options at c++14 and c++17-pmr, every "
            "single-option difference inside the 224-profile product, 48x48 allocator sub-lattice, centre pairs x "
            "common options differing in <=1 option); 3 types (struct, sealed union nesting it, delimited type with "
            "variable-length arrays); near-collision families of cast_format (c: 14 values, cpp: 4 groups) and of "
            "the C++ array/allocator string options, all ordered pairs per group; emitted assertion values of "
            f"{vstats['strings']} strings (alphabet {''.join(VALUE_ALPHABET)!r}, length <= {vmax}, + documented and family "
            "values) x {c, cpp} x 3 processes (PYTHONHASHSEED 0, 1, 2)"
        ),
        "exhaustive": bool(ctx.thorough),
    }
    return ctx.finish(
        "exploration",
        cov,
        [
            "gcc/g++ 12 -fsyntax-only stand for 'the build'; caret diagnostics (default) are part of the diagnostic",
            "option values: documented values of properties.yaml / CLI help; cast_format (free-form) second value for C "
            "is '({type})({value})'; the cetl++14-17 shorthand and the cetl allocator_include cannot be compiled here "
            "(CETL submodule empty) and are excluded; cetl values of std_flavor, variable_array_type_include, "
            "variable_array_type_template, allocator_type only appear where they do not reach the code of the compiled types",
            "C++ option sets are restricted to self-consistent ones (allocator constructor conventions need the pmr "
            "allocator, <memory_resource>, C++17 and a default-constructible allocator); the variable-length-array "
            "type is part of the TU only when the type options can express it",
            "a pair differing in `std` is compiled under the newer standard (and, when std is the only difference, "
            "also under the older one); the DSDL types contain no floating point fields",
            "C option `std` (only reachable through --language-standard c11, not an option of properties.yaml) is not enumerated",
            "free-form string options: family values are harness-chosen valid spellings (helper macros XCAST/xcast/YCAST/"
            "NNVG_* are defined on every command line); strings of the injectivity check are handed over as additional "
            "language options x<i> (options may be invented by users, docs/templates.rst) and are not compiled; pairs of "
            "strings with a genuinely equal CRC-32 would be dropped from the set (none in the enumerated sets)",
        ],
        min_outcomes=("distinct_outcomes", 30),
    )


def replay(ctx: Ctx, case: dict) -> int:
    root = ctx.scratch / "c17"
    root.mkdir(parents=True, exist_ok=True)
    prepare(root)
    if case.get("mode") == "values":
        strings = list(case["strings"]) or [""]
        st = check_values(None, root, strings, seeds=(1,))
        for lang in ("c", "cpp"):
            print(lang, emit_values(lang, strings, root / "values" / "show", root / "dsdl" / "ns"))
        bad = [v for v in st["violations"] if v[0]["lang"] == case["lang"]]
        for _, _, what in bad:
            print("VIOLATION:", what)
        return 1 if bad else 0
    lang = case["lang"]
    a = make_set(lang, case["support_options"], "A")
    b = make_set(lang, case["type_options"], "B")
    for s in (a, b):
        e = generate_set(s)
        if e:
            raise HarnessError(f"cannot generate {s.req}: {e}")
    diff = tuple(differing(a, b))
    wv = vla_ok(lang, b.eff)
    rc, out = compile_pair(root, lang, a.key, b.key, case["std"], wv)
    headers = HEADERS_BASE + ([HEADER_VLA] if wv else [])
    res = evaluate(lang, list(diff), headers, rc, out)
    print(f"support options: {a.req}\ntype options:    {b.req}\ndiffering: {list(diff)}  -std={case['std']}  rc={rc}")
    print("\n".join(l for l in out.splitlines() if "error" in l or "static_assert" in l)[:3000])
    print(f"verdict: {res['verdict']}  named={res['named']}  other_errors={res['unrelated']}")
    r = report(None, Job(lang, a.key, b.key, case["std"], wv, diff, "replay"), a, b, res)
    if r is not None:
        print("VIOLATION:", r[2])
        return 1
    return 0
