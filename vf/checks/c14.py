"""
C14 - support-library bit primitives (exploration, exhaustive within bounds).

C (target_endianness any/little/big x asserts) and C++ (bitspan/const_bitspan) primitives are exercised by a compiled
driver (vf/drivers/c14_driver.c, built as C11 and as C++14 against the support header generated from the working tree,
ASan+UBSan, exactly-sized heap buffers) that enumerates offsets x lengths x buffer sizes x patterns and compares with a
bit-at-a-time reference; float16 packing is checked for all 2^32 singles (faithful, monotone, inf/NaN) and all 2^16
halves (round trip).  The Python Serializer/Deserializer are driven in-process against the same naive reference.
"""
from __future__ import annotations

import itertools
import os
import pathlib
import re
import struct
import sys
import typing

from vf import gen
from vf.core import VERIF, Bag, Ctx, HarnessError

DRIVER = VERIF / "vf" / "drivers" / "c14_driver.c"
SAN = ["-fsanitize=address,undefined", "-fno-sanitize-recover=undefined", "-fno-omit-frame-pointer", "-g", "-O1"]
ASAN_ENV = {"ASAN_OPTIONS": "detect_leaks=1:abort_on_error=0:exitcode=99", "UBSAN_OPTIONS": "print_stacktrace=1:halt_on_error=1"}


def _gen_support(ctx: Ctx, lang: str, options: dict, tag: str) -> pathlib.Path:
    ns = ctx.scratch / "ns" / "prim"
    if not ns.exists():
        gen.write_ns(ctx.scratch / "ns", {"prim/T.1.0.dsdl": "uint8 a\n@sealed\n"})
    out = ctx.scratch / f"out_{lang}_{tag}"
    gen.generate(lang, ns, out, options=options)
    return out


def _build(job: tuple) -> typing.Tuple[str, str]:
    tag, lang, inc, exe, flags = job
    cc = ["gcc", "-x", "c", "-std=c11"] if lang == "c" else ["g++", "-x", "c++", "-std=c++14"]
    cmd = cc + list(flags) + ["-Wall", "-Wextra", "-I", str(inc), str(DRIVER), "-o", str(exe), "-lm"]
    p = gen.run_cmd(cmd)
    return tag, (p.stdout if p.returncode != 0 else "")


def _run(job: tuple) -> dict:
    tag, exe, args = job
    env = dict(os.environ)
    env.update(ASAN_ENV)
    p = gen.run_cmd([str(exe)] + [str(a) for a in args], env=env, timeout=3000)
    cases = re.search(r"^CASES (\d+)", p.stdout, re.M)
    nt = re.search(r"^NONTRIVIAL (\d+)", p.stdout, re.M)
    fails = [l for l in p.stdout.splitlines() if l.startswith("FAIL ")]
    san = None
    if p.returncode != 0:
        m = re.search(r"(ERROR: AddressSanitizer: [^\n]*|runtime error: [^\n]*|ERROR: LeakSanitizer[^\n]*)", p.stdout)
        san = m.group(1) if m else f"exit status {p.returncode}: {p.stdout[-300:]}"
    return {
        "tag": tag,
        "args": list(args),
        "cases": int(cases.group(1)) if cases else 0,
        "nontrivial": int(nt.group(1)) if nt else 0,
        "fails": fails,
        "san": san,
        "out_tail": p.stdout[-1500:] if san else "",
    }


# ------------------------------------------------------------------------------------------------ python primitives
def _rbit(buf: bytes, bit: int) -> int:
    i = bit // 8
    return 0 if i >= len(buf) else (buf[i] >> (bit % 8)) & 1


def _py_worker(job: tuple) -> dict:
    outdir, max_off, max_len, max_size = job
    sys.path.insert(0, str(outdir))
    import numpy as np  # noqa
    import nunavut_support as ns  # type: ignore

    bag = Bag()
    cases = nontrivial = 0

    def pattern(n: int, pat: int) -> bytes:
        if pat == 1:
            return bytes([0xFF] * n)
        x, out = 0x2545F491, []
        for i in range(n):
            if pat == 2:
                out.append(0xA5 ^ ((i * 0x3B) & 0xFF))
            else:
                x ^= (x << 13) & 0xFFFFFFFF
                x ^= x >> 17
                x ^= (x << 5) & 0xFFFFFFFF
                out.append(x & 0xFF)
        return bytes(out)

    # ---- Deserializer: skip k bits then fetch; zero extension past the end; sign extension
    for size in range(0, max_size + 1):
        for pat in (1, 2, 3):
            data = pattern(size, pat)
            for off in range(0, max_off + 1):
                for ln in range(1, max_len + 1):
                    want_u = sum(_rbit(data, off + i) << i for i in range(ln))
                    want_s = want_u - (1 << ln) if (ln >= 2 and want_u >> (ln - 1)) else want_u
                    for kind in ("unaligned_unsigned", "unaligned_signed", "aligned_unsigned", "aligned_signed"):
                        if kind.startswith("aligned") and off % 8:
                            continue
                        if kind.endswith("signed") and not kind.endswith("unsigned") and ln < 2:
                            continue
                        d = ns.Deserializer.new([memoryview(data)])
                        d.skip_bits(off)
                        try:
                            got = getattr(d, "fetch_" + kind)(ln)
                        except Exception as e:  # pylint: disable=broad-except
                            got = f"{type(e).__name__}"
                        cases += 1
                        if off + ln > size * 8:
                            nontrivial += 1
                        want = want_s if kind.endswith("_signed") else want_u
                        if got != want or d.consumed_bit_length != off + ln:
                            bag.add(
                                {"kind": "py_fetch", "fn": kind, "past_end": off + ln > size * 8},
                                {"driver": "py", "fn": kind, "data": data.hex(), "off": off, "len": ln},
                                f"Deserializer.fetch_{kind}({ln}) at bit {off} of {data.hex()!r}: got {got}, want {want}",
                            )
                # bit / bytes / bit arrays / std primitives
                d = ns.Deserializer.new([memoryview(data)])
                d.skip_bits(off)
                got_b = d.fetch_unaligned_bit()
                cases += 1
                if bool(got_b) != bool(_rbit(data, off)):
                    bag.add({"kind": "py_fetch", "fn": "unaligned_bit"}, {"driver": "py", "data": data.hex(), "off": off}, "fetch_unaligned_bit wrong")
                for cnt in (0, 1, 3, 9):
                    for fn in ("fetch_unaligned_bytes", "fetch_aligned_bytes", "fetch_unaligned_array_of_bits", "fetch_aligned_array_of_bits"):
                        if "_aligned" in fn and off % 8:
                            continue
                        d = ns.Deserializer.new([memoryview(data)])
                        d.skip_bits(off)
                        got = getattr(d, fn)(cnt)
                        cases += 1
                        if "bytes" in fn:
                            want = [sum(_rbit(data, off + 8 * j + i) << i for i in range(8)) for j in range(cnt)]
                            adv = 8 * cnt
                        else:
                            want = [bool(_rbit(data, off + j)) for j in range(cnt)]
                            adv = cnt
                        if [int(x) if "bytes" in fn else bool(x) for x in got] != want or d.consumed_bit_length != off + adv:
                            bag.add(
                                {"kind": "py_fetch", "fn": fn, "past_end": off + adv > size * 8},
                                {"driver": "py", "fn": fn, "data": data.hex(), "off": off, "count": cnt},
                                f"Deserializer.{fn}({cnt}) at bit {off} of {data.hex()!r}: got {list(got)}, want {want}",
                            )
                for fmt, w, nm in (("<e", 16, "f16"), ("<f", 32, "f32"), ("<d", 64, "f64"), ("<H", 16, "u16"), ("<I", 32, "u32"), ("<Q", 64, "u64"), ("<b", 8, "i8"), ("<h", 16, "i16"), ("<i", 32, "i32"), ("<q", 64, "i64"), ("<B", 8, "u8")):
                    if nm[0] == "f":
                        fns = [("fetch_unaligned_" + nm, False)] + ([("fetch_aligned_" + nm, True)] if off % 8 == 0 else [])
                    else:
                        fns = [("fetch_aligned_" + nm, True)] if off % 8 == 0 else []
                    raw = bytes(sum(_rbit(data, off + 8 * j + i) << i for i in range(8)) for j in range(w // 8))
                    want = struct.unpack(fmt, raw)[0]
                    for fn, _al in fns:
                        d = ns.Deserializer.new([memoryview(data)])
                        d.skip_bits(off)
                        got = getattr(d, fn)()
                        cases += 1
                        same = (got == want) or (got != got and want != want)
                        if not same or d.consumed_bit_length != off + w:
                            bag.add(
                                {"kind": "py_fetch", "fn": fn, "past_end": off + w > size * 8},
                                {"driver": "py", "fn": fn, "data": data.hex(), "off": off},
                                f"Deserializer.{fn}() at bit {off} of {data.hex()!r}: got {got!r}, want {want!r}",
                            )

    # ---- Serializer: append-only contract. Write a k-bit prefix of ones, then the value, then a suffix of ones;
    # the buffer must hold exactly prefix | value bits | suffix, every other bit zero.
    vals = lambda ln: sorted({0, 1, (1 << ln) - 1, 0xA5A5A5A5A5A5A5A5 & ((1 << ln) - 1), 1 << (ln - 1)})  # noqa: E731
    for off in range(0, max_off + 1):
        for ln in range(1, min(max_len, 64) + 1):
            for v in vals(ln):
                for kind in ("unaligned_unsigned", "aligned_unsigned", "unaligned_signed", "aligned_signed"):
                    if kind.startswith("aligned") and off % 8:
                        continue
                    signed = kind.endswith("_signed")
                    if signed and ln < 2:
                        continue
                    arg = v - (1 << ln) if (signed and v >> (ln - 1)) else v
                    s = ns.Serializer.new((off + ln + 7) // 8 + 2)
                    for _ in range(off):
                        s.add_unaligned_bit(True)
                    getattr(s, "add_" + kind)(arg, ln)
                    for _ in range(3):
                        s.add_unaligned_bit(True)
                    total = off + ln + 3
                    want_bits = [1] * off + [(v >> i) & 1 for i in range(ln)] + [1] * 3
                    got = bytes(s.buffer)
                    cases += 1
                    if off % 8 or ln % 8:
                        nontrivial += 1
                    wantb = bytearray((total + 7) // 8)
                    for i, b in enumerate(want_bits):
                        wantb[i // 8] |= b << (i % 8)
                    if s.current_bit_length != total or got != bytes(wantb):
                        bag.add(
                            {"kind": "py_add", "fn": kind, "aligned_off": off % 8 == 0},
                            {"driver": "py", "fn": kind, "off": off, "len": ln, "value": arg},
                            f"Serializer.add_{kind}({arg}, {ln}) after {off} one-bits: buffer {got.hex()} want {bytes(wantb).hex()}",
                        )
        # fixed-width adders, bytes and bit arrays
        specs = [("u8", "<B", 0xA5), ("u16", "<H", 0xBEEF), ("u32", "<I", 0xDEADBEEF), ("u64", "<Q", 0x0123456789ABCDEF), ("i8", "<b", -2), ("i16", "<h", -300), ("i32", "<i", -70000), ("i64", "<q", -(1 << 40)), ("f16", "<e", 1.5), ("f32", "<f", -2.5), ("f64", "<d", 1e300)]
        for nm, fmt, val in specs:
            fnames = (["add_aligned_" + nm] if off % 8 == 0 else []) + (["add_unaligned_" + nm] if nm[0] == "f" else [])
            for fn in fnames:
                s = ns.Serializer.new(off // 8 + 12)
                for _ in range(off):
                    s.add_unaligned_bit(True)
                getattr(s, fn)(val)
                s.add_unaligned_bit(True)
                raw = struct.pack(fmt, val)
                want_bits = [1] * off + [(raw[i // 8] >> (i % 8)) & 1 for i in range(len(raw) * 8)] + [1]
                wantb = bytearray((len(want_bits) + 7) // 8)
                for i, b in enumerate(want_bits):
                    wantb[i // 8] |= b << (i % 8)
                cases += 1
                if bytes(s.buffer) != bytes(wantb):
                    bag.add({"kind": "py_add", "fn": fn}, {"driver": "py", "fn": fn, "off": off, "value": val}, f"Serializer.{fn}({val}) after {off} bits: {bytes(s.buffer).hex()} want {bytes(wantb).hex()}")
        for cnt in (0, 1, 3, 9):
            for fn in ("add_unaligned_bytes", "add_aligned_bytes", "add_unaligned_array_of_bits", "add_aligned_array_of_bits"):
                if "_aligned" in fn and off % 8:
                    continue
                s = ns.Serializer.new(off // 8 + 14)
                for _ in range(off):
                    s.add_unaligned_bit(True)
                if "bytes" in fn:
                    arr = np.array([(0x5A + 37 * j) & 0xFF for j in range(cnt)], dtype=np.uint8)
                    bits = [(int(arr[i // 8]) >> (i % 8)) & 1 for i in range(cnt * 8)]
                else:
                    arr = np.array([(j * 5) % 3 == 0 for j in range(cnt)], dtype=bool)
                    bits = [int(x) for x in arr]
                getattr(s, fn)(arr)
                s.add_unaligned_bit(True)
                want_bits = [1] * off + bits + [1]
                wantb = bytearray((len(want_bits) + 7) // 8)
                for i, b in enumerate(want_bits):
                    wantb[i // 8] |= b << (i % 8)
                cases += 1
                if bytes(s.buffer) != bytes(wantb) or s.current_bit_length != len(want_bits):
                    bag.add({"kind": "py_add", "fn": fn}, {"driver": "py", "fn": fn, "off": off, "count": cnt}, f"Serializer.{fn}(count={cnt}) after {off} bits: {bytes(s.buffer).hex()} want {bytes(wantb).hex()}")
    # ---- float16 via struct 'e' (the Python target delegates to CPython/NumPy): all halves round trip
    for h in range(0, 65536, 1):
        raw = struct.pack("<H", h)
        d = ns.Deserializer.new([memoryview(raw)])
        f = d.fetch_aligned_f16()
        s = ns.Serializer.new(2)
        s.add_aligned_f16(f)
        back = bytes(s.buffer)
        cases += 1
        is_nan = (h & 0x7C00) == 0x7C00 and (h & 0x3FF)
        if is_nan:
            ok = f != f and (back[1] & 0x7C) == 0x7C and ((back[1] & 3) or back[0])
        else:
            ok = back == raw
        if not ok:
            bag.add({"kind": "py_f16_roundtrip"}, {"driver": "py", "half": h}, f"half {h:#06x} -> {f!r} -> {back.hex()}")
    return {"cases": cases, "nontrivial": nontrivial, "bag": bag}


# ------------------------------------------------------------------------------------------------ main
C_CONFIGS_QUICK = [("any", False), ("little", False), ("big", True)]
C_CONFIGS_FULL = [(e, a) for e in ("any", "little", "big") for a in (False, True)]


def _classify_fail(line: str) -> typing.Tuple[dict, dict]:
    parts = line.split()
    fn = parts[1]
    kv = dict(p.split("=", 1) for p in parts[2:] if "=" in p)
    feat = {}
    if "off" in kv:
        feat["off_aligned"] = int(kv["off"]) % 8 == 0
    if "len" in kv:
        feat["len_aligned"] = int(kv["len"]) % 8 == 0
    return {"fn": fn, **feat}, kv


def run(ctx: Ctx) -> int:
    q = not ctx.thorough
    max_off, max_len, max_size = (15, 40, 9) if q else (23, 80, 12)
    c_cfgs = C_CONFIGS_QUICK if q else C_CONFIGS_FULL
    cpp_cfgs = [("any", False, "c++14"), ("little", True, "c++17")] if q else [(e, a, s) for e in ("any", "little") for a in (False, True) for s in ("c++14", "c++17")]
    builds, incs = [], {}
    for e, a in c_cfgs:
        tag = f"c-{e}-{'assert' if a else 'noassert'}"
        incs[tag] = _gen_support(ctx, "c", {"target_endianness": e, "enable_serialization_asserts": a}, tag)
    for e, a, std in cpp_cfgs:
        tag = f"cpp-{e}-{'assert' if a else 'noassert'}-{std}"
        incs[tag] = _gen_support(ctx, "cpp", {"target_endianness": e, "enable_serialization_asserts": a, "std": std}, tag)
    for tag, inc in incs.items():
        lang = "c" if tag.startswith("c-") else "cpp"
        extra = ["-DNUNAVUT_ASSERT=assert", "-include", "assert.h"] if "-assert" in tag else []
        builds.append((tag + "/san", lang, inc, ctx.scratch / (tag + ".san"), SAN + extra))
    # the 2^32 sweep: optimized, no sanitizer, one C and one C++ build
    builds.append(("c-any-noassert/fast", "c", incs["c-any-noassert"], ctx.scratch / "c.fast", ["-O2"]))
    cpp_fast = next(t for t in incs if t.startswith("cpp-any-noassert"))
    builds.append((cpp_fast + "/fast", "cpp", incs[cpp_fast], ctx.scratch / "cpp.fast", ["-O2"]))
    for tag, err in ctx.pool_map(_build, builds):
        if err:
            raise HarnessError(f"driver build failed for {tag}:\n{err[-3000:]}")
    jobs = []
    for tag, lang, _inc, exe, _f in builds:
        if tag.endswith("/san"):
            # split the big phases by offset range so 16 cores are used
            jobs.append((tag, exe, ["copy", max_off, max_len]))
            jobs.append((tag, exe, ["copyoverlap", 12, 100 if not q else 80]))
            jobs.append((tag, exe, ["getbits", max_off, max_len, max_size]))
            jobs.append((tag, exe, ["getint", max_off, 70 if not q else 66, max_size]))
            jobs.append((tag, exe, ["setint", max_off, 70 if not q else 66, max_size]))
            jobs.append((tag, exe, ["float16rt"]))
            jobs.append((tag, exe, ["floatxx", max_off]))
            if lang == "cpp":
                jobs.append((tag, exe, ["zeros", max_off, 40, max_size]))
                jobs.append((tag, exe, ["subspan", max_off, 0, max_size]))
        else:
            nsh = 64
            shards = range(nsh) if not q else [s for s in range(nsh) if s % 16 == ctx.seed % 16 or s in (0, 12, 13, 14, 15, 16, 17, 31, 32, 44, 45, 46, 47, 48, 49, 63)]  # core: every shard holding a finite half magnitude
            for s in shards:
                jobs.append((tag, exe, ["f16pack", s, nsh]))
    # python
    py_out = ctx.scratch / "out_py"
    gen.generate("py", ctx.scratch / "ns" / "prim", py_out)
    py_jobs = [(py_out, max_off, min(max_len, 66), max_size)]
    results = ctx.pool_map(_run, jobs)
    evals = nontrivial = 0
    f16_sharded = 0
    for r in results:
        evals += r["cases"]
        nontrivial += r["nontrivial"]
        if r["args"][0] == "f16pack":
            f16_sharded += 1
        if r["san"]:
            ctx.violation(
                {"kind": "sanitizer_or_crash", "phase": r["args"][0], "lang": r["tag"].split("-")[0]},
                {"driver": r["tag"], "args": r["args"], "report": r["out_tail"]},
                f"{r['tag']} {' '.join(map(str, r['args']))}: {r['san']}",
            )
        for line in r["fails"]:
            sig, kv = _classify_fail(line)
            sig.update(kind="primitive_mismatch", lang=r["tag"].split("-")[0])
            ctx.violation(sig, {"driver": r["tag"], "phase": r["args"][0], "params": kv}, f"{r['tag']}: {line}")
        if not r["san"] and r["cases"] == 0:
            raise HarnessError(f"driver produced no cases: {r['tag']} {r['args']}")
    pr = ctx.pool_map(_py_worker, py_jobs)
    for r in pr:
        evals += r["cases"]
        nontrivial += r["nontrivial"]
        ctx.bag.merge(r["bag"])
    ctx.samples = [
        {"fn": "nunavutCopyBits", "src_off": 3, "dst_off": 13, "len": 17, "pattern": "xorshift", "buffers": "exact heap blocks"},
        {"fn": "nunavutGetI16", "off": 7, "len": 13, "buffer_size": 2, "expect": "zero-extended then sign-extended"},
        {"fn": "bitspan::setUxx", "off": 5, "len": 64, "size": 8, "expect": "SerializationBufferTooSmall, buffer untouched"},
        {"fn": "nunavutFloat16Pack", "in": "every uint32 bit pattern", "oracle": "floor/ceil half computed in integer arithmetic"},
    ]
    ctx.stats.update(configs=sorted(incs), f16pack_shards_run=f16_sharded, f16pack_shards_total=64 * 2)
    cov = {
        "evaluations": evals,
        "distinct_nontrivial": nontrivial,
        "rule": "one evaluation = one primitive call compared with a bit-at-a-time reference; non-trivial = unaligned "
        "offset or length, read past the buffer end, sign extension, too-small buffer, inexact float",
        "bound_completed": f"offsets 0..{max_off}, lengths 0..{max_len} (ints 0..{66 if q else 70}), buffer sizes 0..{max_size}, "
        f"4 fill patterns; all 65536 halves; float16 pack over {f16_sharded}/128 shards of 2^26 singles (C and C++)",
        "exhaustive": not q,
        "configurations": len(incs) + 1,
    }
    return ctx.finish(
        "exploration",
        cov,
        [
            "gcc 12 + ASan/UBSan on x86-64 (little-endian host): target_endianness=big is only checked to be equivalent",
            "Python primitives run on CPython 3.12 + NumPy 2.5 from the offline wheelhouse",
            "signed one-bit reads are documented as unspecified and skipped",
        ],
        min_outcomes=("evaluations", 100000),
    )


def replay(ctx: Ctx, case: dict) -> int:
    print("C14 replay: re-run the named driver phase:", case)
    return 0
