"""
C19 - the bundled template engine is a conservative extension of stock Jinja2 (exploration; engine E6 vf/c19_twin.py).

Three oracles, each evaluated on a bounded, exhaustively enumerated space of templates:

O1 "plain"  (templates WITHOUT the auto-indent marker): every sequence of <=3 fragments of FRAGMENTS, every sequence of
    <=2 fragments inside every wrapper of WRAPPERS (nesting depth 1) and every single fragment inside every ordered
    pair of wrappers (nesting depth 2), x 5 Environment flag sets x {LF, CRLF} x 3 contexts, rendered by the bundled
    engine and by the stock Jinja2 of the environment.  Demand: same text, or failure where stock fails.
    O1f "filter arguments": every width x first x blank call of `indent` (keyword and positional) and the calls of the
    neighbouring filters that mean the same in both engines, through every carrier (expression, folded literal,
    {% filter %}, macro result, block set) x every value of FILTER_VALUES x autoescape off/on.
    O1h "histories" (vf/c19_lexer.py): [<=2 earlier templates ; ordinary template] in one process - the earlier templates
    are refused by the lexer or the parser, fail while rendering, render, or are token streams dropped half way, with
    and without the marker; the ordinary template must render as stock renders it whatever was compiled before.
O2 "marker" (the auto-indent marker): every construct of CONSTRUCTS x every indentation of WS x every lead / trail text
    x every enclosing block of ENCLOSURES x flags x line endings x contexts.
      direct: M = render(ws + marked construct), P = render(plain construct) in the bundled engine,
              M.splitlines() == [ws + l if l else l for l in P.splitlines()]                      (DESIGN's formula)
              or M is that prefixed text with EXACTLY ONE trailing line terminator missing (see accepts(): the tolerated
              drop of the construct's final terminator, which for a rendering ending in a blank line is visible through
              splitlines(); a blank line lost elsewhere or two missing terminators are violations).
      twin:   the same placement with the marked construct replaced by `{% filter c19ref(ws) %}plain{% endfilter %}`
              (resp. `{{ (e)|c19ref(ws) }}`), where c19ref is the harness' own reference filter; the marked rendering
              must equal the twin rendering with every reference segment X replaced by some text accepted for X by
              the same rule.
    O2p "predecessors": the same twin oracle with the marker behind every kind of preceding tag (PREDS) with and without
        that tag's '-' control x every gap of PRED_GAPS (newlines, blanks, NBSP, U+3000, form feed) x indentation; the
        prefix is the run of blanks/tabs in front of the marker, or empty when the '-' control has consumed it.
    O2i "inheritance": parent / child / grandchild sets, included and imported templates that carry markers (see the
        comment at OI_WS): one marker occurrence at a time is replaced by the harness' reference filter, the lines of the
        rendering with all markers must be those of that rendering.
O3 "assert"/"usequery": `{% assert e %}` raises iff `not e` and renders nothing otherwise; every ifuses/ifnuses/
    elifuses/elifnuses/else chain with <=2 elif arms over 2 queries x all 4 truth assignments renders what the same
    if/elif/else chain renders (reference: plain Python evaluation, cross-checked with stock Jinja2's `{% if %}`).

Constructs whose meaning differs between the 2.11.dev snapshot and 3.1 *without* Nunavut's edits are not part of the
common language; they are listed in EXCLUDED and every run re-verifies the justification with the `pristine` engine
(bundled engine with Nunavut's lexer alternatives removed): the difference must persist there.
"""
from __future__ import annotations

import itertools
import re
import typing
import zlib

from vf import c19_lexer as lx
from vf import c19_twin as tw
from vf.core import Bag, Ctx, HarnessError, load_known_findings, match_finding

# ====================================================================================================== O1 grammar
LSTRIP_ON = ("lstrip_blocks", "trim+lstrip")
LSTRIP_OFF = ("plain", "trim_blocks", "keep_trailing_newline")


class Frag(typing.NamedTuple):
    name: str
    src: str
    flags: typing.Optional[typing.Tuple[str, ...]] = None  # None = every flag set


FRAGMENTS: typing.List[Frag] = [
    # text, incl. leading/trailing blanks and newlines
    Frag("t_a", "a"),
    Frag("t_sp", " "),
    Frag("t_nl", "\n"),
    Frag("t_ind_nl", "  b\n"),
    Frag("t_nl_tab", "\n\t"),
    Frag("t_multi", "x \n\n  y"),
    # expressions
    Frag("e_v", "{{ v }}"),
    Frag("e_lv", "{{- v }}"),
    Frag("e_vr", "{{ v -}}"),
    Frag("e_filters", "{{ s|upper ~ n }}{{ u|default('d') }}{{ l|join(',') }}{{ l|length + n }}"),
    Frag("e_ops", "{{ n in l }}{{ n not in l }}{{ not b }}{{ u is defined }}{{ u is none }}{{ n is even }}"),
    Frag("e_attr", "{{ d.k }}{{ d['k'] }}{{ l[0] }}"),
    Frag("e_indent", "{{ m|indent(2) }}"),
    Frag("e_undef", "{{ u.x }}"),
    Frag("e_strnl", "{{ 'p\nq' + s }}"),
    Frag("e_mul", "{{2*n}}*{{ (n + 1) * 2 }}"),
    # comments; the first character ranges over {space, *, -, +, #, letter}
    Frag("c_sp", "{# c #}"),
    Frag("c_star", "{#* c #}"),
    Frag("c_minus", "{#- c #}"),
    Frag("c_plus", "{#+ c #}", LSTRIP_OFF),  # see EXCLUDED[1]
    Frag("c_hash", "{## c #}"),
    Frag("c_letter", "{#c#}"),
    Frag("c_rminus", "{# c -#}"),
    # raw
    Frag("r_plain", "{% raw %}{{ v }} {%* x %}{% endraw %}"),
    Frag("r_ws", "{%- raw -%} r {%- endraw -%}"),
    # blocks
    Frag("b_if", "{% if b %}A{% endif %}"),
    Frag("b_elif", "{% if u %}A{% elif n %}B{% else %}C{% endif %}"),
    Frag("b_if_ws", "{%- if b -%} A {%- endif -%}"),
    Frag("b_for", "{% for i in l %}{{ loop.index }}:{{ i }}\n{% else %}E{% endfor %}"),
    Frag("b_for_ws", "{% for i in l -%}\n  {{ i }}\n{%- endfor %}"),
    Frag("b_set", "{% set z = n + 1 %}{{ z }}"),
    Frag("b_setblk", "{% set z %}blk{{ v }}{% endset %}[{{ z }}]"),
    Frag("b_macro", "{% macro m(a, b=2) %}[{{ a }}{{ b }}]{% endmacro %}{{ m(n) }}"),
    Frag("b_call", "{% macro w() %}<{{ caller() }}>{% endmacro %}{% call w() %}in{% endcall %}"),
    Frag("b_filter", "{% filter upper %}f{{ v }}{% endfilter %}"),
    Frag("b_include", "{% include 'inc' %}"),
    Frag("b_import", "{% import 'lib' as L %}{{ L.f(n) }}{% from 'lib' import f %}{{ f(v) }}"),
    Frag("b_extends", "{% extends 'base' %}"),
    Frag("b_block", "{% block b %}X{{ v }}{% endblock %}"),
    Frag("b_notfound", "{% include 'nope' %}"),
    Frag("b_stray", "{% endfor %}"),
    Frag("b_plus", "{%+ if b %}P{% endif %}", LSTRIP_ON),  # see EXCLUDED[0]
]

# Fragments of the autoescape sub-space (O1a): HTML-special text in the context (`h`), a Markup object (`mk`), the
# escaping filters, and the constructs whose result is Markup under autoescape (macro call, block set, caller()).
HTML_FRAGMENTS: typing.List[Frag] = [
    Frag("h_text", "<p class=\"x\">&'\n"),
    Frag("h_h", "{{ h }}"),
    Frag("h_mk", "{{ mk }}"),
    Frag("h_e", "{{ h|e }}{{ mk|e }}"),
    Frag("h_escape", "{{ h|escape }}{{ mk|escape }}"),
    Frag("h_safe", "{{ h|safe }}"),
    Frag("h_force", "{{ h|forceescape }}{{ mk|forceescape }}"),
    Frag("h_concat", "{{ mk ~ h }}|{{ h + mk }}"),
    Frag("h_indent", "{{ h|indent(2) }}|{{ mk|indent(1) }}|{{ mk|upper }}|{{ mk|length }}"),
    Frag("h_misc", "{{ mk|striptags }}|{{ h|replace('<', '&') }}|{{ [h, mk]|join('<') }}|{{ mk|trim }}|{{ h|default(mk) }}"),
    Frag("h_macro", "{% macro hq() %}{{ h }}\n{{ mk }}{% endmacro %}{{ hq() }}|{{ hq()|e }}"),
    Frag("h_setblk", "{% set hx %}<s>{{ h }}{% endset %}{{ hx }}|{{ hx|e }}"),
    Frag("h_call", "{% macro hw() %}[{{ caller() }}]{% endmacro %}{% call hw() %}<c>{{ h }}{% endcall %}"),
    Frag("h_filter", "{% filter e %}<f>{{ mk }}{% endfilter %}{% filter upper %}{{ h }}{% endfilter %}"),
    Frag("h_include", "{% include 'inch' %}"),
    Frag("h_for", "{% for i in [h, mk] %}{{ i }}\n{% endfor %}"),
    Frag("h_autoescape_tag", "{% autoescape false %}{{ h }}{% endautoescape %}{% autoescape true %}{{ h }}{% endautoescape %}"),
]
ALL_FRAGS: typing.List[Frag] = FRAGMENTS + HTML_FRAGMENTS
# main-grammar fragments that are crossed with the HTML fragments in O1a
O1A_MAIN = ["t_sp", "t_ind_nl", "t_nl_tab", "e_v", "e_lv", "e_vr", "c_sp", "c_minus", "r_plain", "b_if_ws", "b_for_ws"]

WRAPPERS: typing.List[typing.Tuple[str, str, str]] = [
    ("w_if", "{% if true %}", "{% endif %}"),
    ("w_else", "{% if false %}no{% else %}", "{% endif %}"),
    ("w_for", "{% for j in [1, 2] %}", "{% endfor %}"),
    ("w_macro", "{% macro mw() %}", "{% endmacro %}{{ mw() }}"),
    ("w_call", "{% macro cw() %}({{ caller() }}){% endmacro %}{% call cw() %}", "{% endcall %}"),
    ("w_filter", "{% filter upper %}", "{% endfilter %}"),
    ("w_setblk", "{% set sb %}", "{% endset %}{{ sb }}|{{ sb|length }}"),
    ("w_block", "{% block wb %}", "{% endblock %}"),
    ("w_for_ws", "{%- for j in [1, 2] -%}", "{%- endfor -%}"),
    ("w_extends", "{% extends 'base' %}{% block b %}", "{% endblock %}"),
]

EXCLUDED: typing.List[typing.Dict[str, typing.Any]] = [
    {
        "construct": "'{%+' (the no-lstrip modifier) in an Environment WITHOUT lstrip_blocks",
        "reason": "the 2.11.dev snapshot (commit 7e417c5c, before upstream's lexer rewrite #858 released in 2.11.0) "
        "only accepts '+' after the block start when lstrip_blocks is on (upstream code: `else: block_prefix_re = "
        "'%s' % e(block_start_string)`); 2.11.0 final and 3.x accept it always. Upstream change, untouched by Nunavut.",
        "witnesses": [["{%+ if b %}P{% endif %}", "plain"], ["  {%+ if b %}P{% endif %}", "trim_blocks"]],
        "kept_in_grammar_as": "fragment b_plus, only with lstrip_blocks on",
    },
    {
        "construct": "a comment opened with '{#+' preceded by blanks at the start of a line WITH lstrip_blocks",
        "reason": "upstream's 2.10/2.11.dev comment_prefix_re is `^[ \\t]*{#|{#\\+?`: the first alternative strips the "
        "blanks before '+' is ever looked at, so '+' never disabled lstrip for comments; upstream's lexer rewrite "
        "(#858, 2.11.0) made '+' effective for comments. Upstream change, untouched by Nunavut.",
        "witnesses": [[" {#+ c #}", "lstrip_blocks"], ["\n\t{#+ c #}x", "trim+lstrip"]],
        "kept_in_grammar_as": "fragment c_plus, only with lstrip_blocks off",
    },
    {
        "construct": "'+%}' (keep the newline after a block although trim_blocks is on), also on '{% endraw +%}'",
        "reason": "the 2.11.dev snapshot's block-end rule is `(?:\\-%}\\s*|%})\\n?` (upstream code): '+' before '%}' is "
        "lexed as an operator and the tag is a syntax error; upstream added '+%}' with the lexer rewrite released in "
        "2.11.0. Upstream change, untouched by Nunavut. ('{% raw +%}' is a syntax error in both engines.)",
        "witnesses": [["{% if b +%}\nx{% endif %}", "trim_blocks"], ["{% raw %}x{% endraw +%}\ny", "trim_blocks"]],
        "kept_in_grammar_as": "not in the grammar; the raw sub-space uses '-' control and '{%+ raw' (lstrip_blocks on) only",
    },
]


class Tpl(typing.NamedTuple):
    """A template of the O1 grammar: wrappers (outermost first) around a sequence of fragments."""

    wraps: typing.Tuple[int, ...]
    frags: typing.Tuple[int, ...]

    @property
    def name(self) -> str:
        s = "+".join(ALL_FRAGS[i].name for i in self.frags)
        for w in reversed(self.wraps):
            s = f"{WRAPPERS[w][0]}({s})"
        return s

    @property
    def names(self) -> typing.List[str]:
        return [WRAPPERS[w][0] for w in self.wraps] + [ALL_FRAGS[i].name for i in self.frags]

    @property
    def src(self) -> str:
        s = "".join(ALL_FRAGS[i].src for i in self.frags)
        for w in reversed(self.wraps):
            s = WRAPPERS[w][1] + s + WRAPPERS[w][2]
        return s

    @property
    def flags(self) -> typing.List[str]:
        ok = list(tw.FLAGS)
        for i in self.frags:
            if ALL_FRAGS[i].flags is not None:
                ok = [f for f in ok if f in ALL_FRAGS[i].flags]  # type: ignore
        return ok


def o1_space() -> typing.Iterator[typing.Tuple[Tpl, bool]]:
    """(template, in the fixed quick core?)"""
    nf, nw = len(FRAGMENTS), len(WRAPPERS)
    for n in (1, 2, 3):
        for seq in itertools.product(range(nf), repeat=n):
            yield Tpl((), seq), n <= 2
    for w in range(nw):
        for n in (0, 1, 2):
            for seq in itertools.product(range(nf), repeat=n):
                yield Tpl((w,), seq), n <= 1
    for w1 in range(nw):
        for w2 in range(nw):
            for f in range(nf):
                yield Tpl((w1, w2), (f,)), False


def o1a_space() -> typing.Iterator[typing.Tuple[Tpl, bool]]:
    """The autoescape sub-space (every template runs with autoescape off AND on): all sequences of <=2 of (HTML
    fragments + O1A_MAIN) that contain an HTML fragment, all sequences of 3 HTML fragments, every HTML fragment and
    every pair of HTML fragments inside every wrapper. Quick core: single HTML fragments, bare and wrapped."""
    html = list(range(len(FRAGMENTS), len(ALL_FRAGS)))
    main = [[f.name for f in FRAGMENTS].index(n) for n in O1A_MAIN]
    both = html + main
    for f in html:
        yield Tpl((), (f,)), True
    for a in both:
        for b in both:
            if a in html or b in html:
                yield Tpl((), (a, b)), False
    for seq in itertools.product(html, repeat=3):
        yield Tpl((), seq), False
    for w in range(len(WRAPPERS)):
        for f in html:
            yield Tpl((w,), (f,)), True
        for seq in itertools.product(html, repeat=2):
            yield Tpl((w,), seq), False


# ---------------------------------------------------------------------------------------------- O1 evaluation
CTXS = tw.contexts()


def o1_compare(b: tw.Outcome, s: tw.Outcome) -> typing.Optional[str]:
    """None when the statement holds for this pair, else the kind of disagreement."""
    if s[0] == "err":
        return None if b[0] == "err" else "bundled_renders_stock_raises"
    if b[0] == "err":
        return "bundled_raises_stock_renders"
    return None if b[1] == s[1] else "output_differs"


_WS_COMMENT_STAR = re.compile(r"[ \t]\{#\*")


def o1_feature(src: str, flags: str, le: str, ci: int, names: typing.Sequence[str], ae: bool = False) -> str:
    """Root-cause class of an O1 disagreement. A recognised class is only returned when it is shown to be the cause
    and to have exactly the recorded effect: (1) the repaired template (`{# *` instead of `{#*`) means the same to
    stock and makes the two engines agree; (2) the bundled engine renders the original exactly as stock renders it with
    the run of blanks/tabs in front of every `{#*` deleted (nothing else, e.g. no newline, is lost)."""
    if _WS_COMMENT_STAR.search(src):
        c = [CTXS[ci]]
        repaired = src.replace("{#*", "{# *")
        s0 = tw.render("stock", flags, le, src, c, ae)[0]
        s1 = tw.render("stock", flags, le, repaired, c, ae)[0]
        b1 = tw.render("bundled", flags, le, repaired, c, ae)[0]
        b0 = tw.render("bundled", flags, le, src, c, ae)[0]
        s2 = tw.render("stock", flags, le, re.sub(r"[ \t]+\{#\*", "{#*", src), c, ae)[0]
        if s0 == s1 and o1_compare(b1, s1) is None and b0 == s2:
            return "blanks_before_comment_star"
    return "fragments:" + "+".join(names)


def o1_eval_case(case: dict) -> typing.Optional[typing.Tuple[dict, str]]:
    src, flags, le, ci = case["template"], case["flags"], case["le"], case["ctx"]
    ae = bool(case.get("autoescape", False))
    b = tw.render("bundled", flags, le, src, [CTXS[ci]], ae)[0]
    s = tw.render("stock", flags, le, src, [CTXS[ci]], ae)[0]
    kind = o1_compare(b, s)
    if kind is None:
        return None
    p = tw.render("pristine", flags, le, src, [CTXS[ci]], ae)[0]
    cause = "nunavut_lexer_edit" if p == s else ("not_the_lexer_edit" if p == b else "mixed")
    feat = o1_feature(src, flags, le, ci, case.get("names", []), ae)
    sig = {"oracle": "plain", "kind": kind, "feature": feat, "cause": cause}
    if ae:
        sig["autoescape"] = True
    what = (
        f"ordinary template {tw.with_le(src, le)!r} [{flags}{', autoescape' if ae else ''}, ctx {ci}]: bundled {b!r} vs stock {s!r} "
        f"(bundled engine without Nunavut's lexer alternatives: {p!r})"
    )
    return sig, what


def o1_differs(t: Tpl, flags: str, le: str, ci: int, ae: bool = False) -> bool:
    if flags not in t.flags:
        return False
    b = tw.render("bundled", flags, le, t.src, [CTXS[ci]], ae)[0]
    s = tw.render("stock", flags, le, t.src, [CTXS[ci]], ae)[0]
    return o1_compare(b, s) is not None


def o1_minimize(t: Tpl, flags: str, le: str, ci: int, ae: bool = False) -> Tpl:
    """Greedy structural minimisation: drop wrappers, then fragments, while the disagreement persists."""
    changed = True
    while changed:
        changed = False
        for k in range(len(t.wraps)):
            c = Tpl(t.wraps[:k] + t.wraps[k + 1 :], t.frags)
            if c.frags and o1_differs(c, flags, le, ci, ae):
                t, changed = c, True
                break
        if changed:
            continue
        for k in range(len(t.frags)):
            c = Tpl(t.wraps, t.frags[:k] + t.frags[k + 1 :])
            if (c.frags or c.wraps) and o1_differs(c, flags, le, ci, ae):
                t, changed = c, True
                break
    return t


def _h(text: str) -> int:
    return zlib.crc32(text.encode("utf-8", "surrogatepass"))


_I_SP = [f.name for f in FRAGMENTS].index("c_sp")
_I_STAR = [f.name for f in FRAGMENTS].index("c_star")


def o1_work(tpls: typing.List[typing.Tuple[Tpl, typing.Tuple[bool, ...]]]) -> dict:
    bag = Bag()
    r = {"cases": 0, "cases_autoescape": 0, "evals": 0, "nontrivial": 0, "both_ok": 0, "both_raise": 0}
    r.update(family_mismatch=0, escaping_observable=0, stock_rendered=0, stock_raised=0)
    outcomes: typing.Set[int] = set()
    minimized = 0
    samples: typing.List[dict] = []
    for t, aes in tpls:
        src = t.src
        for flags in t.flags:
            for le, ae in itertools.product(tw.LINE_ENDINGS, aes):
                if le == "crlf" and "\n" not in src:
                    continue
                bs = tw.render("bundled", flags, le, src, CTXS, ae)
                ss = tw.render("stock", flags, le, src, CTXS, ae)
                r["cases"] += 1
                r["cases_autoescape"] += int(ae)
                norm = src  # the engines normalise CRLF to LF
                for ci, (b, s) in enumerate(zip(bs, ss)):
                    r["evals"] += 1
                    kind = o1_compare(b, s)
                    r["stock_rendered" if s[0] == "ok" else "stock_raised"] += 1  # oracle side (vacuity guards)
                    if s[0] == "ok":
                        outcomes.add(_h(s[1]))
                        if s[1] != norm:
                            r["nontrivial"] += 1
                        if ae and ("&lt;" in s[1] or "&amp;" in s[1] or "&#3" in s[1]):
                            r["escaping_observable"] += 1
                        if kind is None:
                            r["both_ok"] += 1
                    elif kind is None:
                        r["both_raise"] += 1
                        outcomes.add(_h("!" + s[1]))
                        if b[1] != s[1]:
                            r["family_mismatch"] += 1
                    if kind is None:
                        continue
                    case = {"oracle": "plain", "template": src, "names": t.names, "flags": flags, "le": le, "ctx": ci}
                    if ae:
                        case["autoescape"] = True
                    ev = o1_eval_case(case)
                    if ev is None:
                        raise HarnessError(f"O1 disagreement did not reproduce: {case}")
                    sig, what = ev
                    if sig["feature"].startswith("fragments:") and minimized < 60:
                        minimized += 1
                        # a second cause next to the known comment case must not be minimised back into it: look at
                        # the template with `{#* c #}` replaced by `{# c #}` first
                        t2 = Tpl(t.wraps, tuple(_I_SP if i == _I_STAR else i for i in t.frags))
                        mt = o1_minimize(t2 if t2 != t and o1_differs(t2, flags, le, ci, ae) else t, flags, le, ci, ae)
                        case = {**case, "template": mt.src, "names": mt.names}
                        ev = o1_eval_case(case)
                        if ev is None:
                            raise HarnessError(f"minimised O1 disagreement did not reproduce: {case}")
                        sig, what = ev
                    elif sig["feature"].startswith("fragments:"):
                        sig = {**sig, "feature": "fragments:<not minimised, see the minimised signatures>"}
                    bag.add(sig, case, what)
        if len(samples) < 2 and len(t.frags) + len(t.wraps) >= 3 and "{#" in src and "{%" in src and "\n" in src:
            samples.append({"oracle": "plain", "template": src, "flag_sets": t.flags})
    r.update(bag=bag, outcomes=outcomes, samples=samples, templates=len(tpls))
    return r


# ====================================================================================================== O1f filters
# Oracle 1 over the ARGUMENTS of bundled filters: `indent` (its implementation stands next to Nunavut's own `lineprefix`
# filter and does the same kind of line handling) with every width x first x blank combination in positional and keyword
# form, and the other filters of that part of filters.py that mean the same in the 2.11.dev snapshot and in 3.1, each
# applied through every carrier (expression, constant-folded literal, {% filter %} block, macro result, block-set
# result) to every value of FILTER_VALUES (empty, starting with a line break, made of blank lines, blank-but-not-empty
# lines, CR / CRLF / other line boundaries, HTML-special text, the same as Markup, non-strings) x autoescape off/on.
# Not part of the common language (they differ on the pristine snapshot because upstream rewrote them for 3.0; they are
# not in this space): urlize, wordwrap, wordcount, center on Markup, indent(width='string'), indent(indentfirst=...).
class FVal(typing.NamedTuple):
    name: str
    value: typing.Any
    markup: bool = False


FILTER_VALUES: typing.List[FVal] = [
    FVal("empty", ""),
    FVal("word", "a"),
    FVal("two_lines", "a\nb"),
    FVal("only_newline", "\n"),
    FVal("leading_newline", "\nfoo"),
    FVal("two_newlines", "\n\n"),
    FVal("blank_lines_around", "\n\nfoo\nbar\n"),
    FVal("inner_blank_terminated", "a\n\nb\n"),
    FVal("indented_inner_blank", "  x\n\n  y"),
    FVal("lines_of_blanks", " \n\t\nz"),
    FVal("first_line_blanks", "  \nq"),
    FVal("crlf", "a\r\nb\r\n"),
    FVal("leading_crlf", "\r\nfoo"),
    FVal("cr", "a\rb"),
    FVal("leading_cr_blank", "\r\rb"),
    FVal("other_boundaries", "a\x0bb\x0cc d\x85e"),
    FVal("leading_formfeed", "\x0cfoo"),
    FVal("html", "<b>\n\n&"),
    FVal("words", "foo bar baz qux"),
    FVal("paragraphs", "hello  world\n\nnext para"),
    FVal("hex", "0x1F"),
    FVal("int", 3),
    FVal("big_int", 12345678),
    FVal("float", -2.5),
    FVal("none", None),
    FVal("list", [1, "a\nb"]),
    FVal("mk_empty", "", True),
    FVal("mk_leading_newline", "\nfoo", True),
    FVal("mk_only_newline", "\n", True),
    FVal("mk_html_blank", "<i>\n\n</i> &amp;", True),
    FVal("mk_crlf", "\r\n<u>\r\n", True),
    FVal("mk_words", "foo <b>bar</b> baz", True),
]
_FVAL = {v.name: v for v in FILTER_VALUES}
INDENT_WIDTHS: typing.Tuple[typing.Optional[int], ...] = (None, 0, 1, 2, 8)
TRISTATE: typing.Tuple[typing.Optional[bool], ...] = (None, False, True)
FILTER_CARRIERS: typing.List[typing.Tuple[str, str]] = [  # F = the filter call, L = the value as a string literal
    ("expr", "[{{ x|F }}]"),
    ("literal", "[{{ L|F }}]"),
    ("filter_block", "[{% filter F %}{{ x }}{% endfilter %}]"),
    ("macro_result", "{% macro q(a) %}{{ a }}{% endmacro %}[{{ q(x)|F }}]"),
    ("macro_body_newline", "{% macro q(a) %}\n{{ a }}\n{% endmacro %}[{{ q(x)|F }}]"),
    ("set_block", "{% set z %}{{ x }}{% endset %}[{{ z|F }}]"),
]
OTHER_FILTERS: typing.List[typing.Tuple[str, typing.List[str]]] = [
    (
        "truncate",
        [
            "",
            "(5)",
            "(5, true)",
            "(5, false, '..')",
            "(9, false, '...', 0)",
            "(3, true, '...', 0)",
            "(2)",
            "(length=7, killwords=true, end='', leeway=1)",
            "(0, true, '')",
            "(4, leeway=0)",
        ],
    ),
    ("trim", [""]),
    ("striptags", [""]),
    ("title", [""]),
    ("capitalize", [""]),
    ("upper", [""]),
    ("lower", [""]),
    ("replace", ["('a', 'b')", "('\\n', '|', 1)"]),
    ("int", ["", "(7)", "(7, 16)"]),
    ("float", ["", "(1.5)"]),
    ("format", ["('x')"]),
    ("string", [""]),
    ("default", ["('d')", "('d', true)"]),
    ("join", ["('|')"]),
    ("pprint", [""]),
    ("filesizeformat", ["", "(true)"]),
    ("length", [""]),
    ("first", [""]),
    ("last", [""]),
    ("e", [""]),
    ("forceescape", [""]),
    ("safe", [""]),
]


def _jlit(b: typing.Optional[bool]) -> str:
    return "true" if b else "false"


def indent_calls() -> typing.List[typing.Tuple[str, str]]:
    """(filter call, argument class) for every width x first x blank, written with keywords and with the longest
    possible positional prefix; duplicates (same text) removed."""
    out: typing.List[typing.Tuple[str, str]] = []
    seen: typing.Set[str] = set()
    for w, f, b in itertools.product(INDENT_WIDTHS, TRISTATE, TRISTATE):
        kw = [f"width={w}"] if w is not None else []
        kw += [f"first={_jlit(f)}"] if f is not None else []
        kw += [f"blank={_jlit(b)}"] if b is not None else []
        pos: typing.List[str] = []
        if w is not None:
            pos.append(str(w))
            if f is not None:
                pos.append(_jlit(f))
                if b is not None:
                    pos.append(_jlit(b))
        rest = kw[len(pos) :]
        for args in (kw, pos + rest):
            call = "indent" + ("(" + ", ".join(args) + ")" if args else "")
            if call not in seen:
                seen.add(call)
                cls = f"first={_jlit(f)},blank={_jlit(b)}"  # the effective values (both default to false)
                out.append((call, cls + (",width=0" if w == 0 else "")))
    return out


def _literal(text: str) -> typing.Optional[str]:
    """A Jinja string literal for the text (None when it cannot be written with the escapes both engines know)."""
    if any(ch in text for ch in "'\"\\") or any(ord(ch) > 0xFF for ch in text):
        return None
    return "'" + "".join(ch if " " <= ch <= "~" else "\\x%02x" % ord(ch) for ch in text) + "'"


def value_class(v: FVal, carrier: str = "expr") -> str:
    """Class of the text the filter receives (goes into the violation signature)."""
    if not isinstance(v.value, str) and carrier in ("expr", "literal"):
        return "non_string"
    text = str(v.value)
    lines = ("\n" + text + "\n" if carrier == "macro_body_newline" else text).splitlines()
    if not lines:
        return "empty"
    if lines[0] == "":
        return "first_line_empty"
    if "" in lines[1:]:
        return "later_line_empty"
    return "multi_line" if len(lines) > 1 else "single_line"


def of_space() -> typing.Iterator[dict]:
    """One item = one template (filter call x carrier x autoescape [x literal value]); it is rendered for every value."""
    calls = [("indent", c, cls) for c, cls in indent_calls()]
    calls += [(name, name + a, "args=" + (a or "none")) for name, al in OTHER_FILTERS for a in al]
    for fname, call, cls in calls:
        for carrier, tpl in FILTER_CARRIERS:
            if fname != "indent" and carrier not in ("expr", "filter_block", "macro_result"):
                continue
            for ae in (False, True):
                base = {"oracle": "filter", "filter": fname, "call": call, "args": cls, "carrier": carrier, "autoescape": ae}
                if carrier != "literal":
                    yield {**base, "template": tpl.replace("F", call, 1)}
                    continue
                for v in FILTER_VALUES:
                    lit = _literal(v.value) if isinstance(v.value, str) and not v.markup else None
                    if lit is not None:
                        yield {**base, "template": tpl.replace("F", call, 1).replace("L", lit, 1), "value": v.name}


def of_contexts(engine: str, names: typing.Sequence[str]) -> typing.List[typing.Dict[str, typing.Any]]:
    return [{"x": tw.MarkupSpec(_FVAL[n].value) if _FVAL[n].markup else _FVAL[n].value} for n in names]


def of_eval_case(case: dict) -> typing.Optional[typing.Tuple[dict, str]]:
    """One (template, value, autoescape) of the filter sub-space, bundled vs stock."""
    ae, v = bool(case.get("autoescape", False)), _FVAL[case["value"]]
    b = tw.render("bundled", "plain", "lf", case["template"], of_contexts("bundled", [v.name]), ae)[0]
    s = tw.render("stock", "plain", "lf", case["template"], of_contexts("stock", [v.name]), ae)[0]
    kind = o1_compare(b, s)
    if kind is None:
        return None
    sig = {
        "oracle": "filter",
        "kind": kind,
        "filter": case["filter"],
        "args": case["args"],
        "value": value_class(v, case["carrier"]),
        "markup": bool(v.markup or (ae and case["carrier"] not in ("expr", "literal"))),
    }
    what = (
        f"ordinary template {case['template']!r} with x={'Markup' if v.markup else ''}{v.value!r}"
        f"{' [autoescape]' if ae else ''}: bundled {b!r} vs stock {s!r}"
    )
    return sig, what


def of_work(items: typing.List[dict]) -> dict:
    bag = Bag()
    st = {"templates": 0, "evals": 0, "stock_rendered": 0, "stock_raised": 0, "nontrivial": 0}
    st.update(expected_first_line_indented_although_empty=0, expected_blank_line_indented=0, expected_markup_kept=0)
    outcomes: typing.Set[int] = set()
    samples: typing.List[dict] = []
    for item in items:
        names = [item["value"]] if "value" in item else [v.name for v in FILTER_VALUES]
        ae = item["autoescape"]
        bs = tw.render("bundled", "plain", "lf", item["template"], of_contexts("bundled", names), ae)
        ss = tw.render("stock", "plain", "lf", item["template"], of_contexts("stock", names), ae)
        st["templates"] += 1
        for n, b, s in zip(names, bs, ss):
            st["evals"] += 1
            st["stock_rendered" if s[0] == "ok" else "stock_raised"] += 1
            if s[0] == "ok":
                outcomes.add(_h(item["call"] + "\x00" + s[1]))
                v = _FVAL[n]
                if s[1] != "[" + str(v.value) + "]":
                    st["nontrivial"] += 1
                # oracle side (vacuity guards): what STOCK does with the interesting combinations
                if item["filter"] == "indent" and isinstance(v.value, str):
                    if "first=true" in item["args"] and value_class(v, item["carrier"]) in ("empty", "first_line_empty") and s[1][1:2] == " ":
                        st["expected_first_line_indented_although_empty"] += 1
                    if "blank=true" in item["args"] and " \n" in s[1] and " \n" not in v.value:
                        st["expected_blank_line_indented"] += 1
                    if ae and v.markup and "<" in s[1]:
                        st["expected_markup_kept"] += 1
            if o1_compare(b, s) is None:
                continue
            case = {**item, "value": n}
            ev = of_eval_case(case)
            if ev is None:
                raise HarnessError(f"filter disagreement did not reproduce: {case}")
            bag.add(ev[0], case, ev[1])
        if len(samples) < 1 and item["filter"] == "indent" and "first=true" in item["args"] and item["carrier"] == "macro_result":
            samples.append({k: item[k] for k in ("oracle", "template", "autoescape")})
    return {"bag": bag, "st": st, "outcomes": outcomes, "samples": samples}


# ====================================================================================================== O2 grammar
class Cons(typing.NamedTuple):
    name: str
    feature: str  # construct class (goes into the violation signature)
    kind: str  # "expr" | "block"
    body: str  # expr: the expression; block: the construct with '@' where the marker goes
    prelude: str = ""  # put at the very beginning of the template (macro definitions)
    endctl: str = ""  # expr only: '-' for `-}}`


CONSTRUCTS: typing.List[Cons] = [
    Cons("x_m", "expr_string", "expr", "m"),
    Cons("x_m_rctl", "expr_string", "expr", "m", endctl="-"),
    Cons("x_join", "expr_string", "expr", "l|join('\\n')"),
    Cons("x_macro", "expr_macro_call", "expr", "mm()", prelude="{% macro mm() %}a\n\n  b{{ v }}\n{% endmacro %}"),
    Cons("x_int", "expr_non_string", "expr", "n"),
    Cons("k_for", "for", "block", "{%@ for i in l %}{{ i }}:\n\n  t{{ i }}\n{% endfor %}"),
    Cons("k_for_ctl", "for", "block", "{%@ for i in l -%}\n r{{ i }}\n{% endfor -%}"),
    Cons("k_for_blank_tail", "for", "block", "{%@ for i in l %}{{ i }}\n\n{% endfor %}"),
    Cons("k_if_blank_tail2", "if", "block", "{%@ if true %}e\n\n\n{% endif %}"),
    Cons("k_if", "if", "block", "{%@ if b %}p\n q\n{% else %}\nr\n{% endif %}"),
    Cons("k_if_one", "if", "block", "{%@ if n %}single{% endif %}"),
    Cons("k_include", "include", "block", "{%@ include 'inc' %}"),
    Cons("k_setblk", "set_block", "block", "{%@ set zz %}s1\ns2{% endset %}"),
    Cons(
        "k_call",
        "call",
        "block",
        "{%@ call cq() %}in\n{{ v }}{% endcall %}",
        prelude="{% macro cq() %}<\n{{ caller() }}\n>{% endmacro %}",
    ),
    Cons("k_filter", "filter", "block", "{%@ filter upper %}f1\n\nf2{{ v }}\n{% endfilter %}"),
    Cons("k_block", "block", "block", "{%@ block blk %}b1\n b2\n{% endblock %}"),
    Cons("k_raw", "raw", "block", "{%@ raw %}r1\n{{ r2 }}\n{% endraw %}"),
    Cons("k_nested", "nested_marker", "block", "{%@ for i in l %}\n  {{* m }}\n{% endfor %}"),
    # values with HTML-special characters, Markup values and the escaping filters (both autoescape settings)
    Cons("x_h", "expr_html_string", "expr", "h"),
    Cons("x_mk", "expr_markup", "expr", "mk"),
    Cons("x_h_e", "expr_markup", "expr", "h|e"),
    Cons("x_h_escape", "expr_markup", "expr", "h|escape"),
    Cons("x_h_safe", "expr_markup", "expr", "h|safe"),
    Cons("x_h_force", "expr_markup", "expr", "h|forceescape"),
    Cons("x_mk_force", "expr_markup", "expr", "mk|forceescape"),
    Cons("x_hmacro", "expr_macro_call", "expr", "hq()", prelude="{% macro hq() %}{{ h }}\n<q>{{ mk }}{% endmacro %}"),
    Cons("k_for_h", "for", "block", "{%@ for i in [h, mk] %}<li>{{ i }}\n{{ i|e }}\n{% endfor %}"),
    Cons("k_include_h", "include", "block", "{%@ include 'inch' %}"),
    Cons("k_filter_e", "filter", "block", "{%@ filter e %}<f>\n{{ h }}{{ mk }}{% endfilter %}"),
]
HTML_CONSTRUCTS = (
    "x_h x_mk x_h_e x_h_escape x_h_safe x_h_force x_mk_force x_hmacro k_for_h k_include_h k_filter_e".split()
)
assert all(n in {c.name for c in CONSTRUCTS} for n in HTML_CONSTRUCTS)

WS = ["", "  ", "\t", "    ", " \t"]
LEADS = ["", "x", "x\n", "\n\n", "x ", "{{ n }}", "{% if 1 %}{% endif %}\n"]
TRAILS = ["", "\n", "y", "\ny\n", " z"]
ENCLOSURES: typing.List[typing.Tuple[str, str, str]] = [
    ("none", "", ""),
    ("in_if", "{% if true %}", "{% endif %}"),
    ("in_for", "{% for j in [1, 2] %}", "{% endfor %}"),
    ("in_macro", "{% macro mw() %}", "{% endmacro %}{{ mw() }}"),
    ("in_block", "{% block wb %}", "{% endblock %}"),
    ("in_setblk", "{% set sb %}", "{% endset %}[{{ sb }}]"),
    ("in_call", "{% macro cw() %}({{ caller() }}){% endmacro %}{% call cw() %}", "{% endcall %}"),
]
SCOPE_PROBES = [  # statistics only: the statement speaks about what the construct renders, not about scoping
    "  {%* set z = 1 %}[{{ z }}]",
    "  {%* macro q() %}x{% endmacro %}[{{ q() }}]",
    "  {%* import 'lib' as L %}[{{ L.k }}]",
    "  {%* extends 'base' %}",
    "{% for i in l %}a\n  {%* endfor %}|",
]

_TERM_CODE = {"": "0", "\n": "1", "\r\n": "2", "\r": "3"}
_CODE_TERM = {v: k for k, v in _TERM_CODE.items()}


def ref_prefix_lines(text: str, ws: str) -> typing.List[str]:
    """The reference (DESIGN's formula)."""
    return [ws + ln if ln else ln for ln in text.splitlines()]


def ref_prefix_text(text: str, ws: str) -> str:
    """The same with every line terminator kept."""
    out = []
    for raw in text.splitlines(True):
        body = raw.splitlines()[0]
        out.append((ws + body if body else body) + raw[len(body) :])
    return "".join(out)


def c19ref(value: typing.Any, ws: str) -> str:
    """Reference filter of the twin template: emits the expected lines in a sentinel-delimited, unambiguous encoding
    (\\x01 line \\x03 terminator-code \\x04 ... \\x02), so that the comparison can leave the terminators free."""
    text = str(value)  # plain str, also for a Markup object
    out = []
    for raw in text.splitlines(True):
        body = raw.splitlines()[0]
        term = raw[len(body) :]
        out.append((ws + body if body else body) + "\x03" + _TERM_CODE.get(term, "1") + "\x04")
    res = "\x01" + "".join(out) + "\x02"
    # what is markup stays markup (not escaped again on output), what is text stays text (escaped on output under
    # autoescape exactly like the plain construct's value); the sentinels are not touched by HTML escaping
    return type(value)(res) if hasattr(value, "__html__") else res


def strip1(text: str) -> str:
    """`text` without its final line terminator (at most one is removed)."""
    keep = text.splitlines(True)
    if not keep:
        return text
    body = keep[-1].splitlines()[0]
    return text[: len(text) - (len(keep[-1]) - len(body))]


def exact_lines(text: str) -> typing.List[str]:
    """Line contents with an extra '' when the text is empty or its last line is terminated ('a\\n' -> ['a', ''])."""
    out = text.splitlines()
    if strip1(text) != text or not text:
        out.append("")
    return out


def accepts(got: str, expected: str) -> bool:
    """Oracle 2 acceptance. `expected` = the plain construct's rendering with every non-empty line prefixed and all
    terminators kept.  Accepted: DESIGN's formula (got.splitlines() == expected.splitlines(); the kind of terminators
    and the presence of the last one are free), or `got` is `expected` with EXACTLY ONE trailing terminator missing
    (which is what turns 'a\\n\\n' into 'a\\n': the tolerated drop of the final terminator seen through splitlines()).
    Two missing terminators ('a\\n\\n' -> 'a') or a blank line lost anywhere else satisfy neither."""
    return got.splitlines() == expected.splitlines() or exact_lines(got) == exact_lines(strip1(expected))


def seg_candidates(seg: str) -> typing.Tuple[typing.List[str], typing.List[str], str]:
    """(expected lines, acceptable concrete texts, expected text with original terminators) of one twin segment."""
    lines, terms = [], []
    for item in seg.split("\x04")[:-1]:
        body, code = item.split("\x03")
        lines.append(body)
        terms.append(_CODE_TERM[code])
    expected = "".join(a + b for a, b in zip(lines, terms))
    cands = [expected, strip1(expected)]
    for sep in ("\n", "\r\n"):
        body = sep.join(lines)
        cands += [body, body + sep, strip1(body)]
    seen, out = set(), []
    for c in cands:
        if c not in seen and accepts(c, expected):
            seen.add(c)
            out.append(c)
    return lines, out, expected


def twin_match(marked: str, twin: str) -> bool:
    parts = re.split("[\x01\x02]", twin)
    if len(parts) % 2 != 1 or twin.count("\x01") != twin.count("\x02"):
        raise HarnessError(f"malformed twin rendering {twin!r}")
    outs, segs = parts[0::2], [seg_candidates(p)[1] for p in parts[1::2]]

    def rec(pos: int, i: int) -> bool:
        if not marked.startswith(outs[i], pos):
            return False
        pos += len(outs[i])
        if i == len(segs):
            return pos == len(marked)
        return any(marked.startswith(c, pos) and rec(pos + len(c), i + 1) for c in segs[i])

    return rec(0, 0)


_WS_TAIL = re.compile(r"\s*\Z")  # Python's own notion of white space (what '\s*' after '-%}' consumes)


def o2_sources(case: dict) -> typing.Dict[str, typing.Any]:
    cons = {c.name: c for c in CONSTRUCTS}[case["construct"]]
    enc = {e[0]: e for e in ENCLOSURES}[case["enclosure"]]
    before = case["lead"] + case["ws"]
    ws_eff = before[len(before.rstrip(" \t")) :]  # the maximal run of blanks/tabs in front of the marker
    if _WS_TAIL.sub("", before).endswith(("-%}", "-}}", "-#}")):
        ws_eff = ""  # the '-' control of the previous tag has consumed all white space up to the marker
    lead_eff = before[: len(before) - len(ws_eff)]
    if cons.kind == "expr":
        marked = "{{* " + cons.body + " " + cons.endctl + "}}"
        plain = "{{ " + cons.body + " " + cons.endctl + "}}"
        twin = "{{ (" + cons.body + ")|c19ref(c19ws) " + cons.endctl + "}}"
    else:
        marked = cons.body.replace("@", "*", 1)
        plain = cons.body.replace("@", "", 1)
        # whitespace control at the end of the construct's last tag must move to the end of the twin's last tag
        endctl = "-" if plain.endswith("-%}") else ""
        twin = "{% filter c19ref(c19ws) %}" + plain + "{% endfilter " + endctl + "%}"
    return {
        "ws_eff": ws_eff,
        "marked": cons.prelude + enc[1] + before + marked + case["trail"] + enc[2],
        "twin": cons.prelude + enc[1] + lead_eff + twin + case["trail"] + enc[2],
        "plain_alone": cons.prelude + plain,
        "known_raw_effect": cons.prelude + enc[1] + lead_eff + plain + case["trail"] + enc[2],
        "marked_alone": cons.prelude + case["ws"] + marked,
        "direct": case["enclosure"] == "none" and case["lead"] == "" and case["trail"] == "",
        "cons": cons,
    }


def _o2_env(flags: str, le: str, ae: bool = False) -> typing.Any:
    env = tw.get_env("bundled", flags, le, (), ae)
    env.filters.setdefault("c19ref", c19ref)
    return env


def o2_eval(case: dict, ctx_ids: typing.Sequence[int], st: typing.Optional[dict] = None) -> typing.List[typing.Tuple[dict, dict, str]]:
    """Evaluate one placement for the given contexts; returns [(sig, case, what)]."""
    s = o2_sources(case)
    cons: Cons = s["cons"]
    flags, le, ae = case["flags"], case["le"], bool(case.get("autoescape", False))
    env = _o2_env(flags, le, ae)
    fl = flags + (", autoescape" if ae else "")
    aesig: typing.Dict[str, typing.Any] = {"autoescape": True} if ae else {}
    ctxs = [dict(CTXS[i], c19ws=s["ws_eff"]) for i in ctx_ids]
    found = []
    st = st if st is not None else {}

    def bump(k: str, n: int = 1) -> None:
        st[k] = st.get(k, 0) + n

    def construct_class(ci: int, got: tw.Outcome, alone: bool) -> str:
        """Signature class of the construct. 'raw' (the recorded finding: `{%* raw %}` is accepted, its indentation is
        swallowed and nothing is prefixed) is only used when exactly that happened; anything else about raw blocks
        gets its own class."""
        if cons.feature != "raw":
            return cons.feature
        src = s["plain_alone"] if alone else s["known_raw_effect"]
        same = tw.render_env(env, tw.with_le(src, le), [dict(CTXS[ci], c19ws=s["ws_eff"])])[0]
        return "raw" if got[0] == "ok" and got == same else "raw_other_effect"

    marked = tw.render_env(env, tw.with_le(s["marked"], le), ctxs)
    twin = tw.render_env(env, tw.with_le(s["twin"], le), ctxs)
    for ci, m, t in zip(ctx_ids, marked, twin):
        bump("evals")
        c1 = {**case, "ctx": ci, "mode": "twin"}
        if t[0] == "err":
            bump("twin_reference_raises")
            continue
        if t[1].count("\x01") != t[1].count("\x02") or len(re.split("[\x01\x02]", t[1])) % 2 != 1:
            bump("twin_reference_malformed")  # nothing to compare with; the guards below see the missing comparisons
            continue
        bump("twin_reference_rendered")  # oracle side (vacuity guards)
        if ae and ("&lt;" in t[1] or "&amp;" in t[1] or "&#3" in t[1]):
            bump("autoescape_expected_text_has_escapes")
        if ae and ("<i>" in t[1] or "<u a" in t[1] or "<a href" in t[1] or "<c>" in t[1]):
            bump("autoescape_expected_text_has_unescaped_markup")
        segs = [seg_candidates(p)[0] for p in re.split("[\x01\x02]", t[1])[1::2]]
        if any(len(x) >= 2 for x in segs) and s["ws_eff"]:
            bump("nontrivial")
        if any("" in x for x in segs):
            bump("segments_with_blank_line")
        if any(x and x[-1] == "" for x in segs):
            bump("segments_ending_with_blank_line_tolerance_exercised")
        if m[0] == "err":
            found.append(
                (
                    {"oracle": "marker", "kind": "marked_construct_raises", "construct": construct_class(ci, m, False), **aesig},
                    c1,
                    f"{tw.with_le(s['marked'], le)!r} [{fl}, ctx {ci}] raises {m[1]} although the plain construct renders",
                )
            )
            continue
        bump("twin_compared")
        if not twin_match(m[1], t[1]):
            found.append(
                (
                    {"oracle": "marker", "kind": "lines_differ", "construct": construct_class(ci, m, False), **aesig},
                    c1,
                    f"{tw.with_le(s['marked'], le)!r} [{fl}, ctx {ci}] renders {m[1]!r}; expected (\\x01..\\x02 = "
                    f"prefixed lines of the plain construct, ws={s['ws_eff']!r}) {t[1]!r}",
                )
            )
        elif m[1] != _rebuild(t[1], keep=True):
            # the statement (as fixed by DESIGN) does not constrain line terminators: statistic only
            bump("marked_rendering_changes_or_drops_a_line_terminator")
    if s["direct"]:
        p = tw.render_env(env, tw.with_le(s["plain_alone"], le), ctxs)
        ma = tw.render_env(env, tw.with_le(s["marked_alone"], le), ctxs)
        for ci, pp, mm in zip(ctx_ids, p, ma):
            bump("evals")
            c2 = {**case, "ctx": ci, "mode": "direct"}
            if pp[0] == "err":
                bump("plain_construct_raises")
                continue
            bump("plain_construct_rendered")  # oracle side (vacuity guards)
            if mm[0] == "err":
                found.append(
                    (
                        {"oracle": "marker", "kind": "marked_construct_raises", "construct": construct_class(ci, mm, True), **aesig},
                        c2,
                        f"{tw.with_le(s['marked_alone'], le)!r} [{fl}, ctx {ci}] raises {mm[1]}; the plain construct "
                        f"renders {pp[1]!r}",
                    )
                )
                continue
            bump("direct_compared")
            want = ref_prefix_lines(pp[1], case["ws"])
            want_text = ref_prefix_text(pp[1], case["ws"])
            if mm[1].splitlines() != want and accepts(mm[1], want_text):
                bump("direct_only_modulo_one_trailing_terminator")  # e.g. rendering ending in a blank line: tolerated
            if not accepts(mm[1], want_text):
                found.append(
                    (
                        {"oracle": "marker", "kind": "lines_differ", "construct": construct_class(ci, mm, True), **aesig},
                        c2,
                        f"{tw.with_le(s['marked_alone'], le)!r} [{fl}, ctx {ci}] renders lines {mm[1].splitlines()!r}; "
                        f"plain construct renders {pp[1]!r}, so expected lines {want!r} (modulo one trailing terminator)",
                    )
                )
    return found


def _rebuild(twin: str, keep: bool) -> str:
    """The twin rendering with every segment written with its original terminators (keep) or LF-joined."""
    parts = re.split("[\x01\x02]", twin)
    out = []
    for k, p in enumerate(parts):
        if k % 2 == 0:
            out.append(p)
            continue
        lines, terms = [], []
        for item in p.split("\x04")[:-1]:
            body, code = item.split("\x03")
            lines.append(body)
            terms.append(_CODE_TERM[code])
        out.append("".join(a + b for a, b in zip(lines, terms)) if keep else "\n".join(lines))
    return "".join(out)


def o2_space() -> typing.Iterator[typing.Tuple[dict, bool, bool]]:
    """(placement, in the quick core with autoescape off?, in the quick core with autoescape on?)"""
    for cons in CONSTRUCTS:
        for enc in ENCLOSURES:
            for lead in LEADS:
                for trail in TRAILS:
                    for ws in WS:
                        core = (
                            enc[0] == "none"
                            and ws != "    "
                            and (trail == "\ny\n" or (trail == "" and lead in ("", "x\n")))
                        ) or (lead == "x\n" and trail == "\ny\n" and ws == "  ")
                        fixed = lead == "x\n" and trail == "\ny\n" and ws == "  "
                        if cons.name in HTML_CONSTRUCTS:
                            core_ae = fixed or (
                                enc[0] == "none" and lead in ("", "x\n") and trail in ("", "\ny\n") and ws in ("", "  ", "\t")
                            )
                        else:
                            core_ae = fixed and enc[0] in ("none", "in_macro")
                        yield {
                            "oracle": "marker",
                            "construct": cons.name,
                            "enclosure": enc[0],
                            "lead": lead,
                            "trail": trail,
                            "ws": ws,
                        }, core, core_ae


def o2_work(cases: typing.List[typing.Tuple[dict, typing.Tuple[bool, ...]]]) -> dict:
    bag = Bag()
    st: typing.Dict[str, int] = {}
    samples = []
    for base, aes in cases:
        for flags in tw.FLAGS:
            for le, ae in itertools.product(tw.LINE_ENDINGS, aes):
                case = {**base, "flags": flags, "le": le}
                if ae:
                    case["autoescape"] = True
                st["cases"] = st.get("cases", 0) + 1
                st["cases_autoescape"] = st.get("cases_autoescape", 0) + int(ae)
                for sig, c, what in o2_eval(case, range(len(CTXS)), st):
                    bag.add(sig, c, what)
        if len(samples) < 1 and base["enclosure"] == "in_for" and base["ws"] == "\t" and base["lead"] == "x\n":
            samples.append({**base, "template": o2_sources({**base})["marked"]})
    return {"bag": bag, "st": st, "samples": samples}


# ====================================================================================================== O2p predecessors
# The marker behind every kind of preceding tag, with and without that tag's '-' white space control, separated from it
# by nothing / newlines / blanks / white space that is not blank-or-tab (NBSP, U+3000, form feed), followed by the
# marker's own run of blanks.  Evaluated by o2_eval (twin oracle): the prefix is the run of blanks/tabs directly in
# front of the marker, or empty when the previous tag's '-' control has consumed the white space up to the marker.
PREDS: typing.List[typing.Tuple[str, str, str]] = [  # (name, lead with C where the control goes, closing text)
    ("text", "x", ""),
    ("if_open", "{% if true C%}", "{% endif %}"),
    ("else", "{% if false %}n{% else C%}", "{% endif %}"),
    ("for_open", "{% for j in [1] C%}", "{% endfor %}"),
    ("endif", "{% if b %}a{% endif C%}", ""),
    ("set", "{% set q = 1 C%}", ""),
    ("var", "{{ n C}}", ""),
    ("comment", "{# c C#}", ""),
    ("endraw", "{% raw %}r{% endraw C%}", ""),
    ("marked_var", "{{* n C}}", ""),
    ("filter_open", "{% filter upper C%}", "{% endfilter %}"),
    ("block_open", "{% block pb C%}", "{% endblock %}"),
]
PRED_GAPS = ["", "\n", " \n", "\n\n", "\u00a0", "\u3000\n", "\x0c", "\n\u00a0"]
PRED_WS = ["", "  ", "\t", " \t "]
PRED_CONS = ["x_m", "x_m_rctl", "k_for", "k_if_one", "k_include", "k_raw", "k_block"]
PRED_TRAILS = ["\ny\n", ""]
PRED_CORE_ENVS = [(f, "lf") for f in tw.FLAGS] + [("plain", "crlf")]


def op_space() -> typing.Iterator[typing.Tuple[dict, bool]]:
    """(placement, in the quick core?)"""
    for name, lead, close in PREDS:
        for ctl in ("", "-") if "C" in lead else ("",):
            for gap in PRED_GAPS:
                for ws in PRED_WS:
                    for cons in PRED_CONS:
                        for trail in PRED_TRAILS:
                            core = ws in ("", "  ") and cons in ("x_m", "k_include") and trail == "\ny\n"
                            yield {
                                "oracle": "marker",
                                "space": "predecessor",
                                "pred": name + ("-" if ctl else ""),
                                "construct": cons,
                                "enclosure": "none",
                                "lead": lead.replace("C", ctl) + gap,
                                "trail": trail + close,
                                "ws": ws,
                            }, core


def op_after(case: dict) -> typing.Tuple[str, bool]:
    """(signature class of the predecessor, has its '-' control consumed a non-empty run of blanks before the marker?)"""
    before = case["lead"] + case["ws"]
    eaten = o2_sources(case)["ws_eff"] != before[len(before.rstrip(" \t")) :]
    unicode_gap = any(ord(ch) > 0x7F for ch in case["lead"])
    return case["pred"].rstrip("-") + ("_with_ws_control" if eaten else "") + ("_unicode_space" if unicode_gap else ""), eaten


def op_work(cases: typing.List[typing.Tuple[dict, bool]]) -> dict:
    bag = Bag()
    st: typing.Dict[str, int] = {}
    samples: typing.List[dict] = []
    for base, core in cases:
        after, eaten = op_after(base)
        for flags, le in PRED_CORE_ENVS if core else itertools.product(tw.FLAGS, tw.LINE_ENDINGS):
            case = {**base, "flags": flags, "le": le}
            st["cases"] = st.get("cases", 0) + 1
            st["prefix_consumed_by_previous_tag"] = st.get("prefix_consumed_by_previous_tag", 0) + int(eaten)
            for sig, c, what in o2_eval(case, range(len(CTXS)), st):
                bag.add({**sig, "after": after}, c, what)
        if not samples and eaten and "\n" in base["lead"] and base["construct"] == "k_include":
            samples.append({**base, "template": o2_sources(base)["marked"]})
    return {"bag": bag, "st": st, "samples": samples}


# ====================================================================================================== O2i inheritance
# Template sets (parent / child / grandchild, included and imported templates) in which SEVERAL places carry the marker.
# A set is written with one token per marker occurrence; one occurrence at a time is the *focus*: the rendering with
# all markers must have the lines of the rendering in which the focus is replaced by the harness' own reference filter
# (`{% filter c19pfx(ws, keep) %}plain construct{% endfilter %}` resp. `{{ (e)|c19pfx(ws, keep) }}`; keep = with or
# without the final line terminator, both accepted).  The other occurrences stay real markers (they are part of "the
# plain construct" of the focus and are the focus of their own cases).
# A marked block tag at the top level of a CHILD template is not rendered where it is written; the statement can be read
# as (A) the block's own body is prefixed, (B) nothing is rendered there, so nothing is prefixed, (A') whatever fills
# the block's place in the parent's layout is prefixed.  All three readings are accepted, anything else is reported.
OI_WS = ("    ", "\t", "  ")
OI_KINDS = ("none", "ov", "sup", "inner", "msup", "ovn", "ovnsup")
OI_ENVS_CORE = [(f, "lf") for f in tw.FLAGS] + [("plain", "crlf")]


def _tok(i: int) -> str:
    return "\x10%d\x11" % i


def _name(n: str) -> str:
    return "\x13" + n + "\x14"


def _pfx(ws: str) -> str:
    return "c19pfx('" + ws + "', \x12)"


class _Set:
    def __init__(self) -> None:
        self.occ: typing.List[dict] = []
        self.templates: typing.List[typing.List[str]] = []  # [name, source], dependencies first

    def tag(self, head: str, body: str, tail: str, ws: str, marked: bool, kind: str, **kw: typing.Any) -> str:
        """A block-like construct `{% head %}body{% tail %}` (tail '' for a single tag such as include)."""
        plain = "{% " + head + " %}" + body + ("{% " + tail + " %}" if tail else "")
        o = dict(kind=kind, ws=ws, plain=plain, marked=(ws + "{%*" + plain[2:]) if marked else plain, focus=marked)
        o["ref"] = "{% filter " + _pfx(ws) + " %}" + plain + "{% endfilter %}"
        if head.startswith("block "):
            o["body_ref"] = "{% " + head + " %}{% filter " + _pfx(ws) + " %}" + body + "{% endfilter %}{% " + tail + " %}"
        o.update(kw)
        self.occ.append(o)
        return _tok(len(self.occ) - 1)

    def expr(self, e: str, ws: str, kind: str) -> str:
        o = dict(kind=kind, ws=ws, plain="{{ " + e + " }}", marked=ws + "{{* " + e + " }}", focus=True)
        o["ref"] = "{{ (" + e + ")|" + _pfx(ws) + " }}"
        self.occ.append(o)
        return _tok(len(self.occ) - 1)

    def case(self, label: str) -> dict:
        return {"oracle": "inherit", "label": label, "templates": self.templates, "occ": self.occ}


def oi_chain(root: typing.Tuple[str, bool, bool], levels: typing.Sequence[typing.Tuple[str, bool]]) -> dict:
    s = _Set()
    rbody, mark_body, mark_inner = root
    over = {n: any(k in ks for k, _ in levels) for n, ks in (("body", ("ov", "sup", "inner", "msup")), ("inner", ("ovn", "ovnsup")))}
    sfx = {n: "_overridden" if over[n] else "_not_overridden" for n in over}
    slot: typing.Dict[str, int] = {}
    body = "b1\n\nb2{{ v }}"
    if rbody == "nested":
        slot["inner"] = len(s.occ)
        body = "b1\n" + s.tag("block inner", "i1\n i2", "endblock", " \t", mark_inner, "nested_block_tag_in_parent" + sfx["inner"]) + "\nb2"
    slot["body"] = len(s.occ)
    s.templates.append(["t0", "head\n" + s.tag("block body", body, "endblock", OI_WS[0], mark_body, "block_tag_in_parent" + sfx["body"]) + "\ntail{{ v }}\n"])
    for k, (kind, mark) in enumerate(levels, 1):
        L, ws = "cg"[k - 1], OI_WS[k]
        src = "{% extends '" + _name("t%d" % (k - 1)) + "' %}"
        if kind != "none":
            name = "inner" if kind.startswith("ovn") else "body"
            ob = {
                "ov": f"{L}1\n\n{L}2{{{{ v }}}}",
                "sup": f"{L}1\n{{{{ super() }}}}\n{L}2",
                "ovn": f"{L}n1\n\n{L}n2",
                "ovnsup": f"{L}n1\n{{{{ super() }}}}",
            }.get(kind)
            if kind == "inner":
                ob = f"{L}1\n" + s.expr("m", "  ", "expr_in_override") + f"\n{L}2"
            elif kind == "msup":
                ob = f"{L}1\n" + s.expr("super()", " \t", "super_expr_in_override") + f"\n{L}2"
            src += "\n" + s.tag("block " + name, ob, "endblock", ws, mark, "block_tag_in_child_template", top_child=True, slot=slot[name]) + "\n"
        s.templates.append(["t%d" % k, src])
    label = "%s%s%s|" % (rbody, "*" if mark_body else "", "+inner*" if mark_inner else "") + "|".join(k + ("*" if m else "") for k, m in levels)
    return s.case(label)


def oi_extras() -> typing.Iterator[dict]:
    """Included / imported templates that carry markers, with and without a marker on the include / the macro call."""
    for outer in (False, True):
        s = _Set()
        inc = "i0\n" + s.expr("m", "  ", "expr_in_included_template") + "\n"
        inc += s.tag("if b", "q\nr{{ v }}", "endif", "\t", True, "block_in_included_template") + "\ni9\n"
        s.templates.append(["inc", inc])
        s.templates.append(["main", "x\n" + s.tag("include '" + _name("inc") + "'", "", "", "    ", outer, "include_of_marked_template") + "\ny\n"])
        yield s.case("include%s" % ("*" if outer else ""))
        s = _Set()
        lib = "{% macro f(a) %}f0\n" + s.expr("a", "  ", "expr_in_imported_macro") + "\n"
        lib += s.tag("for i in [1, 2]", "{{ i }}\n-", "endfor", "\t", True, "block_in_imported_macro") + "\nf9{% endmacro %}"
        s.templates.append(["lib", lib])
        call = s.expr("L.f(m)", "    ", "call_of_imported_marked_macro") if outer else "{{ L.f(m) }}"
        s.templates.append(["main", "{% import '" + _name("lib") + "' as L %}x\n" + call + "\ny\n"])
        yield s.case("import%s" % ("*" if outer else ""))
        # an included template that itself extends a parent with a marked block
        s = _Set()
        s.templates.append(["p", "head\n" + s.tag("block body", "b1\nb2", "endblock", "  ", True, "block_tag_in_parent_overridden") + "\ntail\n"])
        s.templates.append(["c", "{% extends '" + _name("p") + "' %}{% block body %}c1\n\nc2{% endblock %}"])
        s.templates.append(["main", "x\n" + s.tag("include '" + _name("c") + "'", "", "", "\t", outer, "include_of_inheriting_template") + "\ny\n"])
        yield s.case("include_child%s" % ("*" if outer else ""))
        # a marked block tag inside a for loop of the parent (scoped), overridden
        s = _Set()
        loop = s.tag("block body scoped", "b{{ i }}\nx", "endblock", "  ", True, "scoped_block_tag_in_parent_overridden")
        s.templates.append(["p", "{% for i in [1, 2] %}\n" + loop + "\n{% endfor %}"])
        s.templates.append(["c", "{% extends '" + _name("p") + "' %}{% block body %}c{{ i }}\n" + ("{{ super() }}\n" if outer else "") + "d{% endblock %}"])
        yield s.case("scoped%s" % ("+super" if outer else ""))


def oi_space() -> typing.Iterator[typing.Tuple[dict, bool]]:
    """(template set, in the quick core?)  Roots: flat body / body with a nested block, each tag marked or not;
    below: every kind of override x tag marked or not, depth <= 2."""
    roots = [("flat", mb, False) for mb in (False, True)] + [("nested", mb, mi) for mb in (False, True) for mi in (False, True)]
    for root in roots:
        lv = [("none", False)] + [(k, m) for k in OI_KINDS[1:] if root[0] == "nested" or not k.startswith("ovn") for m in (False, True)]
        yield oi_chain(root, []), True
        for a in lv:
            yield oi_chain(root, [a]), True
            for b in lv:
                yield oi_chain(root, [a, b]), a[0] == "none" and not b[0].startswith("ovn")
    for c in oi_extras():
        yield c, True


def c19pfx(value: typing.Any, ws: str, keep: bool) -> str:
    """Reference filter: every non-empty line prefixed, terminators kept; keep=False drops the final terminator."""
    out = ref_prefix_text(str(value), ws)
    return out if keep else strip1(out)


_TOK = re.compile("\x10(\\d+)\x11")
_NAME = re.compile("\x13(\\w+)\x14")


def oi_render(case: dict, forms: typing.Dict[int, str], flags: str, le: str, ctx: dict) -> tw.Outcome:
    """Render the last template of the set with the given forms for some occurrences (default: the real marker).
    Templates get content-addressed names, so that identical sources are compiled once per Environment."""
    env = _o2_env(flags, le)
    env.filters.setdefault("c19pfx", c19pfx)
    occ = case["occ"]
    names: typing.Dict[str, str] = {}
    final = ""
    for name, src in case["templates"]:
        while "\x10" in src:
            src = _TOK.sub(lambda m: forms.get(int(m.group(1)), occ[int(m.group(1))]["marked"]), src)
        src = tw.with_le(_NAME.sub(lambda m: names[m.group(1)], src), le)
        final = names[name] = "oi%08x_%d" % (_h(src), len(src))
        env.loader.mapping[final] = src
    tw.COUNT["renders"] += 1
    try:
        return ("ok", env.get_template(final).render(**ctx))
    except Exception as e:  # pylint: disable=broad-except
        return ("err", tw.family(e))


def oi_eval(case: dict, st: typing.Optional[dict] = None) -> typing.Optional[typing.Tuple[dict, str]]:
    """One (template set, focus, flags, line ending, context)."""
    st = st if st is not None else {}

    def bump(k: str) -> None:
        st[k] = st.get(k, 0) + 1

    occ, i, flags, le = case["occ"], case["focus"], case["flags"], case["le"]
    o = occ[i]
    ctx = {k: v for k, v in CTXS[case["ctx"]].items() if not isinstance(v, tw.MarkupSpec)}
    keeps = (("true", "keep"), ("false", "strip"))
    cands: typing.List[typing.Tuple[str, typing.Dict[int, str]]] = []
    if o.get("top_child"):
        j = o["slot"]
        cands += [("body_" + n, {i: o["body_ref"].replace("\x12", k)}) for k, n in keeps]
        cands += [("no_effect", {i: o["plain"]})]
        cands += [("slot_" + n, {i: o["plain"], j: "{% filter " + _pfx(o["ws"]).replace("\x12", k) + " %}" + occ[j]["marked"] + "{% endfilter %}"}) for k, n in keeps]
    else:
        cands += [("ref_" + n, {i: o["ref"].replace("\x12", k)}) for k, n in keeps]
    bump("evals")
    plain = oi_render(case, {i: o["plain"]}, flags, le, ctx)
    if plain[0] == "err":
        bump("plain_form_raises")
        return None
    bump("plain_form_rendered")
    want = [(n, oi_render(case, f, flags, le, ctx)) for n, f in cands]
    want = [(n, w[1]) for n, w in want if w[0] == "ok"]
    if not want:
        bump("no_reference_rendering")
        return None
    bump("reference_rendered")
    if any(w.splitlines() != plain[1].splitlines() for _n, w in want):
        bump("nontrivial")
    got = oi_render(case, {}, flags, le, ctx)
    sig = {"oracle": "inherit", "kind": "lines_differ", "construct": o["kind"]}
    tpls = {n: _TOK.sub(lambda m: occ[int(m.group(1))]["marked"], _TOK.sub(lambda m: occ[int(m.group(1))]["marked"], s)) for n, s in case["templates"]}
    tpls = {n: _NAME.sub(lambda m: m.group(1), s) for n, s in tpls.items()}
    if got[0] == "err":
        sig["kind"] = "marked_construct_raises"
        return sig, f"template set {tpls!r} [{flags}, {le}, ctx {case['ctx']}] raises {got[1]} although the set with {o['marked']!r} unmarked renders"
    for n, w in want:
        if got[1].splitlines() == w.splitlines():
            bump("accepted_as_" + n)
            return None
    return sig, (
        f"template set {tpls!r} [{flags}, {le}, ctx {case['ctx']}], last template rendered: {got[1]!r}; with the marker of "
        f"{o['marked']!r} replaced by the reference prefixing of the plain construct: " + " or ".join(f"{w!r} ({n})" for n, w in want)
    )


def oi_work(cases: typing.List[typing.Tuple[dict, bool]]) -> dict:
    bag = Bag()
    st: typing.Dict[str, int] = {}
    samples: typing.List[dict] = []
    for base, core in cases:
        st["template_sets"] = st.get("template_sets", 0) + 1
        for i, o in enumerate(base["occ"]):
            if not o["focus"]:
                continue
            for flags, le in OI_ENVS_CORE if core else itertools.product(tw.FLAGS, tw.LINE_ENDINGS):
                for ci in (0, 2):
                    case = {**base, "focus": i, "flags": flags, "le": le, "ctx": ci}
                    ev = oi_eval(case, st)
                    if ev is not None:
                        bag.add(ev[0], case, ev[1])
        if not samples and base["label"].count("*") >= 2 and "sup" in base["label"]:
            samples.append({"oracle": "inherit", "label": base["label"], "templates": base["templates"]})
    return {"bag": bag, "st": st, "samples": samples}


# ====================================================================================================== O3
ASSERT_VALUES: typing.List[typing.Tuple[str, typing.Any]] = [
    ("true", True),
    ("false", False),
    ("zero", 0),
    ("one", 1),
    ("empty_str", ""),
    ("str", "a"),
    ("str_zero", "0"),
    ("empty_list", []),
    ("list", [0]),
    ("none", None),
    ("empty_dict", {}),
    ("dict", {"k": 0}),
    ("float_zero", 0.0),
]
ASSERT_FORMS: typing.List[typing.Tuple[str, typing.Callable[[typing.Any], bool]]] = [
    ("x", bool),
    ("not x", lambda x: not x),
    ("x and one", lambda x: bool(x and 1)),
    ("x or false", lambda x: bool(x or False)),
    ("x == 1", lambda x: x == 1),
    ("x is defined", lambda x: True),
    ("(x, 1)", lambda x: True),
]
ASSERT_PLACEMENTS = [
    ("A{% assert E %}B", "AB"),
    ("A {%- assert E -%} B", "AB"),
    ("{% if true %}A{% assert E %}{% endif %}B", "AB"),
    ("{% for j in [1, 2] %}{{ j }}{% assert E %}{% endfor %}", "12"),
    ("{% assert E %}", ""),
]


_cg_envs: typing.Dict[typing.Tuple[bool, bool], typing.Any] = {}


def _codegen_env(trim: bool, lstrip: bool) -> typing.Any:
    if (trim, lstrip) not in _cg_envs:
        _cg_envs[(trim, lstrip)] = _codegen_env_new(trim, lstrip)
    return _cg_envs[(trim, lstrip)]


def _codegen_env_new(trim: bool, lstrip: bool) -> typing.Any:
    from nunavut.jinja.environment import CodeGenEnvironmentBuilder
    from nunavut.jinja.jinja2 import DictLoader
    from vf.gen import language_context

    b = CodeGenEnvironmentBuilder(DictLoader(dict(tw.LOADER_LF)), language_context("c"))
    return b.set_trim_blocks(trim).set_lstrip_blocks(lstrip).create()


def o3_assert_eval(case: dict) -> typing.Optional[typing.Tuple[dict, str]]:
    from nunavut.jinja.extensions import JinjaAssert

    value = dict(ASSERT_VALUES)[case["value"]]
    form, ref = [f for f in ASSERT_FORMS if f[0] == case["form"]][0]
    tpl, text = [p for p in ASSERT_PLACEMENTS if p[0] == case["placement"]][0]
    expr = form if not case["message"] else form + ", 'msg ' ~ one"
    src = tpl.replace("E", expr, 1)
    env = _codegen_env(False, False) if case["env"] == "codegen" else tw.get_env("bundled", "plain", "lf", (JinjaAssert,))
    got = tw.render_env(env, src, [{"x": value, "one": 1}])[0]
    holds = ref(value)
    if holds and got != ("ok", text):
        return (
            {"oracle": "assert", "kind": "true_assertion_not_transparent"},
            f"{src!r} with x={value!r} ({case['env']}): expected {text!r}, got {got!r}",
        )
    if not holds and got[0] != "err":
        return (
            {"oracle": "assert", "kind": "false_assertion_does_not_raise"},
            f"{src!r} with x={value!r} ({case['env']}): expected an exception, got {got!r}",
        )
    case["_family"] = got[1] if got[0] == "err" else "ok"
    return None


UQ_TEXT = "ABCDEFG"


def uq_chains() -> typing.Iterator[dict]:
    arms = [(neg, q) for neg in (False, True) for q in ("q1", "q2")]
    for first in arms:
        for n in (0, 1, 2):
            for elifs in itertools.product(arms, repeat=n):
                for has_else in (False, True):
                    for end in ("endifuses", "endifnuses"):
                        for style in ("plain", "wsctl", "in_for", "nested"):
                            yield {
                                "oracle": "usequery",
                                "arms": [list(first)] + [list(a) for a in elifs],
                                "else": has_else,
                                "end": end,
                                "style": style,
                            }


def uq_source(case: dict, ifs: bool) -> str:
    """ifs=False: the ifuses/ifnuses chain; ifs=True: the same chain written with {% if %} over context booleans."""
    o, c = ("{%- ", " -%}") if case["style"] == "wsctl" else ("{% ", " %}")
    pad = " \n " if case["style"] == "wsctl" else ""
    s = ""
    for k, (neg, q) in enumerate(case["arms"]):
        if ifs:
            kw = "if" if k == 0 else "elif"
            s += f"{o}{kw} {'not ' if neg else ''}{q}{c}"
        else:
            kw = ("ifnuses" if neg else "ifuses") if k == 0 else ("elifnuses" if neg else "elifuses")
            s += f'{o}{kw} "c19_{q}"{c}'
        body = UQ_TEXT[k]
        if case["style"] == "nested" and k == 0:
            body = (
                "{% if q2 %}N{% else %}M{% endif %}"
                if ifs
                else '{% ifuses "c19_q2" %}N{% else %}M{% endifuses %}'
            )
        s += pad + body + pad
    if case["else"]:
        s += f"{o}else{c}{pad}Z{pad}"
    s += f"{o}{'endif' if ifs else case['end']}{c}"
    if case["style"] == "in_for":
        s = "{% for j in [1, 2] %}<" + s + ">{% endfor %}"
    return "[" + s + "]"


def uq_reference(case: dict, truth: typing.Dict[str, bool]) -> str:
    out = ""
    for k, (neg, q) in enumerate(case["arms"]):
        if truth[q] != neg:
            out = UQ_TEXT[k]
            if case["style"] == "nested" and k == 0:
                out = "N" if truth["q2"] else "M"
            break
    else:
        out = "Z" if case["else"] else ""
    if case["style"] == "in_for":
        return "[<" + out + "><" + out + ">]"
    return "[" + out + "]"


_uq_state: typing.Dict[str, typing.Any] = {}


def uq_eval(case: dict, truths: typing.Sequence[typing.Tuple[bool, bool]], st: dict) -> typing.List[typing.Tuple[dict, dict, str]]:
    if "env" not in _uq_state:
        env = _codegen_env(False, False)
        truth: typing.Dict[str, bool] = {"q1": False, "q2": False}
        calls: typing.Dict[str, int] = {"n": 0}

        def mk(q: str) -> typing.Callable[[], bool]:
            def query() -> bool:
                calls["n"] += 1
                return truth[q]

            return query

        ns = env.target_language_uses_queries
        setattr(ns, "c19_q1", mk("q1"))
        setattr(ns, "c19_q2", mk("q2"))
        _uq_state.update(env=env, truth=truth, calls=calls, stock=tw.get_env("stock", "plain", "lf"))
    env, truth = _uq_state["env"], _uq_state["truth"]
    src, src_if = uq_source(case, False), uq_source(case, True)
    found = []
    try:
        t = env.from_string(src)
    except Exception as e:  # pylint: disable=broad-except
        sig = {"oracle": "usequery", "kind": "chain_does_not_compile", "arms": len(case["arms"]), "else": case["else"]}
        return [(sig, {**case, "truth": list(truths[0])}, f"{src!r} does not compile: {tw.family(e)}")]
    t_if = _uq_state["stock"].from_string(src_if)
    tw.COUNT["compiles"] += 2
    for q1, q2 in truths:
        truth.update(q1=q1, q2=q2)
        tw.COUNT["renders"] += 2
        st["evals"] = st.get("evals", 0) + 1
        want = uq_reference(case, truth)
        want_if = t_if.render(q1=q1, q2=q2)
        if want != want_if:
            raise HarnessError(f"usequery reference disagrees with stock {{% if %}}: {src_if!r} {want!r} {want_if!r}")
        try:
            got: tw.Outcome = ("ok", t.render())
        except Exception as e:  # pylint: disable=broad-except
            got = ("err", tw.family(e))
        st.setdefault("outcomes", set()).add(want)
        if got != ("ok", want):
            first_neg = case["arms"][0][0]
            sig = {
                "oracle": "usequery",
                "kind": "chain_differs_from_if_chain",
                "first": "ifnuses" if first_neg else "ifuses",
                "elif_arms": len(case["arms"]) - 1,
                "else": case["else"],
            }
            found.append(
                (
                    sig,
                    {**case, "truth": [q1, q2]},
                    f"{src!r} with q1={q1}, q2={q2} renders {got!r}; the {{% if %}} chain {src_if!r} renders {want!r}",
                )
            )
    return found


def o3_work(_: typing.Any) -> dict:
    bag = Bag()
    st: typing.Dict[str, typing.Any] = {"assert_evals": 0, "assert_raised": 0, "assert_passed": 0}
    fams: typing.Dict[str, int] = {}
    for env in ("codegen", "bundled_plain"):
        for vname, _v in ASSERT_VALUES:
            for form, _r in ASSERT_FORMS:
                for message in (False, True):
                    for tpl, _t in ASSERT_PLACEMENTS:
                        case = {
                            "oracle": "assert",
                            "env": env,
                            "value": vname,
                            "form": form,
                            "message": message,
                            "placement": tpl,
                        }
                        st["assert_evals"] += 1
                        expect = "assert_expected_to_pass" if _r(_v) else "assert_expected_to_raise"
                        st[expect] = st.get(expect, 0) + 1  # oracle side (vacuity guards)
                        ev = o3_assert_eval(case)
                        fam = case.pop("_family", None)
                        if ev is not None:
                            bag.add(ev[0], case, ev[1])
                        elif fam == "ok":
                            st["assert_passed"] += 1
                        else:
                            st["assert_raised"] += 1
                            fams[str(fam)] = fams.get(str(fam), 0) + 1
    st["assert_exception_families"] = fams
    uq: typing.Dict[str, typing.Any] = {}
    truths = [(a, b) for a in (False, True) for b in (False, True)]
    nchains = 0
    for case in uq_chains():
        nchains += 1
        for sig, c, what in uq_eval(case, truths, uq):
            bag.add(sig, c, what)
    # an unknown query: recorded, not judged (the statement is silent)
    env = _uq_state["env"]
    st["unknown_query_outcome"] = tw.render_env(env, '{% ifuses "c19_nope" %}A{% endifuses %}', [{}])[0]
    st["usequery_chains"] = nchains
    st["usequery_evals"] = uq.get("evals", 0)
    st["usequery_distinct_outputs"] = len(uq.get("outcomes", ()))
    st["usequery_query_calls"] = _uq_state["calls"]["n"]
    return {"bag": bag, "st": st}


# ====================================================================================================== exclusions
def verify_exclusions() -> typing.Tuple[typing.List[dict], Bag]:
    """Every exclusion must be upstream drift: the difference persists with Nunavut's lexer alternatives removed."""
    bag = Bag()
    out = []
    for ex in EXCLUDED:
        rec = {k: v for k, v in ex.items()}
        checks = []
        for src, flags in ex["witnesses"]:
            b = tw.render("bundled", flags, "lf", src, CTXS[:1])[0]
            s = tw.render("stock", flags, "lf", src, CTXS[:1])[0]
            p = tw.render("pristine", flags, "lf", src, CTXS[:1])[0]
            differs = o1_compare(b, s) is not None
            upstream = differs and p == b
            checks.append({"template": src, "flags": flags, "bundled": b, "stock": s, "pristine": p})
            if differs and not upstream:
                bag.add(
                    {"oracle": "plain", "kind": "excluded_construct_is_caused_by_nunavut_edit", "feature": ex["construct"]},
                    {"oracle": "plain", "template": src, "names": [], "flags": flags, "le": "lf", "ctx": 0},
                    f"excluded construct {src!r} [{flags}]: bundled {b!r}, stock {s!r}, but without Nunavut's lexer "
                    f"alternatives {p!r} - the difference is Nunavut's, not upstream drift",
                )
        rec["witness_results"] = checks
        rec["still_differs"] = all(o1_compare(c["bundled"], c["stock"]) is not None for c in checks)
        rec["verified_upstream_drift_this_run"] = all(
            o1_compare(c["bundled"], c["stock"]) is not None and c["pristine"] == c["bundled"] for c in checks
        )
        out.append(rec)
    return out, bag


# ====================================================================================================== driver
def _work(job: typing.Tuple[str, typing.Any]) -> dict:
    kind, payload = job
    before = dict(tw.COUNT)
    fn = {"o1": o1_work, "of": of_work, "o2": o2_work, "o3": o3_work, "lx": lx.work, "hs": lx.history_work, "op": op_work, "oi": oi_work}
    r = fn[kind](payload)
    return {"kind": kind, "count": {k: tw.COUNT[k] - before[k] for k in before}, **r}


def eval_case(case: dict) -> typing.Optional[typing.Tuple[dict, str]]:
    """Re-evaluates one recorded case from scratch (replay, and confirmation of every violation before reporting)."""
    o = case.get("oracle")
    if o == "plain":
        return o1_eval_case(case)
    if o == "lexer":
        return lx.eval_case(case)
    if o == "filter":
        return of_eval_case(case)
    if o == "marker":
        for sig, c, what in o2_eval(case, [case["ctx"]]):
            if c.get("mode") == case.get("mode"):
                return ({**sig, "after": op_after(case)[0]} if case.get("space") == "predecessor" else sig), what
        return None
    if o == "inherit":
        return oi_eval(case)
    if o == "assert":
        return o3_assert_eval(dict(case))
    if o == "usequery":
        r = uq_eval(case, [tuple(case["truth"])], {})  # type: ignore
        return (r[0][0], r[0][2]) if r else None
    raise HarnessError(f"unknown oracle in case: {case}")


def run(ctx: Ctx) -> int:
    # -------- enumerate
    seen: typing.Set[str] = set()
    o1: typing.List[typing.Tuple[Tpl, typing.Tuple[bool, ...]]] = []
    o1_total = o1_dups = o1a_total = o1a_n = 0
    for sub, space in (("O1:", o1_space()), ("O1a:", o1a_space())):
        for t, core in space:
            if sub == "O1:":
                o1_total += 1
            else:
                o1a_total += 1
            # quick: fixed core + a seed-selected 1/32 slice of the rest (1/16 for the small autoescape sub-space)
            if not (core or ctx.in_slice(sub + t.name, 32 if sub == "O1:" else 16)):
                continue
            src = sub + t.src + "\x00" + ",".join(t.flags)
            if src in seen:
                o1_dups += 1
                continue
            seen.add(src)
            o1.append((t, (False,) if sub == "O1:" else (False, True)))
            o1a_n += int(sub == "O1a:")
    o2: typing.List[typing.Tuple[dict, typing.Tuple[bool, ...]]] = []
    o2_total = o2_ae_n = 0
    for case, core, core_ae in o2_space():
        o2_total += 1
        cid = "O2:" + repr(sorted(case.items()))
        off = core or ctx.in_slice(cid, 32)
        on = core_ae or ctx.in_slice(cid + ":autoescape", 16 if ctx.thorough else 64)
        if off or on:
            o2.append((case, tuple(a for a, use in ((False, off), (True, on)) if use)))
            o2_ae_n += int(on)
    lxc: typing.List[dict] = []
    lx_total = 0
    for space in (lx.line_space(), lx.raw_space()):
        for case, core in space:
            lx_total += 1
            if core or ctx.in_slice("LX:" + repr(sorted(case.items(), key=str)), 64):
                lxc.append(case)
    # histories [events ; ordinary template]: chains with one event in the core, the other option sets / line ending /
    # sharing mode in a 1/16 slice, chains with two events in a 1/128 slice
    hsc: typing.List[dict] = []
    hs_total = 0
    for chain, core in lx.history_space():
        hs_total += 1
        cid = "HS:" + repr(sorted(chain.items(), key=str))
        if core or ctx.in_slice(cid, 16 if len(chain["events"]) == 1 else 128):
            hsc.append(chain)
    ofc = list(of_space())  # filter arguments: small, always complete
    # marker behind every kind of preceding tag: fixed core + 1/64 slice; inheritance / include / import sets: core + 1/32
    opc: typing.List[typing.Tuple[dict, bool]] = []
    op_total = 0
    for case, core in op_space():
        op_total += 1
        if core or ctx.in_slice("OP:" + repr(sorted(case.items())), 64):
            opc.append((case, core and not ctx.thorough))
    oic: typing.List[typing.Tuple[dict, bool]] = []
    oi_total = 0
    for case, core in oi_space():
        oi_total += 1
        if core or ctx.in_slice("OI:" + case["label"], 32):
            oic.append((case, core and not ctx.thorough))
    jobs: typing.List[typing.Tuple[str, typing.Any]] = [("o3", None)]
    jobs += [("oi", oic[i : i + 12]) for i in range(0, len(oic), 12)]
    jobs += [("op", opc[i : i + 60]) for i in range(0, len(opc), 60)]
    jobs += [("hs", hsc[i : i + 24]) for i in range(0, len(hsc), 24)]
    jobs += [("of", ofc[i : i + 300]) for i in range(0, len(ofc), 300)]
    jobs += [("lx", lxc[i : i + 400]) for i in range(0, len(lxc), 400)]
    jobs += [("o2", o2[i : i + 60]) for i in range(0, len(o2), 60)]
    jobs += [("o1", o1[i : i + 250]) for i in range(0, len(o1), 250)]
    results = ctx.pool_map(_work, jobs)

    # -------- merge
    tot = {"cases": 0, "cases_autoescape": 0, "evals": 0, "nontrivial": 0, "both_ok": 0, "both_raise": 0}
    tot.update(family_mismatch=0, escaping_observable=0, stock_rendered=0, stock_raised=0)
    count = {"compiles": 0, "renders": 0}
    outcomes: typing.Set[int] = set()
    o2st: typing.Dict[str, int] = {}
    o3st: typing.Dict[str, typing.Any] = {}
    opst: typing.Dict[str, int] = {}
    oist: typing.Dict[str, int] = {}
    lxst: typing.Dict[str, int] = {}
    hsst: typing.Dict[str, int] = {}
    ofst: typing.Dict[str, int] = {}
    ledger: typing.Set[typing.Tuple[str, str]] = set()
    for r in results:
        ctx.bag.merge(r["bag"])
        for k in count:
            count[k] += r["count"][k]
        if r["kind"] == "o1":
            for k in tot:
                tot[k] += r[k]
            outcomes |= r["outcomes"]
            for s in r["samples"]:
                if sum(1 for x in ctx.samples if x.get("oracle") == "plain") < 2:
                    ctx.samples.append(s)
        elif r["kind"] == "lx":
            for k, v in r["st"].items():
                lxst[k] = lxst.get(k, 0) + v
            ledger |= r["ledger"]
            for s in r["samples"]:
                if not any(x.get("oracle") == "lexer" for x in ctx.samples):
                    ctx.samples.append(s)
        elif r["kind"] == "hs":
            for k, v in r["st"].items():
                hsst[k] = hsst.get(k, 0) + v
            for s in r["samples"]:
                if not any(x.get("space") == "history" for x in ctx.samples):
                    ctx.samples.append(s)
        elif r["kind"] == "of":
            for k, v in r["st"].items():
                ofst[k] = ofst.get(k, 0) + v
            outcomes |= r["outcomes"]
            for s in r["samples"]:
                if not any(x.get("oracle") == "filter" for x in ctx.samples):
                    ctx.samples.append(s)
        elif r["kind"] in ("op", "oi"):
            dst = opst if r["kind"] == "op" else oist
            for k, v in r["st"].items():
                dst[k] = dst.get(k, 0) + v
            for s in r["samples"]:
                if not any(x.get("oracle") == s["oracle"] and x.get("space") == s.get("space") for x in ctx.samples):
                    ctx.samples.append(s)
        elif r["kind"] == "o2":
            for k, v in r["st"].items():
                o2st[k] = o2st.get(k, 0) + v
            for s in r["samples"]:
                have = [x["construct"] for x in ctx.samples if x.get("oracle") == "marker"]
                if len(have) < 2 and s["construct"] not in have:
                    ctx.samples.append(s)
        else:
            o3st = r["st"]
    hsst.update(lx.history_oracle_stats())
    excluded, exbag = verify_exclusions()
    ctx.bag.merge(exbag)
    ctx.samples.append({"oracle": "assert", "template": "A {%- assert x and one, 'msg ' ~ one -%} B", "x": [0]})
    ctx.samples.append(
        {
            "oracle": "usequery",
            "template": uq_source(
                {"arms": [[True, "q1"], [False, "q2"]], "else": True, "end": "endifnuses", "style": "wsctl"}, False
            ),
            "truth": [True, False],
        }
    )
    scope = {p: tw.render("bundled", "plain", "lf", p, CTXS[:1])[0] for p in SCOPE_PROBES}

    # -------- confirm every violation from its recorded case (DESIGN section 1: determinism)
    for v in ctx.bag.v.values():
        ev = eval_case(dict(v.case))
        if ev is None or (ev[0] != v.sig and "<not minimised" not in str(v.sig.get("feature"))):
            raise HarnessError(f"violation did not reproduce from its recorded case: {v.sig} {v.case} -> {ev}")

    # -------- vacuity guards: computed from the ORACLE side only (stock engine, plain construct, reference filter,
    # Python reference), never from the output under test; and a guard never hides a violation: when there is one
    # that is not a listed finding the run reports it (exit 1) and the failed guards are only recorded.
    need = {
        "o1 templates stock rendered": tot["stock_rendered"],
        "o1 templates stock rejected": tot["stock_raised"],
        "o2 twin references rendered": o2st.get("twin_reference_rendered", 0),
        "o2 plain constructs rendered (direct formula)": o2st.get("plain_construct_rendered", 0),
        "o2 expected multi-line renderings with non-empty indentation": o2st.get("nontrivial", 0),
        "o2 expected renderings containing a blank line": o2st.get("segments_with_blank_line", 0),
        "o1 autoescape: stock results with escaped text": tot["escaping_observable"],
        "o2 autoescape: expected texts with escapes": o2st.get("autoescape_expected_text_has_escapes", 0),
        "o2 autoescape: expected texts with unescaped markup": o2st.get("autoescape_expected_text_has_unescaped_markup", 0),
        "lexer spaces: templates stock rendered": lxst.get("stock_rendered", 0),
        "lexer spaces: templates stock rejected": lxst.get("stock_raised", 0),
        "lexer spaces: stock token streams": lxst.get("stock_token_streams", 0),
        "lexer spaces: every root alternative taken by stock's lexer under every whitespace combination": int(
            all((lx.ws_name(ws), a) in ledger for ws in lx.WS8 for a in tw.ROOT_ALTERNATIVES)
        ),
        "filter arguments: templates stock rendered": ofst.get("stock_rendered", 0),
        "filter arguments: templates stock rejected": ofst.get("stock_raised", 0),
        "filter arguments: stock indents an empty first line with first=true": ofst.get("expected_first_line_indented_although_empty", 0),
        "filter arguments: stock indents blank lines with blank=true": ofst.get("expected_blank_line_indented", 0),
        "filter arguments: stock keeps Markup under autoescape": ofst.get("expected_markup_kept", 0),
        "histories: ordinary templates stock rendered": hsst.get("hist_stock_rendered", 0),
        "histories: ordinary templates where a tag did something": hsst.get("hist_nontrivial", 0),
        "histories: event templates stock refuses with the markers removed": hsst.get("hist_event_templates_stock_refuses_demarked", 0),
        "histories: event templates stock renders with the markers removed": hsst.get("hist_event_templates_stock_renders_demarked", 0),
        "marker behind a preceding tag: twin references rendered": opst.get("twin_reference_rendered", 0),
        "marker behind a preceding tag: placements where the tag's '-' control consumes the blanks": opst.get("prefix_consumed_by_previous_tag", 0),
        "marker behind a preceding tag: expected multi-line renderings with non-empty indentation": opst.get("nontrivial", 0),
        "inheritance/include/import sets: reference renderings": oist.get("reference_rendered", 0),
        "inheritance/include/import sets: reference renderings that differ from the unmarked set": oist.get("nontrivial", 0),
        "o3 assertions expected to raise": o3st.get("assert_expected_to_raise", 0),
        "o3 assertions expected to pass": o3st.get("assert_expected_to_pass", 0),
        "o3 usequery distinct reference outputs (>=6)": int(o3st.get("usequery_distinct_outputs", 0) >= 6),
    }
    failed = [f"{k} = {v}" for k, v in need.items() if not v]
    removed = tw.pristine_info.get("alternatives_removed", 0)
    lexer_src = (tw.REPO / "src/nunavut/jinja/jinja2/lexer.py").read_text(encoding="utf-8")
    if "*%s\\*" in lexer_src and not removed:  # the marker alternatives exist in the source but the surgery found none
        failed.append("pristine engine not derived: no marker alternative found in the compiled root regex")
    findings = load_known_findings(ctx.pid)
    unlisted = [v for v in ctx.bag.v.values() if match_finding(findings, v) is None]
    if failed and not unlisted:
        raise HarnessError("vacuous exploration: " + "; ".join(failed))
    if failed:
        ctx.stats["vacuity_guards_failed_but_violations_reported"] = failed

    evals = tot["evals"] + lxst.get("evals", 0) + o2st.get("evals", 0) + o3st.get("assert_evals", 0) + o3st.get("usequery_evals", 0)
    evals += ofst.get("evals", 0) + hsst.get("hist_histories", 0) + opst.get("evals", 0) + oist.get("evals", 0)
    nontrivial = tot["nontrivial"] + lxst.get("nontrivial", 0) + o2st.get("nontrivial", 0) + o3st.get("assert_expected_to_raise", 0)
    nontrivial += ofst.get("nontrivial", 0) + hsst.get("hist_nontrivial", 0) + opst.get("nontrivial", 0) + oist.get("nontrivial", 0)
    ctx.stats.update(
        template_compilations=count["compiles"],
        renders=count["renders"],
        o1_templates=len(o1),
        o1_space=o1_total,
        o1_autoescape_subspace_templates=o1a_n,
        o1_autoescape_subspace=o1a_total,
        o1_cases_with_autoescape_on=tot["cases_autoescape"],
        o1_autoescape_results_with_escaped_text=tot["escaping_observable"],
        o2_placements_with_autoescape_on=o2_ae_n,
        html_fragments=len(HTML_FRAGMENTS),
        o1_duplicate_sources_skipped=o1_dups,
        o1_template_x_env_cases=tot["cases"],
        o1_both_rendered=tot["both_ok"],
        o1_both_raised=tot["both_raise"],
        o1_both_raised_different_family=tot["family_mismatch"],
        lexer_space_cases=len(lxc),
        lexer_space=lx_total,
        lexer=lxst,
        history_chains=len(hsc),
        history_chain_space=hs_total,
        histories=hsst,
        filter_argument_templates=len(ofc),
        filter_arguments=ofst,
        lexer_root_alternatives_x_whitespace_combinations_seen_in_stock=len(ledger),
        o2_placements=len(o2),
        o2_space=o2_total,
        o2=o2st,
        o2_predecessor_placements=len(opc),
        o2_predecessor_space=op_total,
        o2_predecessor=opst,
        o2_inheritance_sets=len(oic),
        o2_inheritance_space=oi_total,
        o2_inheritance=oist,
        o3=o3st,
        marker_scope_probes_statistic_only=scope,
        pristine_alternatives_removed=removed,
        fragments=len(FRAGMENTS),
        wrappers=len(WRAPPERS),
    )
    cov = {
        "evaluations": evals,
        "distinct_nontrivial": nontrivial,
        "distinct_outcomes": len(outcomes),
        "rule": "one evaluation = one (template, Environment flags, line ending, context) compared under its oracle; "
        "templates are enumerated structurally and de-duplicated by source text, so evaluations are distinct. "
        "Non-trivial = O1 (also filter arguments, histories): stock rendered the template and the text differs from "
        "the template source resp. the filtered value (some tag / the filter did something); O2: the plain construct rendered >=2 lines and the indentation in front of the marker is not "
        "empty (prefixing is observable beyond the first line); O3: assertions the reference expects to raise.",
        "bound_completed": f"O1: {len(o1) - o1a_n} of {o1_total} templates (all sequences of <=3 of {len(FRAGMENTS)} "
        f"fragments, <=2 fragments in each of {len(WRAPPERS)} wrappers, 1 fragment in each ordered wrapper pair) x "
        f"{len(tw.FLAGS)} flag sets x LF/CRLF x {len(CTXS)} contexts, plus the autoescape sub-space {o1a_n} of {o1a_total} "
        f"templates over {len(HTML_FRAGMENTS)} HTML/Markup fragments x autoescape off/on x the same environments; "
        f"lexer sub-spaces (line statements/comments x 9 prefix configurations, raw sections; all 8 trim/lstrip/"
        f"keep_trailing_newline combinations; rendering and token stream): {len(lxc)} of {lx_total} cases; "
        f"filter arguments: {len(ofc)} templates (all {len(indent_calls())} indent calls = {len(INDENT_WIDTHS)} widths x "
        f"first x blank each absent/false/true, keyword and positional form, x {len(FILTER_CARRIERS)} carriers, and "
        f"{sum(len(a) for _, a in OTHER_FILTERS)} calls of {len(OTHER_FILTERS)} neighbouring filters x 3 carriers, x autoescape "
        f"off/on) x {len(FILTER_VALUES)} values, complete in both tiers; histories [<=2 of {len(lx.HIST_EVENTS)} events "
        f"(refused by lexer / parser, failing at render time, rendered, abandoned token streams; with and without the "
        f"marker) ; each of {len(lx.HIST_ORDINARY)} ordinary templates] x {len(tw.FLAGS)} flag sets x LF/CRLF x "
        f"{len(lx.HIST_MODES)} Environment sharing modes, each in a forked child: {len(hsc)} of {hs_total} chains "
        f"({hsst.get('hist_histories', 0)} histories); "
        f"O2: {len(o2)} of {o2_total} placements ({len(CONSTRUCTS)} "
        f"constructs x {len(ENCLOSURES)} enclosures x {len(LEADS)} leads x {len(TRAILS)} trails x {len(WS)} indentations)"
        f" x flags x line endings x contexts, {o2_ae_n} of them also with autoescape on; marker behind a preceding tag: "
        f"{len(opc)} of {op_total} placements ({len(PREDS)} kinds of preceding tag/text with and without '-' control x "
        f"{len(PRED_GAPS)} gaps (none, newlines, blanks, NBSP, U+3000, form feed) x {len(PRED_WS)} indentations x "
        f"{len(PRED_CONS)} constructs x {len(PRED_TRAILS)} trails; quick core: all flag sets with LF + plain/CRLF, the rest "
        f"all flag sets x LF/CRLF) x contexts; inheritance: {len(oic)} of {oi_total} template sets (6 parents = flat / nested "
        f"block, each tag marked or not; children and grandchildren: no override / override / with super() / marked expression "
        f"/ marked super() / override of the nested block (with super()), each tag marked or not; plus include / import / "
        f"include of an inheriting template / scoped block sets), every marker occurrence as the focus x flags x line "
        f"endings x 2 contexts ({oist.get('evals', 0)} evaluations); O3: {o3st.get('assert_evals')} assertions, "
        f"{o3st.get('usequery_chains')} use-query chains x 4 truth assignments",
        "exhaustive": bool(ctx.thorough),
        "excluded_constructs": excluded,
    }
    return ctx.finish(
        "exploration",
        cov,
        [
            "stock Jinja2 3.1.x of /venv is the reference for ordinary templates (O1) and for {% if %} chains (O3)",
            "common language = the grammar of this file; constructs with upstream drift are listed in "
            "coverage.excluded_constructs and re-verified on every run with the de-modified ('pristine') bundled lexer",
            "O2 trusts the bundled engine's own {% filter %} block / filter call machinery (itself compared with stock "
            "in O1) to place the harness' reference filter; the final line terminator of an auto-indented construct "
            "and the kind of line terminators are not constrained (DESIGN compares splitlines(); exactly one missing "
            "trailing terminator is tolerated, nothing more)",
            "exceptions are compared as raised/not raised; the exception family is recorded only",
            "histories: every chain of histories runs in a child forked from a pool worker (which has compiled other "
            "templates before); the verdict compares with stock's rendering only, and every reported history is confirmed "
            "from its recorded case in a freshly started interpreter",
            "scoping side effects of the marker (set/macro/import inside the implicit filter block do not leak) are "
            "recorded as a statistic: the statement speaks about what the construct renders",
        ],
        min_outcomes=("distinct_outcomes", 200),
    )


def replay(ctx: Ctx, case: dict) -> int:
    ev = eval_case(dict(case))
    if ev is None:
        print(f"case holds: {case}")
        return 0
    print(f"violation sig={ev[0]}\n  {ev[1]}")
    return 1
