"""
C02 - generated deserializers decode every byte string as the specification prescribes (exploration; E2+E3+E4).
Per type: every valid encoding of the C01 values, every truncation, trailing garbage, every single-bit flip (<=16 bytes),
all strings of length <=2 for tiny types, all-ones / alternating / zero strings of every length 0..max+2; every target
and option set; destination objects poisoned with 0xAA / 0x55 before the call.
"""
from __future__ import annotations

import os
import typing

import pydsdl

from vf.codec import engine as E
from vf.codec import flat, ref, space
from vf.core import Bag, Ctx, HarnessError

REPR_ERRORS = (-10, -11, -12)


def configs(ctx: Ctx) -> typing.List[E.Config]:
    if ctx.thorough:
        return [E.C_ANY, E.C_LITTLE, E.C_BIG, E.C_ANY_ASSERT, E.C_LITTLE_ASSERT, E.C_LITTLE_OVERRIDE, E.CPP14, E.CPP17, E.CPP20, E.CPP14_LITTLE, E.CPP17_LITTLE_ASSERT, E.CPP17_PMR, E.PY]
    return [E.C_ANY, E.C_LITTLE_ASSERT, E.C_LITTLE_OVERRIDE, E.CPP14, E.CPP17_LITTLE_ASSERT, E.PY]


def feature(d: space.TypeDef) -> str:
    return d.layer + ":" + d.name[2:].split("k")[0][:14]


def input_class(t: pydsdl.CompositeType, data: bytes, encs: typing.Set[bytes]) -> str:
    if data in encs:
        return "valid"
    if any(e.startswith(data) for e in encs):
        return "truncated"
    if any(data.startswith(e) and e for e in encs):
        return "extended"
    return "other"


def _work(job: tuple) -> dict:
    sid, defs, scratch, thorough, cfgs = job
    sh = E.Shard(sid, defs, scratch)
    bag = Bag()
    evals = 0
    nontrivial = 0
    capped = 0
    consumed_exact = consumed_other = 0
    samples = []
    outcomes: typing.Set[str] = set()
    try:
        plan = []  # (ti, typedef, model, data, expected tokens|None (error), error kind, class)
        for ti, (d, t) in enumerate(zip(sh.mains, sh.main_models)):
            top = t.inner_type if isinstance(t, pydsdl.DelimitedType) else t
            encs = []
            for v, bad in E.ser_cases(t, storage=False):
                if not bad:
                    encs.append(ref.encode_top(t, v))
            cases, cp = E.des_cases(t, encs, thorough, cap=2500 if thorough else 260)
            capped += int(cp)
            es = set(encs)
            for data in cases:
                try:
                    val, cons = ref.decode(t, data)
                    want = flat.flatten(top, val)
                    kind = None
                except ref.ReprError as e:
                    want, cons, kind = None, 0, e.kind
                cls = input_class(t, data, es)
                plan.append((ti, d, t, data, want, kind, cls, cons))
                if cls != "valid" or kind:
                    nontrivial += 1
                outcomes.add("err:" + kind if kind else "ok:" + cls)
        for c in cfgs:
            if c.lang == "py":
                py = sh.py()
                for ti, d, t, data, want, kind, cls, cons in plan:
                    top = t.inner_type if isinstance(t, pydsdl.DelimitedType) else t
                    try:
                        st, val = py.deserialize(t, data)
                        got = flat.flatten(top, val) if st == "ok" else None
                    except Exception as e:  # pylint: disable=broad-except
                        st, got = "exception:" + type(e).__name__, None
                    evals += 1
                    if want is None:
                        if st == "ok":
                            bag.add({"kind": "invalid_accepted", "lang": "py", "error": kind, "feature": feature(d)}, {"type": d.body, "bytes": data.hex(), "config": c.tag, "got": got}, f"py {d.name}: invalid representation ({kind}) {data.hex()!r} decoded to {got}")
                        elif st != "error":
                            bag.add({"kind": "invalid_raises", "lang": "py", "error": kind, "status": st}, {"type": d.body, "bytes": data.hex(), "config": c.tag}, f"py {d.name}: invalid representation {data.hex()!r}: {st}")
                    elif st != "ok" or not flat.same_tokens(got, want):
                        bag.add(
                            {"kind": "wrong_value" if st == "ok" else "valid_rejected", "lang": "py", "input": cls, "feature": feature(d)},
                            {"type": d.body, "bytes": data.hex(), "config": c.tag, "got": got if st == "ok" else st, "want": want},
                            f"py {d.name} bytes {data.hex()!r} ({cls}): got {got if st == 'ok' else st} want {want}",
                        )
                continue
            exe = sh.build(c)
            cmds = [f"D {ti} {1 + (k % 2)} {E.hexs(data)}" for k, (ti, d, t, data, want, kind, cls, cons) in enumerate(plan)]
            res = sh.run_driver(exe, cmds)
            for (ti, d, t, data, want, kind, cls, cons), r in zip(plan, res):
                evals += 1
                if isinstance(r, dict):
                    rep = r.get("crash", r.get("exit_report", ""))
                    bag.add({"kind": "crash", "lang": c.lang, "what": E.san_summary(rep), "feature": feature(d)}, {"type": d.body, "bytes": data.hex(), "config": c.tag, "report": rep[:1500]}, f"{c.tag} {d.name} {data.hex()!r}: driver died: {E.san_summary(rep)}")
                    continue
                parts = r.split()
                rc, consumed, got = int(parts[1]), int(parts[2]), parts[3:]
                if want is None:
                    if rc >= 0:
                        bag.add({"kind": "invalid_accepted", "lang": c.lang, "error": kind, "feature": feature(d)}, {"type": d.body, "bytes": data.hex(), "config": c.tag, "got": r}, f"{c.tag} {d.name}: invalid representation ({kind}) {data.hex()!r} accepted: {r}")
                    elif rc not in REPR_ERRORS:
                        bag.add({"kind": "invalid_wrong_error", "lang": c.lang, "error": kind, "rc": rc}, {"type": d.body, "bytes": data.hex(), "config": c.tag, "got": r}, f"{c.tag} {d.name}: invalid representation ({kind}) gave rc={rc}")
                    continue
                if rc < 0:
                    bag.add({"kind": "valid_rejected", "lang": c.lang, "input": cls, "rc": rc, "feature": feature(d)}, {"type": d.body, "bytes": data.hex(), "config": c.tag, "got": r, "want": want}, f"{c.tag} {d.name} bytes {data.hex()!r} ({cls}): rc={rc}, want {want}")
                    continue
                if consumed > len(data):
                    bag.add({"kind": "consumed_exceeds_supplied", "lang": c.lang, "feature": feature(d)}, {"type": d.body, "bytes": data.hex(), "config": c.tag, "got": r}, f"{c.tag} {d.name} bytes {data.hex()!r}: consumed {consumed} > supplied {len(data)}")
                if consumed == cons:
                    consumed_exact += 1
                else:
                    consumed_other += 1
                if not flat.same_tokens(got, want):
                    bag.add(
                        {"kind": "wrong_value", "lang": c.lang, "input": cls, "feature": feature(d)},
                        {"type": d.body, "bytes": data.hex(), "config": c.tag, "got": got, "want": want},
                        f"{c.tag} {d.name} bytes {data.hex()!r} ({cls}): got {got} want {want}",
                    )
        for ti, d, t, data, want, kind, cls, cons in plan[:: max(1, len(plan) // 2)][:2]:
            samples.append({"type": d.body, "bytes": data.hex(), "class": cls, "expected": want if want is not None else "error:" + str(kind)})
    finally:
        sh.cleanup()
    return {"bag": bag, "evals": evals, "nontrivial": nontrivial, "types": len(sh.mains), "samples": samples, "cases": len(plan), "capped": capped, "cexact": consumed_exact, "cother": consumed_other, "outcomes": outcomes}


def run(ctx: Ctx) -> int:
    defs = E.select(ctx, space.universe(ctx.thorough, big=True))
    shards = E.make_shards(defs, 10 if not ctx.thorough else 24)
    cfgs = configs(ctx)
    jobs = E.debug_filter([(i, sh, ctx.scratch, ctx.thorough, cfgs) for i, sh in enumerate(shards)])
    results = ctx.pool_map(_work, jobs)
    outcomes: typing.Set[str] = set()
    for r in results:
        ctx.bag.merge(r["bag"])
        outcomes |= r["outcomes"]
        for s in r["samples"]:
            ctx.sample(s)
    capped = sum(r["capped"] for r in results)
    if capped:
        ctx.cap(f"{capped} types had more byte strings than the per-type cap; a deterministic spread was kept")
    need = {"err:array_length", "err:union_tag", "err:delimiter_header", "ok:truncated", "ok:extended", "ok:valid", "ok:other"}
    if not need <= outcomes and not os.environ.get("VERIF_ONLY_SHARDS"):
        ctx.vacuity(f"reference outcome classes never reached: {sorted(need - outcomes)}", hard=True)  # oracle side
    ctx.stats.update(types=sum(r["types"] for r in results), byte_strings=sum(r["cases"] for r in results), configs=[c.tag for c in cfgs], consumed_equals_spec=sum(r["cexact"] for r in results), consumed_differs_from_spec=sum(r["cother"] for r in results), outcome_classes=sorted(outcomes))
    cov = {
        "evaluations": sum(r["evals"] for r in results),
        "distinct_nontrivial": sum(r["nontrivial"] for r in results),
        "rule": "one evaluation = one deserialization of one (type, byte string) under one (target, option set) compared with the "
        "reference decoder; non-trivial = distinct (type, byte string) that is not a plain valid encoding (truncated, "
        "extended, bit-flipped, invalid)",
        "bound_completed": f"{ctx.stats['types']} types, {ctx.stats['byte_strings']} (type, byte string) cases x {len(cfgs)} configurations",
        "exhaustive": bool(ctx.thorough) and not capped,
    }
    return ctx.finish(
        "exploration",
        cov,
        ["PyDSDL 1.25 model and vf/codec/ref.py (reference decoder) are the trusted base", "only consumed <= supplied is demanded; consumed == spec size is a statistic", "Python exposes no consumed size"],
        min_outcomes=("evaluations", 1000),
    )


def replay(ctx: Ctx, case: dict) -> int:
    from vf.codec.replay import replay_case

    return replay_case(ctx, case)
