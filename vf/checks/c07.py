"""
C07 - reproducible output (model checking of schedules: set-iteration choice sequences x ambient tuples).

With auditing information off, the generated files must be a pure function of the DSDL definitions (content and paths
relative to the namespace root), templates, options and tool version.  The ambient dimensions are made explicit and
enumerated on the real generator:

 (a) set iteration order   - vf.permset.PermSet injected as the name `set` into every nunavut module; every iteration
                             of a >=2-element set is a choice point (n! alternatives, default = sorted order); all
                             schedules with <=1 deviation, thorough additionally 2 deviations (second level restricted
                             to adjacent transpositions + reversal: a cap, reported as such).  THE deciding dimension.
 (b) clock                 - the names `datetime`/`time` seen by nunavut.jinja and gzip are explorer controlled:
                             {epoch, 2024, 2024+1s, 9999}
 (c) cwd x path spelling   - {/, input parent, output dir} x {absolute, relative to cwd}
 (d) absolute location     - {A, B}: different depth and length, same relative layout; C: the directories above the inputs
                             are named like the root namespace(s); D: only the output directory has such ancestors
 (e) process + hash seed   - separate interpreter per PYTHONHASHSEED in {0..3} (thorough {0..7}), real CLI entry point, with
                             and without --generate-namespace-types, real sets
                             (guards the set literals / comprehensions the injected name cannot reach, listed below)
 x target {c, cpp c++14/c++17/c++17-pmr/cetl++14-17, py, html} x serialization support {on, off}.

Oracle: map relative path -> bytes equals that of the neighbouring run that differs in exactly one dimension; equal
path sets.  Every difference is classified by diffing the two outputs (cause tag) and reported with its own signature.
Pickled type models of the Python target (_MODEL_) that differ are unpickled and compared attribute by attribute: the
tag `pickled_model_content` is reserved for PyDSDL's own lazily filled bit-length-set caches (PYDSDL_LAZY_MEMO, the state
known finding C07-pickled-memo names); any other attribute gets `pickled_model_attr:<names>`, differing pathlib objects
`abs_source_path_in_pickled_model`, equal graphs with different bytes `pickled_model_bytes`.

Input shapes (NAMESPACES): besides fans / deep nesting / ties / long names, the namespace `chains` holds dependency chains
T -> U -> V (-> W) whose links sit in sibling / cousin namespaces of the head in every relative placement, so that which of
head and tail is generated first is decided by one nested-namespace set (guard: both orders seen for every chain).

Set literals/comprehensions in nunavut (not interceptable; `grep`/ast over src/nunavut minus bundled jinja2):
  jinja/environment.py:382  RESERVED_GLOBAL_NAMESPACES = {"ln","options","uses_queries","nunavut"}  iterated in
                            CodeGenEnvironment.__init__ to *insert keys into the globals dict* (insertion order of
                            Environment.globals; no built-in template iterates the globals) - could influence output
                            only through a template that enumerates globals; guarded by (e).
  jinja/environment.py:384  RESERVED_GLOBAL_NAMES = {"now_utc"} - one element, membership tests only.
  lang/py/__init__.py:395   sorted({(short_name, major) for x in tys}) - sorted before use; cannot influence output.
"""
from __future__ import annotations

import ast
import base64
import gzip
import hashlib
import itertools
import json
import os
import pathlib
import pickle
import re
import shutil
import subprocess
import sys
import typing

from vf import permset
from vf.core import VERIF, Bag, Ctx, HarnessError

# ------------------------------------------------------------------------------------------ namespaces (layer L8)
_S = "@sealed\n"
NAMESPACES: typing.Dict[str, typing.Dict[str, typing.Any]] = {
    # root + 3 nested siblings; one type with 4 dependencies spread over them ('if' is a keyword in every target)
    "fan": {
        "root": "x",
        "files": {
            "x/A.1.0.dsdl": "x.y.B.1.0 a\nx.if.Struct_.1.0 b\nx.w.A.1.0[<=2] c\nx.w.B.1.0[2] d\n" + _S,
            "x/y/B.1.0.dsdl": "uint8[<=3] v\n" + _S,
            "x/if/Struct_.1.0.dsdl": "bool v\nfloat16 w\n" + _S,
            "x/w/A.1.0.dsdl": "float32 v\n@extent 64\n",
            "x/w/B.1.0.dsdl": "int13 v\n" + _S,
        },
    },
    # 4 nested siblings (namespace index of 5: alternatives capped), a union over all of them
    "fan4": {
        "root": "x",
        "files": {
            "x/U.1.0.dsdl": "@union\nx.x.A.1.0 a\nx.y.A.1.0 b\nx.if.A.1.0 c\nx.w.A.1.0 d\n" + _S,
            "x/x/A.1.0.dsdl": "uint8 v\n" + _S,
            "x/y/A.1.0.dsdl": "uint16 v\n" + _S,
            "x/if/A.1.0.dsdl": "uint32 v\n" + _S,
            "x/w/A.1.0.dsdl": "uint64 v\n" + _S,
        },
    },
    # chain x > x.y > {x.y.if, x.y.w}: a nested set below the root, two minor versions, a service, transitive deps
    "deep": {
        "root": "x",
        "files": {
            "x/A.1.0.dsdl": "uint8 v\n@extent 64\n",
            "x/A.1.1.dsdl": "uint8 v\nuint8 w\n@extent 64\n",
            "x/y/B.2.0.dsdl": "x.A.1.1 a\n@extent 128\n",
            "x/y/if/Struct_.1.0.dsdl": "x.y.B.2.0 b\nx.A.1.0[<=2] a\n" + _S,
            "x/y/w/S.1.0.dsdl": "x.A.1.0 a\n" + _S + "---\nx.y.B.2.0 b\nx.A.1.1 c\n" + _S,
        },
    },
    # empty intermediate namespace x.if (no types of its own), a deprecated type, a constant
    "gap": {
        "root": "x",
        "files": {
            "x/if/x/A.1.0.dsdl": "@deprecated\nuint7 v\n" + _S,
            "x/B.1.0.dsdl": "@deprecated\nx.if.x.A.1.0 a\nuint8 LIMIT = 3\n" + _S,
        },
    },
    # cross-root lookup dependency
    "xroot": {
        "root": "x",
        "files": {
            "x/A.1.0.dsdl": "z.B.1.0 a\nz.y.Struct_.1.0 b\nx.y.B.1.0 c\n" + _S,
            "x/y/B.1.0.dsdl": "z.B.1.0[<=2] a\n" + _S,
        },
        "lookup": {"z": {"z/B.1.0.dsdl": "uint8 v\n" + _S, "z/y/Struct_.1.0.dsdl": "int8 v\n" + _S}},
    },
    # several versions of ONE type (they tie under every name-only ordering) in the root and in a nested namespace,
    # next to sibling types that use them
    "multi": {
        "root": "x",
        "files": {
            "x/Reading.1.0.dsdl": "uint8 v\n@extent 64\n",
            "x/Reading.1.1.dsdl": "uint8 v\nuint8 w\n@extent 64\n",
            "x/Reading.1.2.dsdl": "uint8 v\nuint8 w\nuint8 u\n@extent 64\n",
            "x/Reading.2.0.dsdl": "uint16 v\n@extent 64\n",
            "x/A.1.0.dsdl": "x.Reading.1.2 a\nx.Reading.2.0 b\nx.y.Reading.1.1[<=2] c\n" + _S,
            "x/y/Reading.1.0.dsdl": "int8 v\n@extent 32\n",
            "x/y/Reading.1.1.dsdl": "int8 v\nint8 w\n@extent 32\n",
            "x/y/Reading.2.0.dsdl": "int16 v\n@extent 32\n",
            "x/y/B.1.0.dsdl": "x.y.Reading.1.0 a\nx.y.Reading.2.0 b\n" + _S,
        },
    },
    # long names: include guards / paths / identifiers of 64, 71 and 100+ characters (size boundaries of C translators)
    "long": {
        "root": "x",
        "files": {
            "x/Heartbeat.1.0.dsdl": "uint8 v\n" + _S,
            # X_PROPULSION_SUBSYSTEM_ELECTRIC_DRIVE_TRAIN_STATUS_1_0_INCLUDED_ = 64 characters
            "x/propulsion_subsystem/electric_drive_train/Status.1.0.dsdl": "uint8 v\n" + _S,
            "x/propulsion_subsystem/electric_drive_train/StatusReport.1.0.dsdl": "uint16 v\n" + _S,  # 71
            "x/propulsion_subsystem/electric_drive_train/MotorControllerTemperatureReportWithAnExtraordinarilyLongName.1.0.dsdl": (
                "x.propulsion_subsystem.electric_drive_train.Status.1.0 a_field_with_a_rather_long_name_that_goes_on_and_on\n" + _S
            ),
            "x/propulsion_subsystem/Summary.1.0.dsdl": (
                "x.propulsion_subsystem.electric_drive_train.StatusReport.1.0 a\n"
                "x.propulsion_subsystem.electric_drive_train.MotorControllerTemperatureReportWithAnExtraordinarilyLongName.1.0[<=2] b\n" + _S
            ),
        },
    },
    # dependency CHAINS across sibling namespaces: the head T of a chain T -> U -> V (-> W) reaches the tail only through
    # other composites (nesting depth 2 or 3; T's own file never names the tail), and the links live in namespaces that
    # are siblings / cousins of T's, so whether the tail's file, its namespace module or the middle link was rendered
    # BEFORE or AFTER T's file is decided by the iteration order of one nested-namespace set (3 siblings: all 6 orders).
    # Every placement of (U, V) relative to T over {same namespace, sibling b, sibling c} except "everything in one
    # namespace" occurs once; each chain has links of its own (no chain renders the tail of another one earlier):
    #   1  a.T1 -> b.U1 -> b.V1          both links in ONE sibling          (+ a.S6: a service as the head, both halves)
    #   2  a.T2 -> b.U2[<=2] -> c.V2[2]  links in two different siblings, through arrays, delimited tail
    #   3  b.T3 -> b.U3 (union) -> c.V3  first link in T's namespace, tail in a sibling
    #   4  b.T4 -> a.U4 -> c.V4 -> c.W4  depth 3 over all three siblings
    #   5  c.p.T5 -> b.q.U5 -> b.q.V5    cousins (one level further down)
    #   6  a.T7 -> b.U7 -> a.V7          the tail back in T's own namespace, the middle link in a sibling
    "chains": {
        "root": "x",
        "files": {
            "x/a/T1.1.0.dsdl": "uint8 n\nx.b.U1.1.0 u\n" + _S,
            "x/a/S6.1.0.dsdl": "x.b.U1.1.0 u\n" + _S + "---\nx.b.U1.1.0[<=2] r\n" + _S,
            "x/b/U1.1.0.dsdl": "x.b.V1.1.0 v\n" + _S,
            "x/b/V1.1.0.dsdl": "uint8 v\n" + _S,
            "x/a/T2.1.0.dsdl": "x.b.U2.1.0[<=2] u\n" + _S,
            "x/b/U2.1.0.dsdl": "x.c.V2.1.0[2] v\n" + _S,
            "x/c/V2.1.0.dsdl": "uint16 v\n@extent 64\n",
            "x/b/T3.1.0.dsdl": "x.b.U3.1.0 u\n" + _S,
            "x/b/U3.1.0.dsdl": "@union\nx.c.V3.1.0 v\nuint8 w\n" + _S,
            "x/c/V3.1.0.dsdl": "bool v\n" + _S,
            "x/b/T4.1.0.dsdl": "x.a.U4.1.0 u\n" + _S,
            "x/a/U4.1.0.dsdl": "x.c.V4.1.0 v\n" + _S,
            "x/c/V4.1.0.dsdl": "x.c.W4.1.0 w\n" + _S,
            "x/c/W4.1.0.dsdl": "int8 v\n" + _S,
            "x/c/p/T5.1.0.dsdl": "x.b.q.U5.1.0 u\n" + _S,
            "x/b/q/U5.1.0.dsdl": "x.b.q.V5.1.0 v\n" + _S,
            "x/b/q/V5.1.0.dsdl": "uint8 v\n" + _S,
            "x/a/T7.1.0.dsdl": "x.b.U7.1.0 u\n" + _S,
            "x/b/U7.1.0.dsdl": "x.a.V7.1.0 v\n" + _S,
            "x/a/V7.1.0.dsdl": "float32 v\n" + _S,
        },
        # (head, tail) per chain: type names; used by the vacuity guard (both generation orders of head and tail seen)
        "chains": [
            ("x.a.T1", "x.b.V1"), ("x.a.S6", "x.b.V1"), ("x.a.T2", "x.c.V2"), ("x.b.T3", "x.c.V3"),
            ("x.b.T4", "x.c.W4"), ("x.c.p.T5", "x.b.q.V5"), ("x.a.T7", "x.b.U7"),
        ],
    },
    # nested namespaces whose names differ only in letter case (PyDSDL accepts them); HTML only
    "case": {
        "root": "x",
        "targets": ["html"],
        "feature": "nested_namespaces_differ_only_in_case",
        "files": {"x/q/T.1.0.dsdl": "uint8 v\n" + _S, "x/Q/U.1.0.dsdl": "uint8 v\n" + _S},
    },
}

LANGS: typing.Dict[str, typing.Tuple[str, typing.Optional[dict]]] = {
    "c": ("c", None),
    "cpp14": ("cpp", {"std": "c++14"}),
    "cpp17": ("cpp", {"std": "c++17"}),
    "cpp17pmr": ("cpp", {"std": "c++17-pmr"}),
    "cetl": ("cpp", {"std": "cetl++14-17"}),
    "py": ("py", None),
    "html": ("html", None),
    # the shipped templates of the tree under test, handed over as a USER template directory that lives next to the
    # inputs of each location (<loc>/tpl/<lang>): its position relative to the output directory differs between locations
    "c+tpl": ("c", {"_tpl": True}),
    "cpp17+tpl": ("cpp", {"std": "c++17", "_tpl": True}),
    "py+tpl": ("py", {"_tpl": True}),
    "html+tpl": ("html", {"_tpl": True}),
}

CLOCKS = ["2024", "epoch", "2024+1s", "9999"]
CWDS = ["root", "in", "out"]  # '/', the parent of the root namespace directory, the output directory
SPELL = ["abs", "rel"]
LOCS = ["A", "B", "C", "D"]
REF_AMBIENT = ("2024", "root", "abs", "A")
AMBIENT_DIMS = ("clock", "cwd", "path_spelling", "location")
SEEDS = [0, 1, 2, 3]  # quick; a tie of 4 elements has 24 orders: 3 other seeds agree with seed 0 by chance in < 0.01 %
SEEDS_THOROUGH = list(range(8))

Cfg = typing.Tuple[str, str, bool]  # (namespace name, language id, serialization support on)

CORE_CFGS: typing.List[Cfg] = [
    ("fan", "c", True),
    ("fan", "cpp17", True),
    ("fan", "py", True),
    ("fan", "html", True),
    ("xroot", "c", False),
    ("deep", "py", True),
    ("chains", "py", True),
    ("fan", "cpp17+tpl", True),
    ("fan", "c+tpl", True),
    ("multi", "html", True),
    ("case", "html", True),
]
# additionally run through the CLI with --generate-namespace-types (c/cpp: a copy of the built-in templates plus a
# Namespace.j2 that walks T.data_types / T.get_nested_types())
CHAINS_CFG: Cfg = ("chains", "py", True)  # the configuration the chain-order vacuity guard is computed on
GNT_CORE: typing.List[Cfg] = [("multi", "c", True), ("multi", "html", True)]
# in the quick core of the hash-seed axis only (otherwise sliced like any other configuration)
HASHSEED_CORE: typing.List[Cfg] = [("long", "c", True), ("long", "cpp17", True), ("long", "py", True), ("long", "html", True)]
_USER_NAMESPACE_J2 = (
    "// namespace {{ T.full_name }}\n{% for t in T.data_types %}// data type {{ t }}\n{% endfor %}"
    "{% for t, p in T.get_nested_types() %}// nested type {{ t.full_name }} {{ t.version.major }}.{{ t.version.minor }}\n{% endfor %}"
)

EXPECTED_SITES = (
    "nunavut._namespace:build_namespace_tree",
    "nunavut._namespace:Namespace.get_nested_namespaces",
    "nunavut.lang._common:IncludeGenerator.generate_include_filepart_list",
    "nunavut.lang:LanguageContextBuilder._new_language_map",
)


def all_cfgs() -> typing.List[Cfg]:
    out = []
    for n, d in NAMESPACES.items():
        for l in LANGS:
            if "targets" in d and LANGS[l][0] not in d["targets"]:
                continue
            if l.endswith("+tpl") and n != "fan":
                continue
            for s in (True, False) if "targets" not in d else (True,):
                out.append((n, l, s))
    return out


def cfg_id(cfg: Cfg) -> str:
    return f"{cfg[0]}/{cfg[1]}/{'ser' if cfg[2] else 'noser'}"


# ------------------------------------------------------------------------------------------ one execution
class Run(typing.NamedTuple):
    files: typing.Dict[str, bytes]
    kinds: typing.Dict[str, str]
    trace: typing.List[permset.ChoicePoint]
    order: typing.List[str]  # generation order (relative paths)
    error: typing.Optional[str]

    def digest(self) -> str:
        h = hashlib.sha256()
        for k in sorted(self.files):
            h.update(k.encode())
            h.update(hashlib.sha256(self.files[k]).digest())
        h.update((self.error or "").encode())
        return h.hexdigest()[:16]


class Locations:
    """
    The absolute locations (relative layout: in/<root>, lookup/<root2>, out):
      A  short;  B  deeper and longer;
      C  the directories ABOVE the inputs are named like the root namespace(s) (a checkout such as
         ~/x/public_types/in/x/...): cutting a path at the outermost directory called like the namespace goes wrong;
      D  only the OUTPUT directory has ancestors named like the namespace(s).
    """

    def __init__(self, base: pathlib.Path, names: typing.Sequence[str] = ("x", "z")) -> None:
        self.base = base
        like_ns = pathlib.PurePath(*names)
        self.roots = {
            "A": base / "A",
            "B": base / "Bb" / "deeper" / "a_location_with_a_considerably_longer_name",
            "C": base / "Cw" / like_ns / "public_types",
            "D": base / "Dd",
        }
        self.outs = {k: v / "out" for k, v in self.roots.items()}
        self.outs["D"] = self.roots["D"] / like_ns / "out"

    def materialize(self, nsdef: dict) -> None:
        names = [nsdef["root"]] + sorted(nsdef.get("lookup", {}))
        if any(n not in self.roots["C"].parts or n not in self.outs["D"].parts for n in names):
            raise HarnessError(f"locations C/D do not contain directories named {names}")
        for loc, root in self.roots.items():
            shutil.rmtree(root, ignore_errors=True)
            for rel, text in nsdef["files"].items():
                p = root / "in" / rel
                p.parent.mkdir(parents=True, exist_ok=True)
                p.write_text(text, encoding="utf-8")
            for files in nsdef.get("lookup", {}).values():
                for rel, text in files.items():
                    p = root / "lookup" / rel
                    p.parent.mkdir(parents=True, exist_ok=True)
                    p.write_text(text, encoding="utf-8")
            self.outs[loc].mkdir(parents=True, exist_ok=True)
            from vf.core import REPO  # pylint: disable=import-outside-toplevel

            for lang in ("c", "cpp", "py", "html"):
                shutil.copytree(
                    REPO / "src" / "nunavut" / "lang" / lang / "templates", root / "tpl" / lang,
                    ignore=shutil.ignore_patterns("__pycache__", "*.py"),
                )

    def scrub(self, s: str) -> str:
        for name in ("D", "C", "B", "A"):
            s = s.replace(str(self.outs[name]), f"<out{name}>").replace(str(self.roots[name]), f"<loc{name}>")
        return s.replace(str(self.base), "<scratch>")


def _spelled(p: pathlib.Path, cwd: pathlib.Path, spelling: str) -> str:
    if spelling == "abs":
        return str(p)
    return os.path.relpath(str(p), str(cwd))


def execute(
    cfg: Cfg,
    ambient: typing.Tuple[str, str, str, str],
    sched: typing.Optional[permset.Scheduler],
    locs: Locations,
) -> Run:
    """One real generator run (API entry, the way nunavut.generate_types does it) under the given ambient tuple."""
    from nunavut import build_namespace_tree  # pylint: disable=import-outside-toplevel
    from nunavut._generators import create_default_generators  # pylint: disable=import-outside-toplevel

    from vf import gen  # pylint: disable=import-outside-toplevel

    ns_name, lang_id, ser = cfg
    nsdef = NAMESPACES[ns_name]
    lang, options = LANGS[lang_id]
    clock, cwd_name, spelling, loc = ambient
    root = locs.roots[loc]
    out = locs.outs[loc]
    shutil.rmtree(out, ignore_errors=True)
    out.mkdir(parents=True)
    cwd = {"root": pathlib.Path("/"), "in": root / "in", "out": out}[cwd_name]
    ns_dir = _spelled(root / "in" / nsdef["root"], cwd, spelling)
    out_s = _spelled(out, cwd, spelling)
    lookups = [_spelled(root / "lookup" / r, cwd, spelling) for r in nsdef.get("lookup", {})]

    permset.install()
    permset.install_clock()
    permset.set_clock(clock)
    gen.reset_process_state()
    old_cwd = os.getcwd()
    error = None
    gen_paths: typing.List[str] = []
    support_paths: typing.List[str] = []
    ns_paths: typing.List[str] = []

    def rel(p: typing.Any) -> str:
        return os.path.relpath(os.path.abspath(str(p)), str(out))

    try:
        os.chdir(cwd)
        try:
            with permset.scheduled(sched):
                user_tpl = bool(options and options.get("_tpl"))
                lctx = gen.language_context(lang, {k: v for k, v in (options or {}).items() if k != "_tpl"} or None)
                types = gen.read_types(pathlib.Path(ns_dir), [pathlib.Path(x) for x in lookups])
                ns = build_namespace_tree(types, ns_dir, out_s, lctx)
                kw = {"templates_dir": pathlib.Path(_spelled(root / "tpl" / lang, cwd, spelling))} if user_tpl else {}
                g, sg = create_default_generators(ns, **kw)
                support_paths = [rel(p) for p in sg.generate_all(False, True, not ser, False)]
                gen_paths = [rel(p) for p in g.generate_all(False, True, not ser, False)]
            ns_paths = [rel(p) for _, p in ns.get_all_namespaces()]
        except HarnessError:
            raise
        except Exception as e:  # pylint: disable=broad-except
            tn = type(e).__name__ if type(e).__module__ == "builtins" else f"{type(e).__module__}.{type(e).__name__}"
            error = locs.scrub(f"{tn}: {e}")[:200]
    finally:
        os.chdir(old_cwd)
    files: typing.Dict[str, bytes] = {}
    for dirpath, dirnames, filenames in os.walk(out):
        dirnames.sort()
        for f in sorted(filenames):
            p = pathlib.Path(dirpath) / f
            files[str(p.relative_to(out))] = p.read_bytes()
    kinds = {}
    for k in files:
        kinds[k] = "support" if k in support_paths else ("namespace" if k in ns_paths else "type")
    trace = sched.finish() if (sched is not None and error is None) else (sched.trace if sched else [])
    return Run(files, kinds, list(trace), support_paths + gen_paths, error)


# ------------------------------------------------------------------------------------------ diff classification
_BLOB_RE = re.compile(r"_restore_constant_\(\n((?:[ \t]*'[^'\n]*'\n)+)[ \t]*\)")


def _blobs(text: str) -> typing.Tuple[str, typing.List[bytes]]:
    blobs = []

    def take(m: typing.Any) -> str:
        s = "".join(ast.literal_eval(line.strip()) for line in m.group(1).splitlines())
        blobs.append(base64.b85decode(s))
        return "_restore_constant_(<blob>)"

    return _BLOB_RE.sub(take, text), blobs


def _source_paths(obj: typing.Any, seen: typing.Optional[set] = None, depth: int = 0) -> typing.Set[str]:
    seen = set() if seen is None else seen
    out: typing.Set[str] = set()
    if id(obj) in seen or depth > 8:
        return out
    seen.add(id(obj))
    sp = getattr(obj, "source_file_path", None)
    if sp is not None:
        out.add(str(sp))
    for name in ("attributes", "fields", "constants"):
        for a in getattr(obj, name, None) or []:
            dt = getattr(a, "data_type", None)
            if dt is not None:
                out |= _source_paths(dt, seen, depth + 1)
                et = getattr(dt, "element_type", None)
                if et is not None:
                    out |= _source_paths(et, seen, depth + 1)
    for name in ("request_type", "response_type", "inner_type"):
        sub = getattr(obj, name, None)
        if sub is not None:
            out |= _source_paths(sub, seen, depth + 1)
    return out


# The lazily filled caches of pydsdl's bit-length-set solver (pydsdl/_bit_length_set/_symbolic.py, MemoizationOperator):
# the ONLY state the known finding C07-pickled-memo is about.  A pickled model that differs in anything else is a
# different root cause and gets its own cause tag (named after the attributes that differ).
PYDSDL_LAZY_MEMO = frozenset(
    "MemoizationOperator." + n for n in ("_min", "_max", "_modula", "_expansion")
)
_ATOMS = (type(None), bool, int, float, complex, str, bytes)


def _model_diff(a: typing.Any, b: typing.Any) -> typing.Tuple[typing.Set[str], bool]:
    """
    Structural comparison of two unpickled models the way pickle sees them (instance state through __reduce_ex__, so
    caches that are not pickled - e.g. of pathlib paths - do not count).  Returns ({"Class.attribute" of every place where
    the two graphs differ, pathlib objects excepted; ":order"/":len"/":type" appended where only that differs},
    a pathlib object differs).
    """
    out: typing.Set[str] = set()
    seen: typing.Set[typing.Tuple[int, int]] = set()
    keep: typing.List[typing.Any] = []  # temporaries stay alive: ids in `seen` are never reused
    path_differs = [False]
    stack: typing.List[typing.Tuple[typing.Any, typing.Any, str]] = [(a, b, "<model>")]
    steps = 0
    while stack:
        x, y, attr = stack.pop()
        steps += 1
        if steps > 2_000_000:
            out.add("<model>:too_large_to_compare")
            break
        if x is y:
            continue
        if type(x) is not type(y):
            out.add(attr + ":type")
            continue
        if isinstance(x, _ATOMS):
            if x != y:
                out.add(attr)
            continue
        if isinstance(x, (type, type(len), type(_model_diff))):  # classes / functions are pickled by name
            out.add(attr)
            continue
        key = (id(x), id(y))
        if key in seen:
            continue
        seen.add(key)
        if isinstance(x, pathlib.PurePath):
            if x != y:
                path_differs[0] = True  # the location of the inputs: not an attribute-level difference of its own
            continue
        if isinstance(x, (list, tuple)):
            if len(x) != len(y):
                out.add(attr + ":len")
            stack.extend((p, q, attr) for p, q in zip(x, y))
            continue
        if isinstance(x, dict):
            kx, ky = list(x), list(y)
            try:
                same_keys = set(kx) == set(ky)
            except TypeError:
                same_keys = False
            if not same_keys:
                out.add(attr)
            elif kx != ky:
                out.add(attr + ":order")
            stack.extend((x[k], y[k], attr) for k in kx if k in y)
            continue
        if isinstance(x, (set, frozenset)):
            lx, ly = list(x), list(y)
            if all(isinstance(e, _ATOMS) for e in lx + ly):
                if x != y:
                    out.add(attr)
                elif lx != ly:
                    out.add(attr + ":order")
            else:  # elements compared by position of a repr-sorted listing
                lx.sort(key=repr)
                ly.sort(key=repr)
                keep.extend((lx, ly))
                stack.append((lx, ly, attr))
            continue
        try:
            rx, ry = x.__reduce_ex__(2), y.__reduce_ex__(2)
        except Exception:  # pylint: disable=broad-except
            if pickle.dumps(x, 2) != pickle.dumps(y, 2):
                out.add(attr)
            continue
        keep.extend((rx, ry))
        if isinstance(rx, str) or isinstance(ry, str):
            if rx != ry:
                out.add(attr)
            continue
        cls = type(x).__name__
        if rx[0] is not ry[0]:
            out.add(attr + ":type")
            continue
        stack.append((rx[1], ry[1], attr))
        sx = rx[2] if len(rx) > 2 else None
        sy = ry[2] if len(ry) > 2 else None
        states = [(sx, sy)]
        if isinstance(sx, tuple) and isinstance(sy, tuple) and len(sx) == len(sy) == 2:  # (__dict__, slots)
            states = [(sx[0], sy[0]), (sx[1], sy[1])]
        for p, q in states:
            if isinstance(p, dict) and isinstance(q, dict):
                for k in list(p) + [k for k in q if k not in p]:
                    if k not in p or k not in q:
                        out.add(f"{cls}.{k}")
                    else:
                        stack.append((p[k], q[k], f"{cls}.{k}"))
                if [k for k in p if k in q] != [k for k in q if k in p]:
                    out.add(f"{cls}.__dict__:order")
            else:
                stack.append((p, q, f"{cls}.<state>"))
        for i in (3, 4):
            ix = list(rx[i]) if len(rx) > i and rx[i] is not None else None
            iy = list(ry[i]) if len(ry) > i and ry[i] is not None else None
            if ix is not None or iy is not None:
                keep.extend((ix, iy))
                stack.append((ix, iy, f"{cls}.<items>"))
    return out, path_differs[0]


def _model_causes(pa: bytes, pb: bytes) -> typing.Set[str]:
    """Cause tags for two differing pickles of a type model."""
    try:
        ma, mb = pickle.loads(pa), pickle.loads(pb)  # nosec - our own output
    except Exception:  # pylint: disable=broad-except
        return {"pickled_model_not_loadable"}
    causes: typing.Set[str] = set()
    try:
        paths_differ = _source_paths(ma) != _source_paths(mb)
    except Exception:  # pylint: disable=broad-except
        paths_differ = False
    names, path_objects_differ = _model_diff(ma, mb)
    if paths_differ or path_objects_differ:  # pathlib objects that differ; every OTHER attribute is reported on its own
        causes.add("abs_source_path_in_pickled_model")
    memo = {n for n in names if n.split(":")[0] in PYDSDL_LAZY_MEMO}
    other = names - memo
    if memo:
        causes.add("pickled_model_content")  # exactly the state named by C07-pickled-memo
    if other:
        short = sorted({n.split(".", 1)[-1] for n in other})
        causes.add("pickled_model_attr:" + ",".join(short[:3]) + (",..." if len(short) > 3 else ""))
    if not causes:
        causes.add("pickled_model_bytes")  # equal object graphs, different pickles (sharing of objects / memo ids)
    return causes


def _blob_causes(a: bytes, b: bytes) -> typing.Set[str]:
    causes = set()
    if a[4:8] != b[4:8]:
        causes.add("gzip_header_mtime")
    try:
        pa, pb = gzip.decompress(a), gzip.decompress(b)
    except Exception:  # pylint: disable=broad-except
        return causes | {"model_blob_not_gzip"}
    if pa != pb:
        causes |= _model_causes(pa, pb)
    elif a[:4] + a[8:] != b[:4] + b[8:]:
        causes.add("gzip_stream_bytes")
    return causes


def _norm(line: str, locs: Locations) -> str:
    s = locs.scrub(line.strip())
    s = re.sub(r"<(loc[A-D]|out[A-D]|scratch)>[^\s\"']*", "<path>", s)
    s = re.sub(r"\d+", "#", s)
    return s[:60]


def _line_cause(la: typing.List[str], i: int, x: str, y: str, locs: Locations) -> str:
    if "Generated at" in x and "Generated at" in y:
        return "generated_at_timestamp"
    p = 0
    while p < min(len(x), len(y)) and x[p] == y[p]:
        p += 1
    q = 0
    while q < min(len(x), len(y)) - p and x[-1 - q] == y[-1 - q]:
        q += 1
    # widen the differing middle to whole whitespace/quote delimited tokens
    def token(s: str) -> str:
        lo, hi = p, len(s) - q
        while lo > 0 and s[lo - 1] not in " \t\"'<>(),":
            lo -= 1
        while hi < len(s) and s[hi] not in " \t\"'<>(),":
            hi += 1
        return s[lo:hi]

    tx, ty = token(x), token(y)
    pathish = ("/" in tx or "/" in ty) and (tx.endswith(".dsdl") or ty.endswith(".dsdl") or os.sep in tx)
    if pathish and not x.lstrip().startswith(("#include", "import ", "from ")):
        ctx_lines = " ".join(la[max(0, i - 2) : i + 1])
        if "static_assert" in ctx_lines:
            return "abs_source_path_in_static_assert"
        if "Source file" in x:
            return "source_path_in_header_comment"
        return "path_in_text:" + _norm(x, locs)
    if x.lstrip().startswith("#include") and y.lstrip().startswith("#include"):
        return "include_order"
    if x.lstrip().startswith(("import ", "from ")) and y.lstrip().startswith(("import ", "from ")):
        return "import_order"
    return "text:" + _norm(x, locs)


def classify(a: bytes, b: bytes, locs: Locations) -> typing.List[str]:
    """Cause tags for two differing renderings of the same file (derived only from the two outputs)."""
    ta, tb = a.decode("utf-8", "replace"), b.decode("utf-8", "replace")
    causes: typing.Set[str] = set()
    if "_restore_constant_(" in ta and "_restore_constant_(" in tb:
        ta, ba = _blobs(ta)
        tb, bb = _blobs(tb)
        if len(ba) != len(bb):
            causes.add("model_blob_count")
        for x, y in zip(ba, bb):
            if x != y:
                causes |= _blob_causes(x, y)
    la, lb = ta.splitlines(), tb.splitlines()
    if len(la) != len(lb):
        causes.add("line_order" if sorted(la) == sorted(lb) else "line_count")
    else:
        others = 0
        for i, (x, y) in enumerate(zip(la, lb)):
            if x != y:
                c = _line_cause(la, i, x, y, locs)
                if c.startswith(("text:", "path_in_text:")):
                    others += 1
                    if others > 1:
                        continue
                causes.add(c)
        if not causes and ta != tb:
            causes.add("line_terminators")
    if not causes:
        causes.add("bytes")
    return sorted(causes)


def compare(a: Run, b: Run, locs: Locations) -> typing.List[typing.Tuple[str, str, str]]:
    """[(file_kind, cause, example relative path)] - empty when the two runs produced the same tree."""
    out: typing.List[typing.Tuple[str, str, str]] = []
    if a.error != b.error:
        out.append(("run", "exception:" + (b.error or a.error or "").split(":")[0], ""))
        return out
    for k in sorted(set(a.files) ^ set(b.files)):
        kind = a.kinds.get(k) or b.kinds.get(k) or "type"
        out.append((kind, "path_set", k))
    seen = set()
    for k in sorted(set(a.files) & set(b.files)):
        if a.files[k] != b.files[k]:
            for cause in classify(a.files[k], b.files[k], locs):
                key = (a.kinds.get(k, "type"), cause)
                if key not in seen:
                    seen.add(key)
                    out.append((key[0], cause, k))
    return out


# ------------------------------------------------------------------------------------------ workers
def _worker_locs(scratch: str) -> Locations:
    return Locations(pathlib.Path(scratch) / "c07" / f"w{os.getpid()}")


def _trace_json(trace: typing.Sequence[permset.ChoicePoint]) -> typing.List[list]:
    return [[cp.n, cp.arity, cp.alt, cp.site] for cp in trace]


def _report(
    bag: Bag, cfg: Cfg, dim: str, diffs: typing.List[typing.Tuple[str, str, str]], case: dict, extra: typing.Optional[dict] = None
) -> None:
    lang = LANGS[cfg[1]][0]
    for kind, cause, path in diffs:
        sig = {"kind": "depends_on", "dim": dim, "lang": lang, "file_kind": kind, "cause": cause}
        if "feature" in NAMESPACES[cfg[0]]:  # an input feature that names the root cause better than the diff does
            sig["input_feature"] = NAMESPACES[cfg[0]]["feature"]
        if extra:
            sig.update(extra)
        if kind == "run":
            text = f"{lang} generation depends on {dim}: one of the two runs fails ({cause}) [{cfg_id(cfg)}]"
        else:
            text = f"{lang} output depends on {dim}: {kind} file {path or '-'} differs ({cause}) [{cfg_id(cfg)}]"
        bag.add(sig, case, text)


def _ambient_job(job: dict) -> dict:
    """Evaluates a set of ambient tuples of one configuration; each tuple is compared with its neighbours that are one
    dimension closer to the reference tuple (so every difference is attributed to exactly one dimension)."""
    cfg: Cfg = tuple(job["cfg"])  # type: ignore[assignment]
    locs = _worker_locs(job["scratch"])
    locs.materialize(NAMESPACES[cfg[0]])
    bag = Bag()
    runs: typing.Dict[tuple, Run] = {}
    stats = {"executions": 0, "edges": 0}

    def get(t: tuple) -> Run:
        if t not in runs:
            s = permset.Scheduler() if t == REF_AMBIENT else None
            runs[t] = execute(cfg, t, s, locs)
            stats["executions"] += 1
        return runs[t]

    ref = get(REF_AMBIENT)
    if ref.error is not None:
        raise HarnessError(f"reference run of {cfg_id(cfg)} failed: {ref.error}")
    if not ref.files:
        raise HarnessError(f"reference run of {cfg_id(cfg)} produced no files")
    for t in [tuple(x) for x in job["tuples"]]:
        r = get(t)
        for d, name in enumerate(AMBIENT_DIMS):
            if t[d] == REF_AMBIENT[d]:
                continue
            nb = t[:d] + (REF_AMBIENT[d],) + t[d + 1 :]
            stats["edges"] += 1
            diffs = compare(get(nb), r, locs)
            if diffs:
                _report(bag, cfg, name, diffs, {"kind": "ambient", "cfg": list(cfg), "a": list(nb), "b": list(t)})
    digests = sorted({r.digest() for r in runs.values()})
    return {
        "cfg": cfg,
        "bag": bag,
        "stats": stats,
        "trace": _trace_json(ref.trace),
        "digests": digests,
        "tuples_run": sorted(runs),
        "nfiles": len(ref.files),
        "kinds": sorted(set(ref.kinds.values())),
        "clock_reads": permset.clock_reads(),
    }


def _sched_job(job: dict) -> dict:
    """Runs the default schedule (checks it against the recorded trace) and a list of deviating schedules."""
    cfg: Cfg = tuple(job["cfg"])  # type: ignore[assignment]
    locs = _worker_locs(job["scratch"])
    locs.materialize(NAMESPACES[cfg[0]])
    bag = Bag()
    ref = execute(cfg, REF_AMBIENT, permset.Scheduler(), locs)
    if ref.error is not None:
        raise HarnessError(f"reference run of {cfg_id(cfg)} failed: {ref.error}")
    if [cp[1] for cp in job["ref_trace"]] != permset.arities(ref.trace):
        raise HarnessError(
            f"default schedule of {cfg_id(cfg)} is not reproducible: arities {permset.arities(ref.trace)} "
            f"now, {[cp[1] for cp in job['ref_trace']]} recorded"
        )
    results = []
    order_changed = 0
    digests = {ref.digest()}
    for spec in job["specs"]:
        dev = [tuple(d) for d in spec["dev"]]
        s = permset.Scheduler(dev, spec["expect"])
        r = execute(cfg, REF_AMBIENT, s, locs)
        digests.add(r.digest())
        if r.order != ref.order:
            order_changed += 1
        diffs = compare(ref, r, locs)
        sites = [r.trace[i].site if i < len(r.trace) else "?" for i, _, _ in dev]
        if diffs:
            _report(
                bag,
                cfg,
                "set_order",
                diffs,
                {"kind": "sched", "cfg": list(cfg), "dev": [list(d) for d in dev], "expect": spec["expect"]},
                {"site": sites[-1]},
            )
        results.append(
            {"dev": [list(d) for d in dev], "trace": _trace_json(r.trace), "sites": sites, "differs": bool(diffs), "order": r.order}
        )
    return {
        "cfg": cfg,
        "bag": bag,
        "results": results,
        "ref_order": ref.order,
        "executions": 1 + len(job["specs"]),
        "order_changed": order_changed,
        "digests": sorted(digests),
    }


_CLI_DRIVER = (
    "import sys; sys.path.insert(0, sys.argv[1]); "
    "from vf import permset; permset.install_clock(); permset.set_clock('2024'); "
    "import nunavut.cli; sys.argv = ['nnvg'] + sys.argv[2:]; "
    "rc = nunavut.cli.main(); sys.exit(rc or 0)"
)


def cli_args(cfg: Cfg, root: pathlib.Path, gnt: bool = False, user_templates: typing.Optional[pathlib.Path] = None) -> typing.List[str]:
    ns_name, lang_id, ser = cfg
    nsdef = NAMESPACES[ns_name]
    lang, options = LANGS[lang_id]
    args = ["--target-language", lang, "--experimental-languages", "--outdir", str(root / "out")]
    if options and "std" in options:
        args += ["--language-standard", options["std"]]
    if not ser:
        args += ["--omit-serialization-support"]
    for r in nsdef.get("lookup", {}):
        args += ["--lookup-dir", str(root / "lookup" / r)]
    if gnt:
        args += ["--generate-namespace-types"]
        if user_templates is not None:
            args += ["--templates", str(user_templates)]
    elif options and options.get("_tpl"):
        args += ["--templates", str(root / "tpl" / lang)]
    return args + [str(root / "in" / nsdef["root"])]


def _user_templates(cfg: Cfg, locs: "Locations") -> typing.Optional[pathlib.Path]:
    """c/cpp have no namespace template: the built-in templates of the tree under test + a Namespace.j2 of ours."""
    from vf.core import REPO  # pylint: disable=import-outside-toplevel

    lang = LANGS[cfg[1]][0]
    if lang not in ("c", "cpp"):
        return None
    d = locs.base / "utpl" / lang
    shutil.rmtree(d, ignore_errors=True)
    shutil.copytree(REPO / "src" / "nunavut" / "lang" / lang / "templates", d, ignore=shutil.ignore_patterns("__pycache__", "*.py"))
    (d / "Namespace.j2").write_text(_USER_NAMESPACE_J2, encoding="utf-8")
    return d


def _hashseed_job(job: dict) -> dict:
    """One interpreter per PYTHONHASHSEED through the real CLI (real sets, clock seam fixed); seed 0 is the reference."""
    cfg: Cfg = tuple(job["cfg"])  # type: ignore[assignment]
    locs = _worker_locs(job["scratch"])
    locs.materialize(NAMESPACES[cfg[0]])
    root = locs.roots["A"]
    out = root / "out"
    bag = Bag()
    runs: typing.Dict[int, Run] = {}
    gnt = bool(job.get("gnt"))
    utpl = _user_templates(cfg, locs) if gnt else None
    for seed in job["seeds"]:
        shutil.rmtree(out, ignore_errors=True)
        out.mkdir(parents=True)
        env = dict(os.environ)
        env["PYTHONHASHSEED"] = str(seed)
        p = subprocess.run(
            [sys.executable, "-c", _CLI_DRIVER, str(VERIF)] + cli_args(cfg, root, gnt, utpl),
            cwd="/",
            env=env,
            stdout=subprocess.PIPE,
            stderr=subprocess.PIPE,
            text=True,
            check=False,
            timeout=300,
        )
        if p.returncode != 0:
            raise HarnessError(f"CLI run of {cfg_id(cfg)} with PYTHONHASHSEED={seed} failed: {p.stderr[-800:]}")
        files = {}
        for dirpath, dirnames, filenames in os.walk(out):
            dirnames.sort()
            for f in sorted(filenames):
                q = pathlib.Path(dirpath) / f
                files[str(q.relative_to(out))] = q.read_bytes()
        if not files:
            raise HarnessError(f"CLI run of {cfg_id(cfg)} produced no files")
        kinds = {
            k: (
                "support"
                if ("nunavut/support/" in k or k == "nunavut_support.py")
                else ("namespace" if pathlib.Path(k).stem in ("__init__", "index", "_", "_namespace_") else "type")
            )
            for k in files
        }
        runs[seed] = Run(files, kinds, [], [], None)
    first = job["seeds"][0]
    for seed in job["seeds"][1:]:
        diffs = compare(runs[first], runs[seed], locs)
        if diffs:
            _report(bag, cfg, "hashseed", diffs, {"kind": "hashseed", "cfg": list(cfg), "seeds": [first, seed], "gnt": gnt})
    return {"cfg": cfg, "bag": bag, "executions": len(job["seeds"]), "digests": sorted({r.digest() for r in runs.values()})}


# ------------------------------------------------------------------------------------------ the check
def _shard(specs: typing.List[dict], size: int) -> typing.List[typing.List[dict]]:
    return [specs[i : i + size] for i in range(0, len(specs), size)]


def _dev_id(cfg: Cfg, dev: typing.Sequence[typing.Sequence[int]]) -> str:
    return cfg_id(cfg) + "|sched|" + ";".join(f"{i}:{a}:{alt}" for i, a, alt in dev)


def run(ctx: Ctx) -> int:
    scratch = str(ctx.scratch)
    stamp = permset.tree_stamp()
    cfgs = all_cfgs()
    core = [c for c in cfgs if c in CORE_CFGS]
    if len(core) != len(CORE_CFGS) or CHAINS_CFG not in core:
        raise HarnessError("core configuration list names unknown configurations / lacks the dependency-chain configuration")
    # thorough space per configuration: the full product over locations A/B, and every cwd x spelling at the two
    # locations whose directories are named like the namespace (the clock is independent of where the files are)
    all_tuples = [t for t in itertools.product(CLOCKS, CWDS, SPELL, ["A", "B"]) if t != REF_AMBIENT]
    all_tuples += list(itertools.product([REF_AMBIENT[0]], CWDS, SPELL, ["C", "D"]))
    # quick, core configurations: every clock value alone + every cwd x spelling x location at the reference clock
    core_tuples = [t for t in all_tuples if t[0] == REF_AMBIENT[0] or t[1:] == REF_AMBIENT[1:]]

    # ---- phase 1: ambient tuples (and the default trace of every configuration)
    jobs = []
    ambient_space = 0
    for cfg in cfgs:
        ambient_space += len(all_tuples)
        if ctx.thorough:
            tuples = all_tuples
        elif cfg in core:  # the two configurations added for ordering ties: schedules and hash seeds are the point
            tuples = [] if cfg[0] in ("multi", "case", "chains") else core_tuples
        else:  # the seed selects whole configurations (a tuple needs its neighbours to be attributed)
            tuples = all_tuples if ctx.in_slice(cfg_id(cfg) + "|ambient", 24) else []
        jobs.append({"cfg": cfg, "tuples": tuples, "scratch": scratch})
    jobs.sort(key=lambda j: -len(j["tuples"]))  # long jobs first (stable, deterministic)
    res1 = ctx.pool_map(_ambient_job, jobs)
    executions = 0
    digests: typing.Set[str] = set()
    ref_traces: typing.Dict[Cfg, list] = {}
    ambient_run = 0
    edges = 0
    sites: typing.Set[str] = set()
    kinds: typing.Set[str] = set()
    capped_sites: typing.Set[str] = set()
    for r in res1:
        ctx.bag.merge(r["bag"])
        executions += r["stats"]["executions"]
        edges += r["stats"]["edges"]
        ambient_run += len(r["tuples_run"]) - 1
        digests |= set(r["digests"])
        ref_traces[tuple(r["cfg"])] = r["trace"]
        kinds |= set(r["kinds"])
        for n, _, _, site in r["trace"]:
            sites.add(site)
            if permset.is_capped(n):
                capped_sites.add(f"{site} (n={n})")
    if res1 and max(r["clock_reads"] for r in res1) == 0:
        raise HarnessError("the clock seam was never read: datetime/time interposition is not effective")

    # ---- phase 2: all schedules with exactly one deviation
    jobs = []
    one_dev_space = 0
    for cfg in cfgs:
        trace = [permset.ChoicePoint(*cp) for cp in ref_traces[cfg]]
        children = permset.expand((), trace)
        one_dev_space += len(children)
        expect = permset.arities(trace)
        specs = []
        for dev in children:
            if cfg in core or ctx.in_slice(_dev_id(cfg, dev), 24):
                specs.append({"dev": [list(d) for d in dev], "expect": expect[: dev[-1][0] + 1]})
        for part in _shard(specs, 20):
            jobs.append({"cfg": cfg, "specs": part, "ref_trace": ref_traces[cfg], "scratch": scratch})
    res2 = ctx.pool_map(_sched_job, jobs)
    one_dev_run = 0
    order_changed = 0
    chain_orders: typing.Dict[typing.Tuple[str, str], typing.Set[bool]] = {c: set() for c in NAMESPACES["chains"]["chains"]}
    for r in res2:
        ctx.bag.merge(r["bag"])
        executions += r["executions"]
        one_dev_run += len(r["results"])
        order_changed += r["order_changed"]
        digests |= set(r["digests"])
        if tuple(r["cfg"]) == CHAINS_CFG:  # which of head / tail of every dependency chain was generated first
            for order in [r["ref_order"]] + [one["order"] for one in r["results"]]:
                for head, tail in chain_orders:
                    h, t = (n.replace(".", "/") + "_1_0.py" for n in (head, tail))
                    if h not in order or t not in order:
                        raise HarnessError(f"chains: {h} / {t} are not among the generated files {order}")
                    chain_orders[(head, tail)].add(order.index(h) < order.index(t))

    # ---- phase 3 (thorough): two deviations; the second restricted to adjacent transpositions + reversal
    two_dev_run = 0
    two_dev_space = 0
    if ctx.thorough:
        jobs = []
        for r in res2:
            cfg = tuple(r["cfg"])
            specs = []
            for one in r["results"]:
                trace = [permset.ChoicePoint(*cp) for cp in one["trace"]]
                dev = tuple(tuple(d) for d in one["dev"])
                expect = permset.arities(trace)
                two_dev_space += sum(cp.arity - 1 for cp in trace[dev[-1][0] + 1 :])
                # core configurations: every first deviation; others: first deviation from the restricted family too
                if cfg not in core and dev[0][2] not in permset.light_alternatives(trace[dev[0][0]].n):
                    continue
                for child in permset.expand(dev, trace, light=True):
                    specs.append({"dev": [list(d) for d in child], "expect": expect[: child[-1][0] + 1]})
            for part in _shard(specs, 30):
                jobs.append({"cfg": cfg, "specs": part, "ref_trace": ref_traces[cfg], "scratch": scratch})
        res3 = ctx.pool_map(_sched_job, jobs)
        for r in res3:
            ctx.bag.merge(r["bag"])
            executions += r["executions"]
            two_dev_run += len(r["results"])
            order_changed += r["order_changed"]
            digests |= set(r["digests"])
        ctx.cap(
            "two-deviation level: the second deviation is restricted to adjacent transpositions + reversal; outside the "
            f"{len(core)} core configurations the first one as well ({two_dev_run} of {two_dev_space} two-deviation "
            "schedules run)"
        )
    if capped_sites:
        ctx.cap("sets with more than 4 elements offer 7..n+2 alternatives instead of n!: " + "; ".join(sorted(capped_sites)))

    # ---- phase 4: separate interpreters, PYTHONHASHSEED in {0,1,2,3}, real CLI
    seeds = SEEDS_THOROUGH if ctx.thorough else SEEDS
    jobs = [
        {"cfg": cfg, "seeds": seeds, "scratch": scratch}
        for cfg in cfgs
        if cfg in core or cfg in HASHSEED_CORE or ctx.in_slice(cfg_id(cfg) + "|hashseed", 32)
    ]
    gnt_space = [c for c in cfgs if c[2]]
    jobs += [
        {"cfg": cfg, "seeds": seeds, "scratch": scratch, "gnt": True}
        for cfg in gnt_space
        if cfg in GNT_CORE or ctx.in_slice(cfg_id(cfg) + "|hashseed|gnt", 32)
    ]
    res4 = ctx.pool_map(_hashseed_job, jobs)
    seed_runs = 0
    for r in res4:
        ctx.bag.merge(r["bag"])
        seed_runs += r["executions"]
        digests |= set(r["digests"])
    executions += seed_runs

    # ---- vacuity guards
    missing = [s for s in EXPECTED_SITES if s not in sites]
    if missing:
        raise HarnessError(f"choice points never reached: {missing} (seen {sorted(sites)})")
    if not {"type", "namespace", "support"} <= kinds:
        raise HarnessError(f"file kinds seen {sorted(kinds)}: expected type, namespace and support files")
    if order_changed == 0:
        raise HarnessError("no deviating schedule changed the generation order: the permuting set has no effect")
    one_sided = sorted(f"{h}->{t}" for (h, t), seen in chain_orders.items() if len(seen) < 2)
    if one_sided:  # order_changed > 0 here: schedules do reorder the generation, just not head against tail
        ctx.vacuity(f"dependency chains whose head and tail were generated in one relative order only: {one_sided}", hard=True)

    permset.assert_tree_unchanged(stamp)
    _confirm(ctx)
    permset.assert_tree_unchanged(stamp)

    ctx.stats.update(
        cpu_seconds=round(sum(os.times()[:4]), 1),
        configurations=len(cfgs),
        ambient_tuples_run=ambient_run,
        ambient_tuples_space=ambient_space,
        ambient_edges_compared=edges,
        one_deviation_run=one_dev_run,
        one_deviation_space=one_dev_space,
        two_deviation_run=two_dev_run,
        two_deviation_space=two_dev_space,
        hashseed_processes=seed_runs,
        schedules_changing_generation_order=order_changed,
        dependency_chains_generated_in_both_orders=sum(1 for v in chain_orders.values() if len(v) == 2),
        dependency_chains=len(chain_orders),
        choice_sites=sorted(sites),
        default_traces={cfg_id(c): [cp[1] for cp in t] for c, t in ref_traces.items() if c in core},
    )
    ex_cfg = core[0]
    ex_trace = ref_traces[ex_cfg]
    ctx.samples = [
        {"cfg": cfg_id(ex_cfg), "schedule": [], "choice_points": [[cp[1], cp[3]] for cp in ex_trace]},
        {"cfg": cfg_id(ex_cfg), "schedule": [[1, ex_trace[1][1], 5]] if len(ex_trace) > 1 else [], "ambient": list(REF_AMBIENT)},
        {"cfg": cfg_id(core[2]), "ambient_a": list(REF_AMBIENT), "ambient_b": ["2024+1s", "root", "abs", "A"]},
        {"cfg": cfg_id(core[4]), "ambient_a": list(REF_AMBIENT), "ambient_b": ["2024", "in", "rel", "B"]},
        {"cfg": cfg_id(core[0]), "ambient_a": list(REF_AMBIENT), "ambient_b": ["2024", "root", "abs", "C"],
         "location_C": "<scratch>/Cw/x/z/public_types/in/x/...", "output_D": "<scratch>/Dd/x/z/out"},
        {"cfg": cfg_id(core[1]), "hashseed": [0, 3], "argv": cli_args(core[1], pathlib.Path("<A>"))},
    ]
    nontrivial = ambient_run + one_dev_run + two_dev_run + (seed_runs - len(res4))
    cov = {
        "states": len(cfgs) + ambient_run + one_dev_run + two_dev_run + seed_runs,
        "transitions": executions,
        "traces_validated_against_impl": executions,
        "evaluations": executions,
        "distinct_nontrivial": nontrivial,
        "distinct_outcomes": len(digests),
        "rule": "state = (configuration, ambient tuple, choice sequence) - counted once each; transitions = real "
        "generator runs (reference runs are repeated once per shard); "
        "non-trivial = distinct executions that differ from their configuration's reference run in the schedule "
        "(>=1 deviation) or in >=1 ambient coordinate (reference runs themselves are not counted); "
        "distinct_outcomes = distinct output trees (sha256 of path->bytes)",
        "bound_completed": (
            f"{len(cfgs)} configurations ({len(NAMESPACES)} namespaces x {len(LANGS)} targets x serialization on/off); "
            f"ambient tuples {ambient_run}/{ambient_space}; schedules with 1 deviation {one_dev_run}/{one_dev_space} "
            f"(every alternative at every choice point); 2 deviations {two_dev_run}/{two_dev_space}; "
            f"hash-seed processes {seed_runs}/{(len(cfgs) + len(gnt_space)) * len(seeds)} ({len(seeds)} seeds; incl. "
            f"--generate-namespace-types variants)"
        ),
        "exhaustive": False,
    }
    return ctx.finish(
        "model_checking",
        cov,
        [
            "pydsdl 1.25 is the trusted front end; its own hash-ordered collections are only covered by dimension (e)",
            "set literals/comprehensions in nunavut are not interceptable (3 sites, listed in the module docstring); "
            "guarded by the PYTHONHASHSEED processes",
            "clock seam = names datetime/time in nunavut modules + gzip.time; a clock read through another route "
            "is not controlled",
            "in-process runs reset nunavut's caches/singletons between executions (history dependence is C10)",
            "ambient differences are attributed per dimension by comparing tuples that differ in one coordinate",
            "differing pickled models are told apart by the attributes that differ (unpickled with the installed pydsdl); only "
            "pydsdl's MemoizationOperator caches map to the known finding C07-pickled-memo",
        ],
        min_outcomes=("distinct_outcomes", 2 * len(core)),
    )


# ------------------------------------------------------------------------------------------ confirm / replay
def _replay_case(case: dict, scratch: str) -> typing.Tuple[typing.List[typing.Tuple[str, str, str]], Locations, str]:
    cfg: Cfg = tuple(case["cfg"])  # type: ignore[assignment]
    locs = Locations(pathlib.Path(scratch) / "c07" / f"r{os.getpid()}")
    locs.materialize(NAMESPACES[cfg[0]])
    text = ""
    if case["kind"] == "ambient":
        a = execute(cfg, tuple(case["a"]), None, locs)
        b = execute(cfg, tuple(case["b"]), None, locs)
    elif case["kind"] == "sched":
        a = execute(cfg, REF_AMBIENT, permset.Scheduler(), locs)
        b = execute(cfg, REF_AMBIENT, permset.Scheduler([tuple(d) for d in case["dev"]], case["expect"]), locs)
    elif case["kind"] == "hashseed":
        r = _hashseed_job({"cfg": cfg, "seeds": case["seeds"], "scratch": scratch, "gnt": case.get("gnt", False)})
        diffs = [(v.sig["file_kind"], v.sig["cause"], "") for v in r["bag"].v.values()]
        return diffs, locs, ""
    else:
        raise HarnessError(f"unknown case kind {case.get('kind')}")
    diffs = compare(a, b, locs)
    for _, _, path in diffs[:3]:
        if path and path in a.files and path in b.files:
            import difflib  # pylint: disable=import-outside-toplevel

            d = difflib.unified_diff(
                a.files[path].decode("utf-8", "replace").splitlines(),
                b.files[path].decode("utf-8", "replace").splitlines(),
                "a/" + path,
                "b/" + path,
                lineterm="",
                n=0,
            )
            text += "\n".join(line[:200] for line in itertools.islice(d, 12)) + "\n"
    return diffs, locs, text


def _confirm(ctx: Ctx) -> None:
    """Every distinct violation is re-executed once from its recorded case; a divergence is a harness error."""
    for v in list(ctx.bag.v.values()):
        diffs, _, _ = _replay_case(v.case, str(ctx.scratch))
        got = {(k, c) for k, c, _ in diffs}
        if (v.sig["file_kind"], v.sig["cause"]) not in got:
            raise HarnessError(
                f"violation {json.dumps(v.sig, sort_keys=True)} did not reproduce from its recorded case "
                f"(re-execution gave {sorted(got)})"
            )


def replay(ctx: Ctx, case: dict) -> int:
    diffs, _, text = _replay_case(case, str(ctx.scratch))
    print(f"case: {json.dumps(case)}")
    for kind, cause, path in diffs:
        print(f"  differs: {kind} file {path or '-'}: {cause}")
    if text:
        print(text)
    print("outputs differ" if diffs else "outputs identical")
    return 1 if diffs else 0
