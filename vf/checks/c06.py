"""
C06 - every valid DSDL input yields generated code that builds cleanly on its own (exploration; E2 + compilers).

Enumerated: every namespace case of vf.nsspace (type layer, L5 services/deprecated/empty/constants, L6 names x
positions, L7 hostile doc comments, L8 namespace shapes incl. cross-root dependencies)
  x target configuration {C; C++ c++14 / c++17 / c++20 / c++17-pmr; C++ cetl++14-17 (generate + include closure only:
    the CETL submodule is empty here, the flavour cannot be compiled); Python}
  x serialization support {enabled, omitted}
  x compiler {gcc 12; thorough: + clang 14}.
For EVERY generated header a one-line translation unit `#include "<header>"` is compiled with -fsyntax-only under the
project's own strict warning set (verification/cmake/compiler_flag_sets/common.cmake):
  C header as C11:            gcc -std=c11  C_FLAG_SET (+ -Wno-stringop-overflow, as the project does for GNU)
  C header inside a C++14 TU: g++ -std=c++14 CXX_FLAG_SET -Wno-old-style-cast  (exactly what verification/CMakeLists.txt
                              applies to the C headers it compiles from C++ tests); clang++: C_FLAG_SET only (clang's
                              -Wzero-as-null-pointer-constant fires on the NULL macro itself; whether the project's clang
                              CI sees the headers as system headers cannot be established offline, so it is not demanded)
  C++ header:                 g++/clang++ -std=c++14|17|20 (c++17 for the pmr flavour) CXX_FLAG_SET
Every generated Python module is compile()d with warnings as errors and imported in a fresh interpreter with
`-W error`, PYTHONPATH = <output dir>:/verif/_deps (a package __init__.py that has a sibling module is not imported
a second time on its own: the sibling's fresh-interpreter import executes it first).  Every `#include` / `import` must be a standard header/module
(or numpy/pydsdl, the documented runtime dependencies of the generated Python; cetl/ for the cetl flavour) or name a
file the same run produced.

Oracle: exit status 0 and no diagnostics.  A failing batched case is attributed: the diagnostics classes of a control
type (`uint8 a`) and of the case's empty skeleton are the baseline (reported once as feature any_type / skeleton:*);
every further class is traced by recursive halving of the member list to single members, irreducible groups go
through ddmin (interactions), the remainder is re-tested.  `sig` = {kind, feature, origin, ser[, std][, compiler]}
names the input feature, never the raw input: for names it is (position, class of the name) - e.g.
{kind: c_compile, feature: attr_name@bool_fixed, origin: c_reserved, ser: on}; the concrete names are listed in `what`
and in coverage.stats.failing_names.  Every violation is re-executed from its minimal case before it is reported.
C constants are #defines, so a header that compiles on its own says nothing about them: the L5 constant cases are
additionally compiled with every parenthesised object-like macro expanded and the result is recorded as a STATISTIC
(coverage.stats.statistics_not_judged), not judged - the statement only demands that the header compiles on its own.
"""
from __future__ import annotations

import ast
import hashlib
import os
import pathlib
import re
import shutil
import subprocess
import sys
import typing
import warnings

from vf import gen, nsspace
from vf.core import DEPS, Bag, Ctx, HarnessError

PYTHON = sys.executable
CPP_STDS = ["c++14", "c++17", "c++20", "c++17-pmr"]
CETL = "cetl++14-17"
SERS = ["on", "omit"]
NO_STRINGOP = ["-Wno-stringop-overflow"]  # add_compile_options("$<$<C_COMPILER_ID:GNU>:-Wno-stringop-overflow>")
# clang's default expression nesting limit (256) is an implementation limit, not a diagnostic: libstdc++'s std::variant folds
# over all alternatives, so a 257-option union needs a deeper limit (gcc has none). Raising it relaxes no warning.
CLANG_LIMITS = ["-fbracket-depth=2048"]
C_IN_CXX_RELAX = ["-Wno-old-style-cast"]  # verification/CMakeLists.txt: C headers in C++ tests

CONTROL = {"files": {"ctl/Ctl.1.0.dsdl": "uint8 a\n@sealed\n"}, "roots": ["ctl"], "lookup": {}}

C_STD_HEADERS = """assert.h complex.h ctype.h errno.h fenv.h float.h inttypes.h iso646.h limits.h locale.h math.h setjmp.h
signal.h stdalign.h stdarg.h stdatomic.h stdbool.h stddef.h stdint.h stdio.h stdlib.h stdnoreturn.h string.h tgmath.h
threads.h time.h uchar.h wchar.h wctype.h""".split()
CXX_STD_HEADERS = """algorithm any array atomic barrier bit bitset charconv chrono codecvt compare complex concepts
condition_variable coroutine deque exception execution filesystem format forward_list fstream functional future
initializer_list iomanip ios iosfwd iostream istream iterator latch limits list locale map memory memory_resource mutex
new numbers numeric optional ostream queue random ranges ratio regex scoped_allocator semaphore set shared_mutex
source_location span sstream stack stdexcept stop_token streambuf string string_view strstream syncstream system_error
thread tuple type_traits typeindex typeinfo unordered_map unordered_set utility valarray variant vector version
cassert ccomplex cctype cerrno cfenv cfloat cinttypes ciso646 climits clocale cmath csetjmp csignal cstdalign cstdarg
cstdbool cstddef cstdint cstdio cstdlib cstring ctgmath ctime cuchar cwchar cwctype""".split()
PY_RUNTIME_DEPS = {"numpy", "pydsdl"}

INCLUDE_RE = re.compile(r'^[ \t]*#[ \t]*include[ \t]*([<"])([^>"\n]+)[>"]', re.M)
DIAG_RE = re.compile(r"^(?P<file>[^:\n]+):(?P<line>\d+):(?:(?P<col>\d+):)? (?P<sev>fatal error|error|warning): (?P<msg>.*)$")

MARKERS = {
    "c": {
        "c_bitpacked_member": r"_bitpacked_",
        "c_extern_c": r'extern "C"',
        "c_option_static_assert": r"NUNAVUT_SUPPORT_LANGUAGE_OPTION_",
        "c_union_tag": r"_tag_",
        "c_stdbool": r"#include <stdbool\.h>",
        "c_string_h": r"#include <string\.h>",
        "c_service": r"_Request_",
        "c_deprecated_banner": r"this data type is deprecated",
        "c_float_cast_constant": r"\(\(double\) ",
        "c_cross_root_include": r"#include <dep/",
    },
    "cpp": {
        "cpp_variant": r"std::variant|VariantType",
        "cpp_deprecated_attr": r"\[\[deprecated",
        "cpp_pmr": r"std::pmr::polymorphic_allocator",
        "cpp_cetl": r"cetl::",
        "cpp_bitset": r"std::bitset",
        "cpp_vector": r"std::vector",
        "cpp_doc_comment": r"^\s*/// ",
        "cpp_service": r"struct Request|Request_",
        "cpp_namespace": r"^namespace ",
        "cpp_option_static_assert": r"nunavut::support::options::",
        "cpp_cross_root_include": r'#include "dep/',
    },
    "py": {
        "py_warnings_import": r"import warnings as _warnings_",
        "py_namespace_import": r"^import reg",
        "py_union": r"_init_cnt_",
        "py_service": r"class Request",
        "py_cross_root_import": r"^import dep",
        "py_minor_alias": r"^\w+_\d+ = \w+_\d+_\d+",
    },
}


# ------------------------------------------------------------------------------------------------ configuration space
class Cfg(typing.NamedTuple):
    lang: str
    std: str  # "" for c / py
    ser: str  # on | omit

    @property
    def key(self) -> str:
        return f"{self.lang}|{self.std}|{self.ser}"


def all_cfgs() -> typing.List[Cfg]:
    out = [Cfg("c", "", s) for s in SERS]
    out += [Cfg("cpp", std, s) for std in CPP_STDS + [CETL] for s in SERS]
    out += [Cfg("py", "", s) for s in SERS]
    return out


CORE_CFGS = {Cfg("c", "", "on").key, Cfg("cpp", "c++14", "on").key, Cfg("py", "", "on").key}


def compile_modes(cfg: Cfg, thorough: bool) -> typing.List[typing.Tuple[str, str, typing.List[str]]]:
    """[(kind, compiler label, argv prefix)] for one generated header of configuration cfg."""
    cc = gen.STRICT_COMMON
    cxx = gen.STRICT_COMMON + gen.STRICT_CXX
    if cfg.lang == "c":
        m = [
            ("c_compile", "gcc", ["gcc", "-std=c11", "-fsyntax-only"] + cc + NO_STRINGOP + ["-x", "c"]),
            ("c_in_cxx_compile", "gcc", ["g++", "-std=c++14", "-fsyntax-only"] + cxx + C_IN_CXX_RELAX + ["-x", "c++"]),
        ]
        if thorough:
            m += [
                ("c_compile", "clang", ["clang", "-std=c11", "-fsyntax-only"] + cc + ["-x", "c"]),
                ("c_in_cxx_compile", "clang", ["clang++", "-std=c++14", "-fsyntax-only"] + CLANG_LIMITS + cc + ["-x", "c++"]),
            ]
        return m
    if cfg.lang == "cpp":
        if cfg.std == CETL:
            return []
        flag = "-std=" + cfg.std.replace("-pmr", "")
        m = [("cpp_compile", "gcc", ["g++", flag, "-fsyntax-only"] + cxx + ["-x", "c++"])]
        if thorough:
            m.append(("cpp_compile", "clang", ["clang++", flag, "-fsyntax-only"] + CLANG_LIMITS + cxx + ["-x", "c++"]))
        return m
    return []


# ------------------------------------------------------------------------------------------------ evaluation
class Failure(typing.NamedTuple):
    kind: str  # generation | c_compile | c_in_cxx_compile | cpp_compile | py_syntax | py_import | dangling_reference
    compiler: str  # gcc | clang | python | -
    klass: str  # normalised diagnostic class
    file: str  # generated file (relative to the output directory)
    diag: str  # first raw diagnostic line


def norm_msg(msg: str) -> str:
    msg = re.sub(r"'[^']*'", "'_'", msg)
    msg = re.sub(r'"[^"]*"', '"_"', msg)
    msg = re.sub(r"\d+", "N", msg)
    return msg.strip()[:160]


def parse_diags(output: str) -> typing.List[typing.Tuple[str, str]]:
    """[(normalised class, raw line)] of a compiler output; falls back to the whole text if nothing parses."""
    out = []
    for line in output.splitlines():
        m = DIAG_RE.match(line)
        if m:
            out.append((f"{m.group('sev')}: {norm_msg(m.group('msg'))}", line.strip()))
    if not out and output.strip():
        first = output.strip().splitlines()[0]
        out.append((norm_msg(first), first))
    return out


_ENV_CC = dict(os.environ, LC_ALL="C", LANG="C")


def _run(cmd: typing.List[str], stdin: typing.Optional[str] = None, env: typing.Optional[dict] = None, timeout: int = 900) -> typing.Tuple[int, str]:
    try:
        p = subprocess.run(
            cmd, input=stdin, stdout=subprocess.PIPE, stderr=subprocess.STDOUT, encoding="utf-8", errors="replace", env=env, timeout=timeout, check=False
        )
    except FileNotFoundError as e:
        raise HarnessError(f"tool missing: {cmd[0]}: {e}") from e
    except subprocess.TimeoutExpired as e:
        raise HarnessError(f"timeout running {' '.join(cmd[:4])} ...") from e
    return p.returncode, p.stdout


class Evaluation:
    def __init__(self) -> None:
        self.failures: typing.List[Failure] = []
        self.evals = 0
        self.files: typing.List[typing.Tuple[str, str]] = []  # (relative path, sha256[:16])
        self.outcomes: typing.Set[str] = set()
        self.markers: typing.Set[str] = set()
        self.externals: typing.Set[str] = set()
        self.notes: typing.Set[str] = set()

    def classes(self) -> typing.Set[str]:
        return {f"{f.kind}|{f.klass}" for f in self.failures}


def _module_name(rel: pathlib.Path) -> str:
    parts = list(rel.with_suffix("").parts)
    if parts[-1] == "__init__":
        parts = parts[:-1]
    return ".".join(parts)


def _py_resolves(out: pathlib.Path, dotted: str) -> bool:
    p = out.joinpath(*dotted.split("."))
    return p.with_suffix(".py").is_file() or (p / "__init__.py").is_file()


def _closure_c(out: pathlib.Path, rel: str, text: str, cfg: Cfg, ev: Evaluation) -> None:
    std = set(C_STD_HEADERS) | (set(CXX_STD_HEADERS) if cfg.lang == "cpp" else set())
    for _, inc in INCLUDE_RE.findall(text):
        if (out / inc).is_file():
            continue
        if inc in std:
            continue
        if cfg.std == CETL and inc.startswith("cetl/"):
            ev.externals.add(inc)
            continue
        ev.failures.append(
            Failure("dangling_reference", "-", f"include of a file the run did not produce: {norm_msg(_include_class(inc))}", rel, f'{rel}: #include "{inc}" names no generated file and no standard header')
        )


def _include_class(inc: str) -> str:
    return "support header" if "nunavut/support" in inc else "type header"


def _closure_py(out: pathlib.Path, rel: str, text: str, ev: Evaluation) -> None:
    try:
        tree = ast.parse(text)
    except SyntaxError:
        return  # reported by py_syntax
    stdlib = set(getattr(sys, "stdlib_module_names", ()))
    pkg = list(pathlib.Path(rel).with_suffix("").parts[:-1])

    def imports(nodes: typing.Iterable[ast.AST], lazy: bool) -> typing.Iterator[typing.Tuple[ast.AST, bool]]:
        # imports executed when the module is imported (module level, incl. if/try/with/class bodies) vs. lazy ones
        for node in nodes:
            if isinstance(node, (ast.Import, ast.ImportFrom)):
                yield node, lazy
            elif isinstance(node, (ast.FunctionDef, ast.AsyncFunctionDef, ast.Lambda)):
                yield from imports(ast.iter_child_nodes(node), True)
            else:
                yield from imports(ast.iter_child_nodes(node), lazy)

    for node, lazy in imports(ast.iter_child_nodes(tree), False):
        names: typing.List[str] = []
        if isinstance(node, ast.Import):
            names = [a.name for a in node.names]
        elif isinstance(node, ast.ImportFrom):
            if node.level:
                base = pkg[: len(pkg) - (node.level - 1)]
                names = [".".join(base + ([node.module] if node.module else []))]
            else:
                names = [node.module or ""]
        for n in names:
            top = n.split(".")[0]
            if top in PY_RUNTIME_DEPS or (top in stdlib and not (out / top).exists()):
                continue
            if _py_resolves(out, n):
                continue
            if lazy:
                ev.externals.add(f"lazy import inside a function body: {n} ({pathlib.Path(rel).name})")
                continue
            what = "nunavut_support" if top == "nunavut_support" else "type module"
            ev.failures.append(
                Failure("dangling_reference", "-", f"import of a module the run did not produce: {what}", rel, f"{rel}: import {n} names no generated module")
            )


class _MemCache:
    """In-memory Jinja bytecode cache (one per configuration and worker). Compiling the templates is ~85 % of a
    generator run and the same for every case; the cache only skips that step (self-checked against uncached runs
    by _selfcheck_cache at the start of every run)."""

    _cls: typing.Optional[type] = None

    @classmethod
    def make(cls) -> typing.Any:
        if cls._cls is None:
            from nunavut.jinja.jinja2.bccache import BytecodeCache

            class Mem(BytecodeCache):  # type: ignore
                def __init__(self) -> None:
                    self.store: typing.Dict[str, bytes] = {}

                def load_bytecode(self, bucket: typing.Any) -> None:
                    b = self.store.get(bucket.key)
                    if b is not None:
                        bucket.bytecode_from_string(b)

                def dump_bytecode(self, bucket: typing.Any) -> None:
                    self.store[bucket.key] = bucket.bytecode_to_string()

            cls._cls = Mem
        return cls._cls()


_BCC: typing.Dict[str, typing.Any] = {}


def generate_root(cfg: Cfg, root_dir: pathlib.Path, out: pathlib.Path, types: list, support: bool, use_cache: bool = True) -> None:
    """What nunavut.generate_types / the CLI do for one root namespace (see vf.gen.generate)."""
    from nunavut import build_namespace_tree
    from nunavut._generators import create_default_generators

    lctx = gen.language_context(cfg.lang, {"std": cfg.std} if cfg.lang == "cpp" else None)
    ns = build_namespace_tree(types, str(root_dir), str(out), lctx)
    g, sg = create_default_generators(ns)
    if use_cache:
        cache = _BCC.setdefault(cfg.key, _MemCache.make())
        g._env.bytecode_cache = cache  # pylint: disable=protected-access
        sg._env.bytecode_cache = cache  # pylint: disable=protected-access
    omit = cfg.ser == "omit"
    if support:
        list(sg.generate_all(False, True, omit, False))
    list(g.generate_all(False, True, omit, False))


def evaluate(
    work: pathlib.Path,
    nss: typing.Mapping[str, typing.Any],
    cfg: Cfg,
    thorough: bool,
    use_cache: bool = True,
    only: typing.Optional[typing.Set[typing.Tuple[str, str]]] = None,
) -> Evaluation:
    """Generate the namespace set `nss` for configuration `cfg` into a fresh directory and judge every generated file."""
    ev = Evaluation()
    shutil.rmtree(work, ignore_errors=True)
    src, out = work / "dsdl", work / "out"
    nsspace.write_files(src, nss["files"])
    out.mkdir(parents=True)
    import pydsdl

    gen.reset_process_state()
    first = True
    for root in nss["roots"]:
        try:
            types = gen.read_types(src / root, [src / o for o in nss["lookup"].get(root, [])])
        except pydsdl.FrontendError as e:
            raise _Rejected(f"{type(e).__name__}: {e}") from e
        try:
            with warnings.catch_warnings():
                warnings.simplefilter("ignore")
                generate_root(cfg, src / root, out, types, first, use_cache)
        except Exception as e:  # pylint: disable=broad-except
            ev.evals += 1
            ev.failures.append(Failure("generation", "-", f"{type(e).__name__}: {norm_msg(str(e))}", root, f"generating root {root!r}: {type(e).__name__}: {str(e)[:300]}"))
            ev.outcomes.add("generation:exception")
            return ev
        first = False
    ev.evals += 1
    ev.outcomes.add("generation:ok")
    ext = {"c": ".h", "cpp": ".hpp", "py": ".py"}[cfg.lang]
    rels = sorted(str(p.relative_to(out)) for p in out.rglob("*") if p.is_file())
    stray = [r for r in rels if not r.endswith(ext)]
    if stray:
        raise HarnessError(f"unexpected generated file(s) {stray[:3]} for {cfg}")
    modes = [m for m in compile_modes(cfg, thorough) if only is None or (m[0], m[1]) in only]
    env_py = {k: v for k, v in os.environ.items() if k not in ("PYTHONPATH",)}
    env_py.update(PYTHONPATH=f"{out}:{DEPS}", OPENBLAS_NUM_THREADS="1", OMP_NUM_THREADS="1", PYTHONDONTWRITEBYTECODE="1", PYTHONHASHSEED="0")
    for rel in rels:
        text = (out / rel).read_text(encoding="utf-8")
        ev.files.append((rel, hashlib.sha256(text.encode()).hexdigest()[:16]))
        for name, pat in MARKERS[cfg.lang].items():
            if name not in ev.markers and re.search(pat, text, re.M):
                ev.markers.add(name)
        if cfg.lang in ("c", "cpp"):
            _closure_c(out, rel, text, cfg, ev)
            for kind, comp, argv in modes:
                rc, o = _run(argv + ["-I", str(out), "-"], stdin=f'#include "{rel}"\n', env=_ENV_CC)
                ev.evals += 1
                if rc == 0 and not o.strip():
                    ev.outcomes.add(f"{kind}:{comp}:clean")
                    continue
                ev.outcomes.add(f"{kind}:{comp}:diagnostics")
                o = o.replace(str(out) + "/", "")
                seen = set()
                for klass, raw in parse_diags(o) or [("exit status without diagnostics", f"exit {rc}")]:
                    if klass not in seen:
                        seen.add(klass)
                        ev.failures.append(Failure(kind, comp, klass, rel, raw))
            if cfg.lang == "c" and nss.get("probe_macros"):
                _macro_use_statistic(out, rel, text, ev)
        else:
            _closure_py(out, rel, text, ev)
            ev.evals += 1
            try:
                with warnings.catch_warnings():
                    warnings.simplefilter("error")
                    compile(text, rel, "exec", dont_inherit=True)
                ev.outcomes.add("py_syntax:clean")
            except (SyntaxError, Warning, ValueError) as e:
                ev.outcomes.add("py_syntax:diagnostics")
                ev.failures.append(Failure("py_syntax", "python", f"{type(e).__name__}: {norm_msg(str(e))}", rel, f"{rel}: {type(e).__name__}: {e}"))
                continue
            mod = _module_name(pathlib.Path(rel))
            if rel.endswith("__init__.py") and any(
                r != rel and pathlib.Path(r).parent == pathlib.Path(rel).parent and not r.endswith("__init__.py") for r in rels
            ):
                # importing any module of the package in a fresh interpreter executes this very file first
                ev.outcomes.add("py_import:package_covered_by_member_import")
                continue
            rc, o = _run([PYTHON, "-W", "error", "-c", "import importlib,sys; importlib.import_module(sys.argv[1])", mod], env=env_py)
            ev.evals += 1
            if rc == 0 and not o.strip():
                ev.outcomes.add("py_import:clean")
            else:
                ev.outcomes.add("py_import:diagnostics")
                o = o.replace(str(out) + "/", "")
                last = (o.strip().splitlines() or [f"exit {rc}"])[-1]
                ev.failures.append(Failure("py_import", "python", norm_msg(last), rel, f"import {mod}: {last[:300]}"))
    return ev


OBJ_MACRO_RE = re.compile(r"^#define[ \t]+(\w+)[ \t]+\((.+)\)[ \t]*$", re.M)


def _macro_use_statistic(out: pathlib.Path, rel: str, text: str, ev: Evaluation) -> None:
    """STATISTIC ONLY (the statement is about the header compiling on its own, which an unused #define never
    prevents): expand every parenthesised object-like macro the header defines and record what the compiler says."""
    names = [m.group(1) for m in OBJ_MACRO_RE.finditer(text)]
    if not names:
        return
    body = "".join(f"    (void) ({n});\n" for n in names)
    tu = f'#include "{rel}"\nvoid c06_use_(void);\nvoid c06_use_(void)\n{{\n{body}}}\n'
    rc, o = _run(["gcc", "-std=c11", "-fsyntax-only"] + gen.STRICT_COMMON + NO_STRINGOP + ["-x", "c", "-I", str(out), "-"], stdin=tu, env=_ENV_CC)
    ev.notes.add(f"c_constant_macros_expanded:{'clean' if rc == 0 and not o.strip() else 'diagnostics'}")
    for klass, _ in parse_diags(o):
        ev.notes.add(f"c_constant_macro_use: {klass}")


SELFCHECK = {
    "files": {
        "sc/A.1.0.dsdl": "uint8 K = 7\nuint8 a\nbool[3] b\nfloat32[<=2] c\n@sealed\n",
        "sc/U.1.0.dsdl": "@union\nsc.A.1.0 a\nuint16[2] b\n@extent 1024\n",
        "sc/D.1.0.dsdl": "@deprecated\nsc.U.1.0[<=2] u\n@extent 8192\n",
        "sc/n/S.1.0.dsdl": "sc.A.1.0 a\n@sealed\n---\nsc.U.1.0 u\n@sealed\n",
        "sc/E.1.0.dsdl": "@sealed\n",
    },
    "roots": ["sc"],
    "lookup": {},
}
_PICKLE_LINE = re.compile(r"^\s*'[0-9A-Za-z!#$%&()*+\-;<=>?@^_`{|}~]{1,100}'\s*$")


def _selfcheck_cache(cfg_t: typing.Tuple[str, str, str]) -> typing.Optional[str]:
    """The Jinja bytecode cache must not change a single generated byte: uncached vs cold cache vs warm cache."""
    cfg = Cfg(*cfg_t)
    work = pathlib.Path(_SCRATCH) / f"sc{os.getpid()}"
    shutil.rmtree(work, ignore_errors=True)
    src = work / "dsdl"
    nsspace.write_files(src, SELFCHECK["files"])
    types = gen.read_types(src / "sc", [])
    snaps = []
    _BCC.pop(cfg.key, None)
    try:
        for tag, cached in (("plain", False), ("cold", True), ("warm", True)):
            gen.reset_process_state()
            out = work / tag
            out.mkdir()
            generate_root(cfg, src / "sc", out, types, True, cached)
            snap = {}
            for f in sorted(out.rglob("*")):
                if f.is_file():
                    text = f.read_text(encoding="utf-8")
                    if cfg.lang == "py":  # wall clock in the output (gzip mtime of the pickled model, timestamp): C07's subject
                        text = "\n".join(ln for ln in text.splitlines() if not _PICKLE_LINE.match(ln) and not ln.startswith("# Generated at:"))
                    snap[str(f.relative_to(out))] = text
            snaps.append(snap)
    finally:
        shutil.rmtree(work, ignore_errors=True)
    if not snaps[0] or snaps[0] != snaps[1] or snaps[0] != snaps[2]:
        return f"{cfg.key}: generated text differs with the template bytecode cache ({len(snaps[0])} files)"
    return None


class _Rejected(Exception):
    """PyDSDL does not accept the (reduced) namespace set: it is out of scope, not a failure."""


# ------------------------------------------------------------------------------------------------ attribution
_CONTROL_CACHE: typing.Dict[str, typing.Set[str]] = {}


def control_classes(work: pathlib.Path, cfg: Cfg, thorough: bool) -> typing.Tuple[typing.Set[str], typing.Optional[Evaluation]]:
    key = f"{cfg.key}|{thorough}"
    if key in _CONTROL_CACHE:
        return _CONTROL_CACHE[key], None
    ev = evaluate(work / "control", CONTROL, cfg, thorough)
    _CONTROL_CACHE[key] = ev.classes()
    return _CONTROL_CACHE[key], ev


class Finding(typing.NamedTuple):
    cid: str
    kind: str
    feature: str
    origin: str
    name: str
    cfg: Cfg
    compiler: str
    case: dict
    what: str


def _pick(ev: Evaluation, exclude: typing.Set[str]) -> typing.List[Failure]:
    """One representative failure per (kind, compiler) among the failures whose class is not in `exclude`."""
    out: typing.Dict[typing.Tuple[str, str], Failure] = {}
    for f in ev.failures:
        if f"{f.kind}|{f.klass}" in exclude:
            continue
        out.setdefault((f.kind, f.compiler), f)
    return list(out.values())


def _family(cid: str) -> str:
    head, _, tail = cid.rpartition(".")
    return head if tail.isdigit() else cid


def ddmin(items: typing.List[int], test: typing.Callable[[typing.List[int]], bool]) -> typing.List[int]:
    """Classic delta debugging to a 1-minimal failing subset (test(s) is True when s still fails)."""
    n = 2
    while len(items) >= 2:
        chunk = -(-len(items) // n)
        subsets = [items[k : k + chunk] for k in range(0, len(items), chunk)]
        nxt: typing.Optional[typing.List[int]] = None
        for sub in subsets:
            if test(sub):
                nxt, n = sub, 2
                break
        if nxt is None and len(subsets) > 2:
            for sub in subsets:
                comp = [x for x in items if x not in sub]
                if test(comp):
                    nxt, n = comp, max(n - 1, 2)
                    break
        if nxt is not None:
            items = nxt
            continue
        if n >= len(items):
            break
        n = min(len(items), 2 * n)
    return items


BISECT_CAP = 160  # evaluations per failing (case, configuration)


def attribute(
    work: pathlib.Path, case: nsspace.Case, cfg: Cfg, thorough: bool, full: Evaluation, budget: typing.List[int], res: dict
) -> typing.List[Finding]:
    """Name the input feature behind every failure class of `full` that the control type does not show."""
    findings: typing.List[Finding] = []
    members = case.get("members", [])
    cid = case["id"]

    def extra(nss: dict) -> dict:
        return dict(nss, lang=cfg.lang, std=cfg.std, ser=cfg.ser, thorough=thorough)

    def mk(owner: str, ev: Evaluation, exclude: typing.Set[str], feature: str, origin: str, nss: dict, name: str = "") -> None:
        for f in _pick(ev, exclude):
            findings.append(Finding(owner, f.kind, feature, origin, name, cfg, f.compiler, dict(extra(nss), file=f.file, kind=f.kind, compiler=f.compiler), f.diag))

    ctl, ctl_ev = control_classes(work, cfg, thorough)
    if ctl_ev is not None:
        res["explored"].append(("control", cfg))
        if ctl_ev.failures:
            mk("control", ctl_ev, set(), "any_type", "control", dict(CONTROL))
    base = set(ctl)

    memo: typing.Dict[typing.Tuple[int, ...], typing.Optional[Evaluation]] = {}
    # bisection only re-runs the compilers that complained about the whole case (all of them for Python / generation)
    failing_modes = {(f.kind, f.compiler) for f in full.failures if f.kind.endswith("_compile")} or None
    if failing_modes is not None and any(not f.kind.endswith("_compile") for f in full.failures):
        failing_modes = None

    def run(keep: typing.List[int]) -> typing.Optional[Evaluation]:
        key = tuple(sorted(keep))
        if key not in memo:
            budget[0] += 1
            try:
                memo[key] = evaluate(work / "bisect", nsspace.assemble(case, keep), cfg, thorough, only=failing_modes)
            except _Rejected:
                memo[key] = None  # the reduced namespace is not valid DSDL: out of scope
        return memo[key]

    def fails(keep: typing.List[int]) -> bool:
        if budget[0] >= BISECT_CAP and tuple(sorted(keep)) not in memo:
            return False
        ev = run(keep)
        return ev is not None and bool(ev.classes() - base)

    def give_up(rest: typing.List[int], why: str) -> None:
        res["caps"].append(f"bisection of {cid} [{cfg.key}] stopped after {budget[0]} evaluations: {why}")
        findings.append(Finding(cid, "unattributed", f"batch:{cid}", "batch", "", cfg, "-", extra(nsspace.assemble(case, rest)), why))

    if full.classes() <= base:
        return findings
    empty = nsspace.assemble(case, [])
    if empty["files"]:
        ev0 = run([])
        if ev0 is not None and ev0.classes() - base:
            mk(cid, ev0, base, f"skeleton:{_family(cid)}", "skeleton", empty)
            base |= ev0.classes()
    if full.classes() <= base:
        return findings

    found: typing.List[typing.List[int]] = []

    def explore(group: typing.List[int]) -> None:
        """`group` is known to fail: split it until single members or an irreducible interaction remain."""
        if len(group) == 1:
            found.append(group)
            return
        half = len(group) // 2
        a, b = group[:half], group[half:]
        fa, fb = fails(a), fails(b)
        if fa:
            explore(a)
        if fb:
            explore(b)
        if not fa and not fb:
            found.append(ddmin(list(group), fails))

    rest = list(range(len(members)))
    memo[tuple(rest)] = full
    for _ in range(4):
        if not rest or not fails(rest):
            break
        before = len(found)
        explore(rest)
        gone = {i for grp in found[before:] for i in grp}
        if not gone:
            break
        rest = [i for i in rest if i not in gone]
    else:
        if rest and fails(rest):
            give_up(rest, "members still failing after 4 rounds of attribution")
    if budget[0] >= BISECT_CAP:
        give_up(rest, f"cap of {BISECT_CAP} evaluations reached")
    for grp in found:
        ev = run(grp)
        if ev is None or not (ev.classes() - base):
            give_up(grp, "member set did not fail again on its own")
            continue
        if len(grp) == 1:
            m = members[grp[0]]
            mk(cid, ev, base, m.get("feature", m["label"]), m.get("origin", "?"), nsspace.assemble(case, grp, prune=True), m.get("name", ""))
        else:
            mk(cid, ev, base, "+".join(members[i]["label"] for i in grp), "interaction", nsspace.assemble(case, grp, prune=True))
    if not found and not any(f.cid == cid for f in findings):
        give_up(list(range(len(members))), "no member set reproduces the failure of the whole case")
    return findings


# ------------------------------------------------------------------------------------------------ worker
_CASES: typing.List[nsspace.Case] = []
_SCRATCH = ""
_THOROUGH = False


def _work(item: typing.Tuple[int, typing.List[typing.Tuple[str, str, str]]]) -> dict:
    idx, cfgs = item
    case = _CASES[idx]
    work = pathlib.Path(_SCRATCH) / f"w{os.getpid()}"
    res = dict(evals=0, findings=[], files=set(), outcomes=set(), markers=set(), externals=set(), notes=set(), units=0, bisect_runs=0, explored=[], failing_units=0, headers=0, caps=[])
    t0 = os.times()
    nss = nsspace.assemble(case)
    if case["id"].startswith("L5.constants"):
        nss["probe_macros"] = True
    for c in cfgs:
        cfg = Cfg(*c)
        try:
            ev = evaluate(work / "full", nss, cfg, _THOROUGH)
        except _Rejected as e:
            raise HarnessError(f"PyDSDL rejects case {case['id']}: {e}") from e
        res["units"] += 1
        res["evals"] += ev.evals
        res["headers"] += len(ev.files)
        res["files"].update(h for _, h in ev.files)
        res["outcomes"] |= ev.outcomes
        res["markers"] |= ev.markers
        res["externals"] |= ev.externals
        res["notes"] |= ev.notes
        res["explored"].append((case["id"], cfg))
        if ev.failures:
            res["failing_units"] += 1
            budget = [0]
            res["findings"] += attribute(work, case, cfg, _THOROUGH, ev, budget, res)
            res["bisect_runs"] += budget[0]
    shutil.rmtree(work, ignore_errors=True)
    t1 = os.times()
    res["cpu"] = sum(t1[:4]) - sum(t0[:4])
    res["lang"] = cfgs[0][0]
    return res


def _recheck(f: Finding) -> typing.Tuple[bool, str]:
    """Re-executes a finding from its minimal recorded case (ground rule: a divergence is a harness error)."""
    work = pathlib.Path(_SCRATCH) / f"r{os.getpid()}"
    try:
        fs = _replay_failures(work, f.case)
    finally:
        shutil.rmtree(work, ignore_errors=True)
    return (bool(fs) or f.kind == "unattributed"), ",".join(sorted({x.kind for x in fs}))


def _replay_failures(work: pathlib.Path, case: dict, verbose: bool = False) -> typing.List[Failure]:
    """Failures of the recorded kind in the recorded generated file (all failures if the case records neither)."""
    cfg = Cfg(case["lang"], case.get("std", ""), case["ser"])
    ev = evaluate(work / "replay", case, cfg, bool(case.get("thorough", False)))
    want_kind, want_file = case.get("kind"), case.get("file")
    hits = [f for f in ev.failures if (not want_kind or f.kind == want_kind) and (not want_file or f.file == want_file or f.kind == "generation")]
    if verbose:
        for f in ev.failures:
            print(f"  {'*' if f in hits else ' '} [{f.kind}/{f.compiler}] {f.diag}")
    return hits


# ------------------------------------------------------------------------------------------------ entry points
def run(ctx: Ctx) -> int:
    global _CASES, _SCRATCH, _THOROUGH  # pylint: disable=global-statement
    for tool in ["gcc", "g++"] + (["clang", "clang++"] if ctx.thorough else []):
        if shutil.which(tool) is None:
            raise HarnessError(f"compiler {tool} not found")
    cases, info = nsspace.build(ctx.scratch, ctx.pool_map, validate=False)
    _CASES, _SCRATCH, _THOROUGH = cases, str(ctx.scratch), ctx.thorough
    cfgs = all_cfgs()
    items: typing.List[typing.Tuple[int, typing.List[typing.Tuple[str, str, str]]]] = []
    space = 0
    only = os.environ.get("VERIF_ONLY_CASES")  # debugging aid: regex on the case id (evidence then reports exhaustive=False via a cap)
    if only:
        ctx.cap(f"VERIF_ONLY_CASES={only}")
    for i, c in enumerate(cases):
        if only and not re.search(only, c["id"]):
            continue
        per_lang: typing.Dict[typing.Tuple[str, str], typing.List[typing.Tuple[str, str, str]]] = {}
        for cfg in cfgs:
            if cfg.lang not in c.get("langs", ["c", "cpp", "py"]):
                continue
            space += 1
            if ctx.thorough or (cfg.key in CORE_CFGS and c.get("quick_core", True)) or c.get("core_all") or cfg.key in c.get("core_cfgs", ()) or ctx.in_slice(f"{c['id']}|{cfg.key}"):
                per_lang.setdefault((cfg.lang, cfg.std), []).append(tuple(cfg))
        items += [(i, v) for v in per_lang.values()]
    used = sorted({c for _, v in items for c in v})
    bad = [e for e in ctx.pool_map(_selfcheck_cache, used) if e]
    if bad:
        raise HarnessError("template bytecode cache changes the output: " + "; ".join(bad))
    # heavy items first (C++ with many headers), deterministic
    weight = {"cpp": 8, "py": 4, "c": 2}
    items.sort(key=lambda it: (-weight[it[1][0][0]] * len(it[1]) * (1 + len(cases[it[0]].get("members", []))), it[0], it[1]))
    results = ctx.pool_map(_work, items)

    findings: typing.List[Finding] = []
    explored: typing.Dict[typing.Tuple[str, str, str], typing.Set[str]] = {}
    files: typing.Set[str] = set()
    outcomes: typing.Set[str] = set()
    markers: typing.Set[str] = set()
    externals: typing.Set[str] = set()
    notes: typing.Set[str] = set()
    cpu_by_lang: typing.Dict[str, float] = {}
    tot = dict(evals=0, units=0, bisect_runs=0, failing_units=0, headers=0, cpu=0.0)
    for r in results:
        findings += r["findings"]
        files |= r["files"]
        outcomes |= r["outcomes"]
        markers |= r["markers"]
        externals |= r["externals"]
        notes |= r["notes"]
        for k in tot:
            tot[k] += r[k]
        for c in r["caps"]:
            ctx.cap(c)
        cpu_by_lang[r["lang"]] = round(cpu_by_lang.get(r["lang"], 0.0) + r["cpu"], 1)
        for cid, cfg in r["explored"]:
            explored.setdefault((cid, cfg.lang, cfg.ser), set()).add(cfg.std)

    # ---- aggregate: one signature per (kind, feature, ser); std / compiler named only when not all explored ones fail
    groups: typing.Dict[typing.Tuple[str, str, str, str], typing.List[Finding]] = {}
    for f in findings:
        groups.setdefault((f.kind, f.feature, f.origin, f.cfg.ser), []).append(f)
    compilers_explored = {"gcc", "clang"} if ctx.thorough else {"gcc"}
    reps: typing.List[typing.Tuple[dict, Finding, int, typing.List[str]]] = []
    for (kind, feature, origin, ser), fs in sorted(groups.items()):
        sig = {"kind": kind, "feature": feature, "origin": origin, "ser": ser}
        stds = {f.cfg.std for f in fs}
        if fs[0].cfg.lang == "cpp":
            exp: typing.Set[str] = set()
            for owner in {f.cid for f in fs}:
                exp |= explored.get((owner, "cpp", ser), set())
            if kind == "cpp_compile":
                exp.discard(CETL)  # generated, never compiled
            if stds != exp:
                sig["std"] = ",".join(sorted(stds))
        comps = {f.compiler for f in fs} - {"-", "python"}
        if comps and comps != compilers_explored:
            sig["compiler"] = ",".join(sorted(comps))
        rep = min(fs, key=lambda f: (f.compiler != "gcc", len(str(f.case)), f.cfg.std, f.name))
        names = sorted({f.name for f in fs if f.name})
        wflags = {m.group(1).split(",")[-1] for f in fs for m in [re.search(r"\[(-W[^\]]+)\]", f.what)] if m}
        if len(wflags) == 1 and all(re.search(r"\[(-W[^\]]+)\]", f.what) for f in fs):
            sig["diag"] = wflags.pop()  # the one warning class every member of the group fails with
        reps.append((sig, rep, len(names) or 1, names))
    checks = ctx.pool_map(_recheck, [rep for _, rep, _, _ in reps])
    by_feature: typing.Dict[str, typing.List[str]] = {}
    for (sig, rep, n, names), (ok, kinds) in zip(reps, checks):
        if not ok:
            raise HarnessError(f"violation {sig} did not reproduce from its minimal case (kinds now: {kinds or 'none'})")
        where = f"{rep.cfg.lang}{('/' + rep.cfg.std) if rep.cfg.std else ''}, serialization {'omitted' if rep.cfg.ser == 'omit' else 'enabled'}"
        shown = (" names: " + ", ".join(names[:8]) + (f" (+{len(names) - 8} more)" if len(names) > 8 else "")) if names else ""
        ctx.violation(sig, rep.case, f"{sig['kind']} [{where}] {sig['feature']} ({sig['origin']}){shown}: {rep.what[:200]}", n)
        if names:
            by_feature[f"{sig['kind']}|{sig['feature']}|{sig['origin']}|{sig['ser']}"] = names

    required = {"c_bitpacked_member", "c_extern_c", "c_union_tag", "c_service", "c_cross_root_include", "cpp_variant", "cpp_deprecated_attr", "cpp_doc_comment", "cpp_cross_root_include", "py_warnings_import", "py_union", "py_service", "py_cross_root_import", "py_minor_alias"}
    if ctx.thorough:
        required |= {"cpp_pmr", "cpp_cetl"}
    missing = sorted(required - markers)
    if missing and not only:
        raise HarnessError(f"vacuous exploration: generated text never showed {missing}")
    for k in () if only else ("generation:ok", "c_compile:gcc:clean", "c_in_cxx_compile:gcc:clean", "cpp_compile:gcc:clean", "py_syntax:clean", "py_import:clean"):
        if k not in outcomes:
            raise HarnessError(f"vacuous exploration: outcome {k} never observed")

    ctx.samples = []
    for cid in ("L6.attr.bool_fixed.000", "L5.constants.int.0", "L7.doc.0", "L8.chain", "L6.root.000", "T.nested"):
        for c in cases:
            if c["id"] == cid:
                nss = nsspace.assemble(c)
                rel = sorted(nss["files"])[0]
                ctx.samples.append({"case": cid, "members": len(c.get("members", [])), "roots": nss["roots"][:4], "file": rel, "text": nss["files"][rel][:300]})
    ctx.stats.update(
        alphabet=info["accepted"],
        alphabet_raw=info["alphabet_raw"],
        rejected_by_pydsdl=len(info["rejected_by_pydsdl"]["attr"]),
        patterns_without_accepted_witness=info["patterns_without_accepted_witness"],
        cases=len(cases),
        members=info["members"],
        config_space=space,
        units_explored=tot["units"],
        generated_files_judged=tot["headers"],
        failing_units=tot["failing_units"],
        bisect_evaluations=tot["bisect_runs"],
        cpu_seconds_workers=round(tot["cpu"], 1),
        cpu_seconds_by_language=cpu_by_lang,
        markers=sorted(markers),
        outcomes=sorted(outcomes),
        external_references_not_judged=sorted(externals),
        failing_names=by_feature,
        statistics_not_judged=sorted(notes),
    )
    cov = {
        "evaluations": tot["evals"],
        "distinct_nontrivial": len(files),
        "distinct_outcomes": len(outcomes) + len(markers),
        "rule": "evaluation = one generator run, one compiler run on a one-line TU for one generated header, one compile() or one "
        "fresh-interpreter import of one generated module; distinct non-trivial = distinct generated file contents (sha256) "
        "handed to a compiler/interpreter (every one stems from a namespace case of vf.nsspace; the control type is not counted)",
        "bound_completed": f"{tot['units']}/{space} (case x language x standard x serialization) units over {len(cases)} namespace cases "
        f"({info['members']} members; names: {info['accepted']['attr']} of {info['alphabet_raw']} accepted by PyDSDL x 8 attribute kinds + type + nested + root position); "
        + ("gcc 12 and clang 14" if ctx.thorough else "gcc 12; core = every case (except type/namespace-name batches made of Python builtins only) x {C, C++14, Python} with serialization enabled + all configurations of the core_all cases; + seed slice 1/16 of the rest"),
        "exhaustive": bool(ctx.thorough) and not ctx.caps,
    }
    return ctx.finish(
        "exploration",
        cov,
        [
            "PyDSDL 1.25 decides what a valid input is; gcc 12 / clang 14 / CPython 3.12 with -W error decide what a diagnostic is",
            "project strict set = verification/cmake/compiler_flag_sets/common.cmake; C headers in a C++ TU get -Wno-old-style-cast as in verification/CMakeLists.txt; clang C-in-C++ uses the C flag set only",
            "-fsyntax-only: front-end diagnostics only (no optimiser-dependent warnings)",
            "cetl++14-17 is generated and its include closure checked, never compiled (CETL submodule empty)",
            "root namespaces named like a Python standard-library module are not generated for Python (they shadow the module; DESIGN E2/L6)",
            "names folded by stropping never share a namespace (images computed with the language objects' own filter_id)",
        ],
        min_outcomes=("distinct_outcomes", 20),
    )


def replay(ctx: Ctx, case: dict) -> int:
    global _SCRATCH  # pylint: disable=global-statement
    _SCRATCH = str(ctx.scratch)
    print(f"replaying {case.get('lang')}/{case.get('std') or '-'} serialization={case.get('ser')} files={sorted(case['files'])}")
    try:
        hits = _replay_failures(ctx.scratch / "replay", case, verbose=True)
    except _Rejected as e:
        raise HarnessError(f"PyDSDL rejects the replay case: {e}") from e
    print(f"recorded failure ({case.get('kind', 'any kind')} in {case.get('file', 'any file')}):", "REPRODUCED" if hits else "not observed")
    return 1 if hits else 0


__all__ = ["run", "replay", "Bag"]
