"""
C09 - identifier stropping always yields valid, unreserved, deterministic identifiers (bounded exhaustive exploration).

Driven code: the real ``Language.filter_id(instance, id_type)`` of the c, cpp and py language objects created by a
real ``LanguageContextBuilder`` (with configuration overrides applied through the builder).

Enumerated space (token x id_type x language x configuration):
  * ALL strings of length 1..5 over the 12-symbol alphabet ALPHABET (quick: 1..4 plus the seed-selected 1/16 slice of
    the length-5 strings);
  * every reserved word of every language (configured ``reserved_identifiers`` + Python keywords + builtins) and its
    variants (_w, __w, w_, w__, upper, capitalize, lower, swapcase, w1, 1w, " w", "w ", w[1:] for _w, every configured
    prefix+w+suffix), evaluated on every language;
  * for every configured reserved pattern at least one witness and all its one-edit near-misses (the pool is checked
    against the patterns at run time: a pattern without witness or near-miss is a harness error);
  * all strings of length 1..3 over an "exotic" alphabet (unicode white space, unicode digit, non-ASCII letters, astral
    code point, NUL, lone surrogate, '$', CR, LF) mixed with {a, A, _, 1};
  * id_type in {any, path, macro, typedef, function, enum}; language in {c, cpp, py}; configuration in CONFIGS
    (default; the two alternative prefix/suffix/encoding-prefix sets of the TokenEncoder doctests; enable_stropping
    false; the complete configuration of the TokenEncoder class doctest incl. its reserved identifiers, `var` patterns
    and encoding rule, with the doctest's example tokens added to the token list).

Oracle (written from the *configuration* - properties.yaml parsed here + the override dict + Python's keyword/builtins
lists - never from TokenEncoder): the call either raises or returns a str that
  (1) is a syntactically valid identifier ([A-Za-z_][A-Za-z0-9_]* for c/cpp, str.isidentifier() for py);
  (2) is not a reserved identifier;                                   } only when enable_stropping is true in the
  (3) matches no reserved pattern of category `all`, nor of the       } explored configuration
      requested category (`any` = every category);
  (4) is the same for a cold and a warm lru_cache, on a fresh language object, in two fresh processes with different
      PYTHONHASHSEED, in forward and reverse evaluation order and after cache eviction (exhaustively defined sub-sample:
      all reserved words + all strings of length <= 3);
  (5) equals the input when the input is already valid (syntax ok, no encoding rule matches anywhere, not reserved, no
      applicable reserved pattern matches).

Histories ("the result depends only on the input" - and on the language's configuration - also on long-lived objects
and in a long-lived process):
  (6) refused call ; next call, on ONE language object: for every language x configuration of CONFIGS + HIST_CONFIGS
      (three more configurations in which the stropped form of a reserved word is itself reserved / reserved words cannot
      be stropped at all / the stropped form needs encoding, so that strop refuses in each of its verification stages),
      every call that is refused (raises) among REFUSAL_CANDIDATES x id types is a row; on a fresh object per row the
      history (refused call ; follower)* is driven so that EVERY follower call comes directly after a refusal; followers:
      all strings of length 1..3 over HIST_ALPHABET (letters, '_', digit, blank, '-', non-ASCII: every position of a
      character that needs encoding) + the candidates (incl. the refused token itself), x all id types, for the first
      refused call of every refused token (thorough: of every row); a 35-token list incl. the refused token for the other
      rows. Demanded: the follower's outcome equals the outcome of the same call on an object that never refused anything
      (reference: forked copies of a never-called object, each abandoned at its first raise), and satisfies
      (1)-(3),(5). A difference is re-executed as the 2-step history [refused ; follower] on a fresh object against the
      follower alone on a fresh object before it is reported.
  (7) language X created and used ; language Y created and used, in ONE process: for every ordered pair of
      (language, configuration) nodes (quick: all pairs of the 15 nodes {c, cpp, py} x PAIR_CORE_CONFIGS + the
      seed-selected 1/16 of the remaining pairs; thorough: all 24 x 24), each history runs in its own process forked from a
      freshly started interpreter that has imported nunavut but created nothing; PAIR_TOKENS (every word that some
      configuration reserves and another does not, the doctest tokens, tokens needing encoding) x all id types are
      evaluated on X and then on Y. Demanded: Y's outcomes equal the outcomes of the same node evaluated first in its
      process, and satisfy (1)-(3),(5) for Y's configuration.
"""
from __future__ import annotations

import builtins
import itertools
import json
import keyword
import os
import re
import subprocess
import sys
import typing

from vf.core import REPO, VERIF, Bag, Ctx, HarnessError, stable_hash

ALPHABET = ["a", "A", "E", "t", "_", "1", " ", "\t", "-", "\u00e9", "\u2764", "."]
EXOTIC = ["\u00a0", "\u2028", "\u0663", "\u00aa", "\U0001f600", "\x00", "\ud800", "\u0130", "\u00df", "$", "\n", "\r", "\x1c"]
EXOTIC_MIX = EXOTIC + ["a", "A", "_", "1"]
ID_TYPES = ["any", "path", "macro", "typedef", "function", "enum"]
LANGS = ["c", "cpp", "py"]
# default + the alternative values used by the doctests of nunavut/lang/_common.py (TokenEncoder) + stropping disabled
# the way the doctests of c/__init__.py, cpp/__init__.py and IncludeGenerator.make_path switch it.
CONFIGS: typing.Dict[str, typing.Dict[str, typing.Any]] = {
    "default": {},
    "doc1": {"stropping_prefix": "_pre_", "stropping_suffix": "_post_", "encoding_prefix": "_code_"},
    "doc2": {"stropping_prefix": "_CODE_", "encoding_prefix": "_XX_"},
    "nostrop": {"enable_stropping": False},
    # the complete configuration of the TokenEncoder class doctest, verbatim (dict values merge into the language's own
    # categories, lists replace - the documented layering of LanguageConfig; make_language() verifies that the language
    # object and the harness see the same effective values)
    "doctest": {
        "stropping_prefix": "_pre_",
        "stropping_suffix": "_post_",
        "encoding_prefix": "_code_",
        "reserved_token_patterns_by_type": {"var": ["^reserved[A-Za-z]", "^[A-Z]+", "^(__)|(^(_)[A-Z])"]},
        "reserved_identifiers": ["this_is_reserved", "_pre_reservedToken_post_"],
        "token_encoding_rules_by_identifier_type": {"all": ["(^\\d{1})|([^a-zA-Z0-9_]+)"]},
        "whitespace_encoding_char": "_",
    },
}
# Configurations explored by the history families only (the token space above is not multiplied by them): each makes strop
# refuse (raise) legitimately, in a different verification stage.
HIST_CONFIGS: typing.Dict[str, typing.Dict[str, typing.Any]] = {
    # the stropped forms of a reserved word are reserved themselves (keyword re-check refuses; C/C++: after the handler)
    "resv": {"reserved_identifiers": ["payload", "timestamp", "if", "_if", "__if", "if_", "if__"]},
    # no prefix, no suffix: a reserved word / a pattern match cannot be stropped at all
    "noaffix": {"stropping_prefix": "", "stropping_suffix": ""},
    # the stropped form needs encoding again (the final encoding re-check refuses)
    "encaffix": {"stropping_prefix": "-", "stropping_suffix": "-"},
    # ... and when only the END of the stropped form needs encoding (a re-check anchored at the start misses it)
    "encsuffix": {"stropping_suffix": "-"},
    "encsuffix2": {"stropping_prefix": "", "stropping_suffix": " x"},
}
ALL_CONFIGS: typing.Dict[str, typing.Dict[str, typing.Any]] = {**CONFIGS, **HIST_CONFIGS}
# configurations that must make at least one of REFUSAL_CANDIDATES refuse in every language (vacuity guard)
MUST_REFUSE = ["doctest", "resv", "noaffix", "encaffix"]
REFUSAL_CANDIDATES = [
    "if", "class", "register", "None", "print", "payload", "timestamp", "_if", "__if", "if_", "if__",
    "reservedToken", "this_is_reserved", "_pre_reservedToken_post_", "__x", "_Ax", "1x", "EINVAL", "strlen", "int8_t", "NULL",
]  # fmt: skip
HIST_ALPHABET = ["a", "E", "_", "1", " ", "-", "\u2764"]
HIST_MAX_LEN = 3
HIST_SMALL_ALPHABET = ["a", "_", "1", " ", "-"]
HIST_SMALL_EXTRA = ["a a", "a-a", "a\u2764a", "my value", "E1"]
PAIR_CORE_CONFIGS = ["default", "doc1", "nostrop", "doctest", "resv"]
PAIR_TOKENS = [
    "payload", "timestamp", "if", "_if", "__if", "if_", "if__", "class", "None", "print", "register", "int8_t", "EINVAL",
    "__x", "_Ax", "1x", "a", "A", "_", "a b", "a-b", "a\u2764", " a", "my value", "value",
]  # fmt: skip
PAIR_SHARDS = 6

# the example tokens of that doctest
DOCTEST_TOKENS = ["this_is_not_reserved", "this_is_reserved", "reservedVariableName", "1CantStartWithNumber", "Mem set",
                  "reservedToken", "foobar", "well_crap"]  # fmt: skip
DET_MAX_LEN = 3  # determinism sub-sample: all strings of length <= 3 + all reserved words
CORE_MAX_LEN = 4
FULL_LEN = 5
LIST_SHARD = 1500

# Candidate witnesses for reserved patterns (checked against the *configured* patterns at run time).
WITNESS_POOL = [
    "__x", "_Ax", "_A", "__", "___a", "1x", "1", "_1",
    "isalpha", "toupper", "strlen", "memcpy", "wcslen", "isa", "toa",
    "int8_t", "uint8_t", "int_t", "uint_fast8_t", "intmax_t", "atomic_int", "memory_order", "memory_x",
    "cnd_t", "mtx_lock", "thrd_x", "tss_x",
    "EINVAL", "E2BIG", "EA", "E1", "FE_ALL", "INT8_MAX", "UINT8_C", "INT_MIN", "UINT_MAX", "INTa_C",
    "PRIx8", "SCNd8", "PRIX8", "LC_ALL", "SIGINT", "SIG_DFL", "TIME_UTC", "ATOMIC_X", "memory_order_relaxed",
    "reservedToken", "reservedX", "A", "ABC",
    "NULL", "NAN", "errno", "CHAR_BIT", "FLT_MAX", "DBL_EPSILON", "LDBL_MIN", "HUGE_VAL", "FP_NAN", "MATH_ERRNO",
    "SIZE_MAX", "PTRDIFF_MIN", "UCHAR_MAX", "LLONG_MIN", "SHRT_MAX",
]  # fmt: skip


# ------------------------------------------------------------------------------------------ token space
def strings(alphabet: typing.Sequence[str], lo: int, hi: int) -> typing.Iterator[str]:
    for n in range(lo, hi + 1):
        for t in itertools.product(alphabet, repeat=n):
            yield "".join(t)


def load_sections() -> typing.Dict[str, dict]:
    """properties.yaml of the tree under test, parsed here (YAML semantics only; no nunavut code involved)."""
    import yaml

    path = REPO / "src" / "nunavut" / "lang" / "properties.yaml"
    try:
        doc = yaml.safe_load(path.read_text(encoding="utf-8"))
    except Exception as e:  # pylint: disable=broad-except
        raise HarnessError(f"cannot parse {path}: {e}") from e
    out = {}
    for lang in LANGS:
        sec = doc.get("nunavut.lang." + lang)
        if not isinstance(sec, dict):
            raise HarnessError(f"no section nunavut.lang.{lang} in {path}")
        out[lang] = sec
    return out


_SECTIONS: typing.Optional[typing.Dict[str, dict]] = None


def sections() -> typing.Dict[str, dict]:
    global _SECTIONS  # pylint: disable=global-statement
    if _SECTIONS is None:
        _SECTIONS = load_sections()
    return _SECTIONS


def _merge(base: typing.Any, over: typing.Any) -> typing.Any:
    """Layering of configuration values: mappings merge key by key, everything else is replaced."""
    if isinstance(base, dict) and isinstance(over, dict):
        out = dict(base)
        for k, v in over.items():
            out[k] = _merge(base.get(k), v) if k in base else v
        return out
    return over


def effective(lang: str, cfg: str) -> dict:
    return typing.cast(dict, _merge(sections()[lang], ALL_CONFIGS[cfg]))


def python_reserved() -> typing.List[str]:
    return sorted(set(keyword.kwlist) | set(dir(builtins)))


def all_reserved_words() -> typing.List[str]:
    words: typing.List[str] = []
    for lang in LANGS:
        for cfg in CONFIGS:
            words += [str(w) for w in (effective(lang, cfg).get("reserved_identifiers") or [])]
    words += python_reserved()
    return list(dict.fromkeys(words))


def affixes() -> typing.List[typing.Tuple[str, str]]:
    out = []
    for lang in LANGS:
        for cfg in CONFIGS:
            sec = effective(lang, cfg)
            out.append((str(sec.get("stropping_prefix") or ""), str(sec.get("stropping_suffix") or "")))
    return list(dict.fromkeys(out))


def word_variants(w: str) -> typing.List[str]:
    v = [w, "_" + w, "__" + w, w + "_", w + "__", w.upper(), w.capitalize(), w.lower(), w.swapcase(), w + "1", "1" + w,
         " " + w, w + " "]  # fmt: skip
    if w.startswith("_"):
        v += [w[1:], w.lstrip("_")]
    for pre, suf in affixes():
        v.append(pre + w + suf)
        v.append(pre + pre + w + suf + suf)
    return [x for x in v if x]


def one_edit(w: str) -> typing.List[str]:
    out = []
    for i in range(len(w)):
        out.append(w[:i] + w[i + 1 :])
        out.append(w[:i] + w[i].swapcase() + w[i + 1 :])
        out.append(w[:i] + "_" + w[i + 1 :])
        out.append(w[:i] + "1" + w[i + 1 :])
    out.append(w + "_")
    out.append("a" + w)
    return [x for x in out if x and x != w]


def configured_patterns() -> typing.List[typing.Tuple[str, str, str]]:
    """(lang, category, pattern source) for every reserved pattern of the tree under test."""
    out = []
    for lang in LANGS:
        for cfg in CONFIGS:
            for cat, pats in (effective(lang, cfg).get("reserved_token_patterns_by_type") or {}).items():
                for p in pats:
                    out.append((lang, str(cat).lower(), str(p)))
    return list(dict.fromkeys(out))


def pattern_tokens() -> typing.Tuple[typing.List[str], typing.List[str]]:
    """Witnesses and near-misses for every configured reserved pattern; raises if one has none (vacuity guard)."""
    toks: typing.List[str] = []
    missing = []
    for lang, cat, src in configured_patterns():
        rx = re.compile(src)
        wit = [w for w in WITNESS_POOL if rx.match(w)]
        near = [n for w in wit for n in one_edit(w) if not rx.match(n)]
        if not wit or not near:
            missing.append(f"{lang}/{cat}/{src}")
        toks += wit[:4]
        for w in wit[:4]:
            toks += [n for n in one_edit(w) if not rx.match(n)]
            toks += [w + s for s in ALPHABET] + [s + w for s in ALPHABET]
    return list(dict.fromkeys(toks)), missing


def core_tokens() -> typing.List[str]:
    toks = list(strings(ALPHABET, 1, CORE_MAX_LEN))
    for w in all_reserved_words():
        toks += word_variants(w)
    pt, missing = pattern_tokens()
    if missing:
        raise HarnessError("no witness/near-miss in WITNESS_POOL for reserved pattern(s): " + ", ".join(missing))
    toks += pt
    for w in DOCTEST_TOKENS:
        toks += word_variants(w)
    toks += list(strings(EXOTIC_MIX, 1, 3))
    return list(dict.fromkeys(toks))


def det_tokens() -> typing.List[str]:
    return list(dict.fromkeys(list(strings(ALPHABET, 1, DET_MAX_LEN)) + all_reserved_words()))


# ------------------------------------------------------------------------------------------ oracle
_C_IDENT = re.compile(r"[A-Za-z_][A-Za-z0-9_]*")


def _combine(pats: typing.Sequence[typing.Pattern]) -> typing.Optional[typing.Pattern]:
    """One alternation equivalent to 'any of pats matches' (None when that is not safely expressible)."""
    if not pats:
        return None
    srcs = [p.pattern for p in pats]
    if any(re.search(r"\\[1-9]|\(\?P=|\(\?[aiLmsux-]+\)", s) for s in srcs) or any(p.flags != pats[0].flags for p in pats):
        return None
    return re.compile("|".join(f"(?:{s})" for s in srcs))


class Spec:
    """What the configuration of (language, override set) says about identifiers. Independent of TokenEncoder."""

    def __init__(self, lang: str, cfg: str):
        self.lang, self.cfg = lang, cfg
        sec = effective(lang, cfg)
        self.raw = {
            "reserved_identifiers": [str(x) for x in (sec.get("reserved_identifiers") or [])],
            "reserved_token_patterns_by_type": sec.get("reserved_token_patterns_by_type") or {},
            "token_encoding_rules_by_identifier_type": sec.get("token_encoding_rules_by_identifier_type") or {},
        }
        self.reserved = frozenset(str(x) for x in (sec.get("reserved_identifiers") or []))
        if lang == "py":
            self.reserved = self.reserved | frozenset(python_reserved())
        self.prefix = str(sec.get("stropping_prefix") or "")
        self.suffix = str(sec.get("stropping_suffix") or "")
        self.encoding_prefix = str(sec.get("encoding_prefix") or "")
        self.stropping = bool(sec.get("enable_stropping", False))
        self._pat = self._compile(sec.get("reserved_token_patterns_by_type") or {})
        self._enc = self._compile(sec.get("token_encoding_rules_by_identifier_type") or {})
        self.pat_for = {t: self._applicable(self._pat, t) for t in ID_TYPES}
        self.enc_for = {t: self._applicable(self._enc, t) for t in ID_TYPES}
        self.pat_fast = {t: _combine([p for _, _, p in v]) for t, v in self.pat_for.items()}
        self.enc_fast = {t: _combine([p for _, _, p in v]) for t, v in self.enc_for.items()}

    @staticmethod
    def _compile(m: dict) -> typing.Dict[str, typing.List[typing.Pattern]]:
        return {str(k).lower(): [re.compile(str(p)) for p in (v or [])] for k, v in m.items()}

    @staticmethod
    def _applicable(m: dict, id_type: str) -> typing.List[typing.Tuple[str, int, typing.Pattern]]:
        cats = ["all"] + (sorted(k for k in m if k != "all") if id_type == "any" else [id_type])
        return [(c, i, p) for c in cats for i, p in enumerate(m.get(c, []))]

    def syntax_ok(self, s: str) -> bool:
        if self.lang == "py":
            return s.isidentifier()
        return _C_IDENT.fullmatch(s) is not None

    def pattern_hit(self, s: str, id_type: str) -> typing.Optional[typing.Tuple[str, int, str]]:
        rules = self.pat_for[id_type]
        if not rules:
            return None
        fast = self.pat_fast[id_type]
        if fast is not None and not fast.match(s):
            return None
        for c, i, p in rules:
            if p.match(s):
                return (c, i, p.pattern)
        return None

    def needs_encoding(self, s: str, id_type: str) -> bool:
        rules = self.enc_for[id_type]
        if not rules:
            return False
        fast = self.enc_fast[id_type]
        if fast is not None:
            return fast.search(s) is not None
        return any(p.search(s) for _, _, p in rules)

    def facts(self, token: str, id_type: str) -> typing.Tuple[bool, bool, bool, bool]:
        return (
            self.syntax_ok(token),
            self.needs_encoding(token, id_type),
            token in self.reserved,
            self.pattern_hit(token, id_type) is not None,
        )


def syntax_feature(s: str) -> str:
    if s == "":
        return "empty"
    if s[0].isdigit():
        return "leading_digit"
    if any(c.isspace() for c in s):
        return "whitespace"
    if any(ord(c) > 127 for c in s):
        return "non_ascii"
    return "illegal_character"


Outcome = typing.Tuple[str, typing.Any]  # ("ok", str) | ("exc", type name) | ("bad", repr)


def judge(
    spec: Spec, token: str, id_type: str, out: Outcome, facts: typing.Tuple[bool, bool, bool, bool]
) -> typing.List[typing.Tuple[str, str, str]]:
    """-> [(kind, feature, what)] - empty when the outcome satisfies the statement."""
    v: typing.List[typing.Tuple[str, str, str]] = []
    already_valid = facts == (True, False, False, False)
    if out[0] == "exc":
        if already_valid:
            v.append(("valid_input_raised", out[1], f"already valid identifier {token!r} raised {out[1]}"))
        return v
    if out[0] == "bad":
        return [("not_a_string", "type", f"{token!r} -> non-string {out[1]}")]
    res = out[1]
    if not spec.syntax_ok(res):
        v.append(("invalid_syntax", syntax_feature(res), f"{token!r} -> {res!r} is not a valid {spec.lang} identifier"))
    if spec.stropping:
        if res in spec.reserved:
            v.append(("reserved_identifier", "keyword", f"{token!r} -> {res!r} is a reserved identifier of {spec.lang}"))
        hit = spec.pattern_hit(res, id_type)
        if hit is not None:
            v.append(
                ("reserved_pattern", f"{hit[0]}[{hit[1]}]", f"{token!r} -> {res!r} matches reserved pattern {hit[2]!r} ({hit[0]})")
            )
    if already_valid and res != token:
        v.append(("valid_input_changed", "changed", f"already valid, unreserved identifier {token!r} came back as {res!r}"))
    return v


def shape(spec: Spec, token: str, out: Outcome, facts: typing.Tuple[bool, bool, bool, bool]) -> str:
    if out[0] != "ok":
        return "raise:" + str(out[1])
    res = out[1]
    if res == token:
        return "same"
    if res == spec.prefix + token + spec.suffix:
        return "affix"
    if res == spec.prefix * 2 + token + spec.suffix * 2:
        return "affix2"
    if facts[1]:
        if spec.prefix and res.startswith(spec.prefix) and not token.startswith(spec.prefix):
            return "encoded+prefixed"
        return "encoded"
    return "rewritten"


# ------------------------------------------------------------------------------------------ real implementation
def make_language(lang: str, cfg: str) -> typing.Any:
    from nunavut.lang import LanguageContextBuilder

    b = LanguageContextBuilder(include_experimental_languages=True).set_target_language(lang)
    for k, val in ALL_CONFIGS[cfg].items():
        b.set_target_language_configuration_override(k, val)
    lo = b.create().get_target_language()
    spec = Spec(lang, cfg)
    # the harness and the language object must look at the same configuration (else the comparison is meaningless)
    have = (
        lo.get_config_value("stropping_prefix", ""),
        lo.get_config_value("stropping_suffix", ""),
        lo.get_config_value("encoding_prefix", ""),
        bool(lo.enable_stropping),
    )
    want = (spec.prefix, spec.suffix, spec.encoding_prefix, spec.stropping)
    try:
        have_raw = {
            "reserved_identifiers": [str(x) for x in lo.get_config_value_as_list("reserved_identifiers", [])],
            "reserved_token_patterns_by_type": dict(lo.get_config_value_as_dict("reserved_token_patterns_by_type", {})),
            "token_encoding_rules_by_identifier_type": dict(lo.get_config_value_as_dict("token_encoding_rules_by_identifier_type", {})),
        }
    except Exception as e:  # pylint: disable=broad-except
        raise HarnessError(f"cannot read the effective configuration of {lang}/{cfg}: {e}") from e
    if have_raw != spec.raw:
        diff = [k for k in spec.raw if have_raw[k] != spec.raw[k]]
        raise HarnessError(f"effective configuration of the language object differs from the harness' for {lang}/{cfg}: {diff}")
    if have != want:
        raise HarnessError(f"configuration seen by the language object {have} != configuration of the harness {want} [{lang}/{cfg}]")
    return lo


def call(lo: typing.Any, token: str, id_type: str) -> Outcome:
    try:
        r = lo.filter_id(token, id_type)
    except Exception as e:  # pylint: disable=broad-except
        return ("exc", type(e).__name__)
    if not isinstance(r, str):
        return ("bad", repr(r)[:80])
    return ("ok", r)


_W: typing.Dict[typing.Tuple[str, str], typing.Tuple[typing.Any, Spec, typing.Dict[str, int]]] = {}


def _instrument(lo: typing.Any, counters: typing.Dict[str, int]) -> None:
    """Count invocations of the language-specific failure handlers (statistics / vacuity guard only)."""
    te = getattr(lo, "_token_encoder", None)
    if te is None:
        return
    for attr in ("_stropping_failure_handler", "_encoding_failure_handler"):
        h = getattr(te, attr, None)
        if callable(h):
            counters["instrumented"] = 1

            def wrap(*a: typing.Any, __h: typing.Any = h, __k: str = attr, **kw: typing.Any) -> typing.Any:
                counters[__k] = counters.get(__k, 0) + 1
                return __h(*a, **kw)

            try:
                setattr(te, attr, wrap)
            except Exception:  # pylint: disable=broad-except
                counters["instrumented"] = 0


def _worker_lang(lang: str, cfg: str) -> typing.Tuple[typing.Any, Spec, typing.Dict[str, int]]:
    key = (lang, cfg)
    if key not in _W:
        lo = make_language(lang, cfg)
        counters: typing.Dict[str, int] = {}
        _instrument(lo, counters)
        _W[key] = (lo, Spec(lang, cfg), counters)
    return _W[key]


def evaluate(
    lo: typing.Any, spec: Spec, tokens: typing.Iterable[str], res: dict, keep: typing.Optional[list] = None
) -> None:
    bag: Bag = res["bag"]
    classes: set = res["classes"]
    for token in tokens:
        res["tokens"] += 1
        for id_type in ID_TYPES:
            out = call(lo, token, id_type)  # cold (first time this object sees the pair)
            again = call(lo, token, id_type)  # warm (served by the lru_cache unless it raised)
            res["evals"] += 1
            if keep is not None:
                keep.append(list(out))
            f = spec.facts(token, id_type)
            sh = shape(spec, token, out, f)
            classes.add((spec.lang, f, sh))
            if sh != "same":
                res["nontrivial"] += 1
            if out[0] == "exc":
                res["raised"] += 1
            if f == (True, False, False, False):
                res["already_valid"] += 1
            if again != out:
                bag.add(
                    {"kind": "cold_warm_differ", "lang": spec.lang, "config": spec.cfg, "id_type": id_type, "feature": "lru_cache"},
                    {"mode": "oracle", "lang": spec.lang, "config": spec.cfg, "id_type": id_type, "token": token},
                    f"[{spec.lang}/{spec.cfg}/{id_type}] {token!r}: first call {out!r}, second call {again!r}",
                )
            for kind, feature, what in judge(spec, token, id_type, out, f):
                bag.add(
                    {"kind": kind, "lang": spec.lang, "config": spec.cfg, "id_type": id_type, "feature": feature},
                    {"mode": "oracle", "lang": spec.lang, "config": spec.cfg, "id_type": id_type, "token": token},
                    f"[{spec.lang}/{spec.cfg}/{id_type}] {what}",
                )


def _work(job: tuple) -> dict:
    kind, lang, cfg = job[0], job[1], job[2]
    if kind in ("refusal", "pairs"):
        # history families: own (fresh) language objects / own processes; nothing is shared with the other jobs
        res = {"bag": Bag(), "classes": set(), "tokens": 0, "evals": 0, "nontrivial": 0, "raised": 0, "already_valid": 0,
               "lang": lang, "cfg": cfg, "kind": kind, "det": None, "space": 0, "handlers": {}, "instrumented": 0}  # fmt: skip
        if kind == "refusal":
            refusal_job(lang, cfg, job[3], res)
        else:
            pairs_job(job[3], job[4], job[5], res)
        return res
    lo, spec, counters = _worker_lang(lang, cfg)
    before = dict(counters)
    res = {"bag": Bag(), "classes": set(), "tokens": 0, "evals": 0, "nontrivial": 0, "raised": 0, "already_valid": 0,
           "lang": lang, "cfg": cfg, "kind": kind, "det": None, "space": 0}  # fmt: skip
    if kind == "list":
        evaluate(lo, spec, job[3], res)
    elif kind == "len5":
        prefix, thorough, seed, skip = job[3], job[4], job[5], job[6]
        toks = []
        for t in itertools.product(ALPHABET, repeat=FULL_LEN - len(prefix)):
            s = prefix + "".join(t)
            res["space"] += 1
            if s in skip:
                continue
            if thorough or stable_hash(s) % 16 == seed % 16:
                toks.append(s)
        evaluate(lo, spec, toks, res)
    elif kind == "det":
        # a *fresh, uninstrumented* language object; outcomes are kept for the cross-process comparison
        keep: list = []
        evaluate(make_language(lang, cfg), spec, det_tokens(), res, keep)
        res["det"] = keep
        # these pairs are part of the core lists as well: do not count them twice
        res["tokens"] = res["evals"] = res["nontrivial"] = res["raised"] = res["already_valid"] = 0
    else:
        raise HarnessError(f"unknown job kind {kind}")
    res["handlers"] = {k: counters.get(k, 0) - before.get(k, 0) for k in counters if k != "instrumented"}
    res["instrumented"] = counters.get("instrumented", 0)
    return res


# ------------------------------------------------------------------------------------------ fresh processes
def det_child(spec_path: str) -> None:
    """Runs in a fresh interpreter (own PYTHONHASHSEED): evaluates the sub-sample in the requested order."""
    from vf.core import setup_paths

    setup_paths()
    job = json.loads(open(spec_path, encoding="utf-8").read())
    tokens = job["tokens"] if job.get("tokens") is not None else det_tokens()
    order = job["order"]
    out: typing.Dict[str, typing.Any] = {"hash_a": hash("a"), "hashseed": os.environ.get("PYTHONHASHSEED"), "results": {}, "self_diff": []}
    pairs = [(t, i) for t in tokens for i in ID_TYPES]
    for lang in job["langs"]:
        for cfg in job["configs"]:
            lo = make_language(lang, cfg)
            seq = pairs if order == "fwd" else list(reversed(pairs))
            first = {}
            for t, i in seq:
                first[(t, i)] = call(lo, t, i)
            if order == "rev":
                # second sweep in the opposite order: early entries were evicted from the 1024-entry cache, late ones not
                for t, i in reversed(seq):
                    again = call(lo, t, i)
                    if again != first[(t, i)]:
                        out["self_diff"].append([lang, cfg, i, t, list(first[(t, i)]), list(again)])
            out["results"][f"{lang}|{cfg}"] = [list(first[p]) for p in pairs]
    with open(job["out"], "w", encoding="utf-8") as f:
        json.dump(out, f)


def spawn_child(scratch: typing.Any, name: str, hashseed: int, order: str, tokens: typing.Optional[list],
                langs: typing.Sequence[str], configs: typing.Sequence[str], optimize: bool = False) -> typing.Tuple[subprocess.Popen, str]:  # fmt: skip
    spec_path = os.path.join(str(scratch), f"det-{name}.json")
    out_path = os.path.join(str(scratch), f"det-{name}.out.json")
    with open(spec_path, "w", encoding="utf-8") as f:
        json.dump({"tokens": tokens, "order": order, "out": out_path, "langs": list(langs), "configs": list(configs)}, f)
    env = dict(os.environ)
    env["PYTHONHASHSEED"] = str(hashseed)
    env["PYTHONDONTWRITEBYTECODE"] = "1"
    env.pop("PYTHONOPTIMIZE", None)
    code = "import sys; sys.path.insert(0, sys.argv[1]); from vf.checks.c09 import det_child; det_child(sys.argv[2])"
    p = subprocess.Popen(  # pylint: disable=consider-using-with
        [sys.executable] + (["-O"] if optimize else []) + ["-c", code, str(VERIF), spec_path], env=env, cwd=str(VERIF), stdout=subprocess.PIPE, stderr=subprocess.STDOUT, text=True
    )
    return p, out_path


def collect_child(p: subprocess.Popen, out_path: str, name: str) -> dict:
    log, _ = p.communicate(timeout=900)
    if p.returncode != 0 or not os.path.exists(out_path):
        raise HarnessError(f"determinism child {name} failed ({p.returncode}):\n{log[-3000:]}")
    with open(out_path, encoding="utf-8") as f:
        return json.load(f)


def _children() -> typing.List[typing.Tuple[str, int, str]]:
    """Two fresh processes whose string-hash seeds differ from each other and from this process' (the runner uses 0)."""
    mine = os.environ.get("PYTHONHASHSEED", "")
    seeds = [s for s in (1, 4242, 77, 9001) if str(s) != mine][:2]
    return [(f"seed{seeds[0]}-fwd", seeds[0], "fwd"), (f"seed{seeds[1]}-rev", seeds[1], "rev")]


CHILDREN = _children()


def compare_processes(ctx: Ctx, mine: typing.Dict[str, list], docs: typing.Dict[str, dict], tokens: typing.List[str]) -> int:
    pairs = [(t, i) for t in tokens for i in ID_TYPES]
    compared = 0
    hashes = {"main": hash("a")}
    for name, doc in docs.items():
        hashes[name] = doc["hash_a"]
        for lang, cfg, i, t, a, b in doc["self_diff"]:
            ctx.violation(
                {"kind": "process_history_dependent", "lang": lang, "config": cfg, "id_type": i, "feature": "evicted_vs_first"},
                {"mode": "determinism", "lang": lang, "config": cfg, "id_type": i, "token": t},
                f"[{lang}/{cfg}/{i}] {t!r}: {a!r} on first evaluation, {b!r} later in the same process ({name})",
            )
        for key, theirs in doc["results"].items():
            lang, cfg = key.split("|")
            base = mine[key]
            if len(base) != len(theirs) or len(base) != len(pairs):
                raise HarnessError(f"determinism child {name} evaluated {len(theirs)} pairs, expected {len(pairs)}")
            for (t, i), a, b in zip(pairs, base, theirs):
                compared += 1
                if list(a) != list(b):
                    ctx.violation(
                        {"kind": "process_dependent", "lang": lang, "config": cfg, "id_type": i, "feature": name},
                        {"mode": "determinism", "lang": lang, "config": cfg, "id_type": i, "token": t},
                        f"[{lang}/{cfg}/{i}] {t!r}: {a!r} in the checking process, {b!r} in fresh process {name}",
                    )
    if len(set(hashes.values())) != len(hashes):
        raise HarnessError(f"the fresh processes did not run with distinct string hash seeds: {hashes}")
    return compared


# ------------------------------------------------------------------------------------------ histories (6): refused ; next
def facts_str(f: typing.Tuple[bool, bool, bool, bool]) -> str:
    return "".join("SERP"[i] if b else "-" for i, b in enumerate(f))


def hist_followers(deep: bool, own: str) -> typing.List[str]:
    """The follower tokens of one row (deterministic; `own` = the refused token of the row)."""
    if deep:
        toks = list(strings(HIST_ALPHABET, 1, HIST_MAX_LEN)) + HIST_SMALL_EXTRA + REFUSAL_CANDIDATES
    else:
        toks = list(strings(HIST_SMALL_ALPHABET, 1, 2)) + HIST_SMALL_EXTRA
    return list(dict.fromkeys(toks + [own]))


def needs_inner_encoding(spec: Spec, token: str, id_type: str) -> bool:
    """The token needs encoding, and not (only) at its first character."""
    return len(token) > 1 and spec.needs_encoding(token, id_type) and any(
        p.search(token, 1) is not None for _, _, p in spec.enc_for[id_type]
    )


def refusal_reference(lang: str, cfg: str) -> typing.Tuple[typing.Dict[typing.Tuple[str, str], Outcome], int]:
    """Outcome of every (follower, id_type) on objects that never refused anything before the call."""
    # The language object of THIS process is never called. A forked copy of the process evaluates the calls in sequence until
    # the first one that does not succeed; the rest continues in the next forked copy (of the still untouched object): every
    # reference outcome comes from an object whose history consists of successful calls only.
    ref: typing.Dict[typing.Tuple[str, str], Outcome] = {}
    lo = make_language(lang, cfg)
    calls = [(t, i) for t in hist_followers(True, REFUSAL_CANDIDATES[0]) for i in ID_TYPES]
    pos = copies = 0
    while pos < len(calls):
        rd, wr = os.pipe()
        pid = os.fork()
        if pid == 0:
            code = 3
            try:
                os.close(rd)
                outs = []
                for t, i in calls[pos:]:
                    outs.append(call(lo, t, i))
                    if outs[-1][0] != "ok":
                        break
                with os.fdopen(wr, "w", encoding="ascii") as w:
                    json.dump(outs, w)
                code = 0
            finally:
                os._exit(code)
        os.close(wr)
        with os.fdopen(rd, "r", encoding="ascii") as r:
            data = r.read()
        _, status = os.waitpid(pid, 0)
        if status != 0 or not data:
            raise HarnessError(f"reference process of {lang}/{cfg} failed at call {pos} (status {status})")
        outs = json.loads(data)
        if not outs or any(o[0] != "ok" for o in outs[:-1]):
            raise HarnessError(f"reference process of {lang}/{cfg}: malformed result at call {pos}")
        for k, o in enumerate(outs):
            ref[calls[pos + k]] = (o[0], o[1])
        pos += len(outs)
        copies += 1
    return ref, copies


def two_step(lang: str, cfg: str, refused: typing.Sequence[str], token: str, id_type: str) -> typing.Tuple[Outcome, Outcome, Outcome]:
    """(the refused call, the follower after it on the same fresh object, the follower alone on another fresh object)."""
    lo = make_language(lang, cfg)
    first = call(lo, refused[0], refused[1])
    after = call(lo, token, id_type)
    alone = call(make_language(lang, cfg), token, id_type)
    return first, after, alone


def chain(lang: str, cfg: str, refused: typing.Sequence[str], deep: bool, upto: typing.Tuple[str, str]) -> Outcome:
    """Re-drives (refused ; follower)* of one row on a fresh object up to and including the follower `upto`."""
    lo = make_language(lang, cfg)
    for f in hist_followers(deep, refused[0]):
        for id_type in ID_TYPES:
            call(lo, refused[0], refused[1])
            out = call(lo, f, id_type)
            if (f, id_type) == tuple(upto):
                return out
    raise HarnessError(f"follower {upto} is not part of the row {refused} of {lang}/{cfg}")


def refusal_job(lang: str, cfg: str, thorough: bool, res: dict) -> None:
    bag: Bag = res["bag"]
    spec = Spec(lang, cfg)
    ref, ref_objects = refusal_reference(lang, cfg)
    h = {"rows": 0, "deep_rows": 0, "followups": 0, "refused_calls": 0, "inner_encoding_followups": 0, "objects": 0, "reference_copies": ref_objects,
         "refusal_followers": 0, "reference_calls": len(ref), "differences": 0, "shapes": set()}  # fmt: skip
    res["hist"] = h
    # the reference outcomes are judged like any other call (this is the only place the HIST_CONFIGS meet oracle (1)-(3),(5))
    for (token, id_type), out in ref.items():
        f = spec.facts(token, id_type)
        h["shapes"].add((lang, f, shape(spec, token, out, f)))
        for kind, feature, what in judge(spec, token, id_type, out, f):
            bag.add(
                {"kind": kind, "lang": lang, "config": cfg, "id_type": id_type, "feature": feature},
                {"mode": "oracle", "lang": lang, "config": cfg, "id_type": id_type, "token": token},
                f"[{lang}/{cfg}/{id_type}] {what}",
            )
    rows = [(t, i) for t in REFUSAL_CANDIDATES for i in ID_TYPES if ref[(t, i)][0] == "exc"]
    h["refused_calls"] = len(rows)
    seen_tokens: set = set()
    for rt, ri in rows:
        deep = thorough or rt not in seen_tokens
        seen_tokens.add(rt)
        h["rows"] += 1
        h["deep_rows"] += 1 if deep else 0
        lo = make_language(lang, cfg)
        h["objects"] += 1
        for token in hist_followers(deep, rt):
            for id_type in ID_TYPES:
                first = call(lo, rt, ri)
                out = call(lo, token, id_type)
                h["followups"] += 1
                want = ref[(token, id_type)]
                if want[0] == "exc":
                    h["refusal_followers"] += 1
                if needs_inner_encoding(spec, token, id_type) and want[0] == "ok":
                    h["inner_encoding_followups"] += 1
                problems = []
                if first != ref[(rt, ri)]:
                    problems.append(("refused_call_repeated", rt, ri, ref[(rt, ri)], first))
                if out != want:
                    problems.append(("after_refused_call", token, id_type, want, out))
                for feature, t, i, w, got in problems:
                    h["differences"] += 1
                    sig = {"kind": "history_dependent", "lang": lang, "config": cfg, "id_type": i, "feature": feature}
                    key = json.dumps(sig, sort_keys=True, default=str)
                    if key in bag.v:
                        bag.add(sig, bag.v[key].case, bag.v[key].what)
                        continue
                    case = {"mode": "refusal_history", "lang": lang, "config": cfg, "refused": [rt, ri], "token": t, "id_type": i}
                    _, after2, alone2 = two_step(lang, cfg, (rt, ri), t, i)
                    if after2 != alone2:
                        what = (
                            f"[{lang}/{cfg}/{i}] filter_id({t!r}) -> {alone2!r} on a fresh language object, {after2!r} on an object "
                            f"whose previous call filter_id({rt!r}, {ri!r}) was refused"
                        )
                    else:
                        case = dict(case, row="deep" if deep else "wide", follower=[token, id_type])
                        what = (
                            f"[{lang}/{cfg}/{i}] filter_id({t!r}) -> {w!r} on an object that never refused a call, {got!r} in the "
                            f"history (filter_id({rt!r}, {ri!r}) refused ; follower)* at follower {token!r}/{id_type}"
                        )
                    bag.add(sig, case, what)
                # what comes back after a refusal must satisfy the statement as well
                if out != want:
                    f = spec.facts(token, id_type)
                    for kind, feature, what in judge(spec, token, id_type, out, f):
                        bag.add(
                            {"kind": kind, "lang": lang, "config": cfg, "id_type": id_type, "feature": feature + "/after_refused_call"},
                            {"mode": "refusal_history", "lang": lang, "config": cfg, "refused": [rt, ri], "token": token,
                             "id_type": id_type, "row": "deep" if deep else "wide", "follower": [token, id_type]},  # fmt: skip
                            f"[{lang}/{cfg}/{id_type}] after the refused filter_id({rt!r}, {ri!r}): {what}",
                        )


# ------------------------------------------------------------------------------------------ histories (7): language X ; Y
def pair_tokens() -> typing.List[str]:
    return list(dict.fromkeys(PAIR_TOKENS + DOCTEST_TOKENS))


def pair_nodes(core_only: bool) -> typing.List[typing.Tuple[str, str]]:
    return [(lang, cfg) for lang in LANGS for cfg in (PAIR_CORE_CONFIGS if core_only else ALL_CONFIGS)]


def pair_histories(ctx: Ctx) -> typing.List[typing.Tuple[typing.Tuple[str, str], typing.Tuple[str, str]]]:
    core = set(pair_nodes(True))
    out = []
    for x in pair_nodes(False):
        for y in pair_nodes(False):
            if (x in core and y in core) or ctx.in_slice(f"pair:{x[0]}/{x[1]}>{y[0]}/{y[1]}"):
                out.append((x, y))
    # every node that occurs needs an evaluation as the first language of a process (its reference)
    firsts = {x for x, _ in out}
    for node in pair_nodes(False):
        if node not in firsts and any(node == y for _, y in out):
            out.append((node, node))
            firsts.add(node)
    return out


def pair_child(spec_path: str) -> None:
    """Runs in a freshly started interpreter: imports nunavut, creates NOTHING, and forks one process per history."""
    from vf.core import setup_paths

    setup_paths()
    import traceback

    import nunavut.lang  # noqa: F401  pylint: disable=unused-import,import-outside-toplevel

    with open(spec_path, encoding="utf-8") as f:
        job = json.load(f)
    tokens = job["tokens"]
    sections()  # the harness' own view of properties.yaml (parsed once here instead of once per history)
    results = []
    for x, y in job["histories"]:
        rd, wr = os.pipe()
        pid = os.fork()
        if pid == 0:
            code = 3
            try:
                os.close(rd)
                outs = []
                for lang, cfg in (x, y):
                    lo = make_language(lang, cfg)
                    outs.append([list(call(lo, t, i)) for t in tokens for i in ID_TYPES])
                with os.fdopen(wr, "w", encoding="ascii") as w:
                    json.dump(outs, w)
                code = 0
            except BaseException:  # pylint: disable=broad-except
                traceback.print_exc()
            finally:
                sys.stdout.flush()
                sys.stderr.flush()
                os._exit(code)
        os.close(wr)
        with os.fdopen(rd, "r", encoding="ascii") as r:
            data = r.read()
        _, status = os.waitpid(pid, 0)
        if status != 0:
            raise HarnessError(f"history {x} ; {y} failed in its process (status {status})")
        results.append(json.loads(data))
    with open(job["out"], "w", encoding="utf-8") as f:
        json.dump(results, f)


def run_pairs(scratch: typing.Any, name: str, histories: typing.Sequence, tokens: typing.Sequence[str]) -> typing.List:
    """-> per history [outcomes of X, outcomes of Y] (token-major, id types inner), each history in its own process."""
    spec_path = os.path.join(str(scratch), f"pairs-{name}.json")
    out_path = os.path.join(str(scratch), f"pairs-{name}.out.json")
    with open(spec_path, "w", encoding="utf-8") as f:
        json.dump({"tokens": list(tokens), "histories": [[list(x), list(y)] for x, y in histories], "out": out_path}, f)
    env = dict(os.environ)
    env["PYTHONDONTWRITEBYTECODE"] = "1"
    code = "import sys; sys.path.insert(0, sys.argv[1]); from vf.checks.c09 import pair_child; pair_child(sys.argv[2])"
    p = subprocess.run(
        [sys.executable, "-c", code, str(VERIF), spec_path], env=env, cwd=str(VERIF), stdout=subprocess.PIPE,
        stderr=subprocess.STDOUT, text=True, timeout=900, check=False,
    )  # fmt: skip
    if p.returncode != 0 or not os.path.exists(out_path):
        raise HarnessError(f"configuration-history process {name} failed ({p.returncode}):\n{p.stdout[-3000:]}")
    with open(out_path, encoding="utf-8") as f:
        got = json.load(f)
    if len(got) != len(histories) or any(len(o) != len(tokens) * len(ID_TYPES) for h in got for o in h):
        raise HarnessError(f"configuration-history process {name} returned a result of the wrong size")
    return got


def pairs_job(scratch: str, shard: int, histories: typing.Sequence, res: dict) -> None:
    bag: Bag = res["bag"]
    tokens = pair_tokens()
    got = run_pairs(scratch, f"shard{shard}", histories, tokens)
    calls = [(t, i) for t in tokens for i in ID_TYPES]
    specs: typing.Dict[typing.Tuple[str, str], Spec] = {}
    for (x, y), (_, out_y) in zip(histories, got):
        y = tuple(y)
        spec = specs.setdefault(y, Spec(y[0], y[1]))
        for (token, id_type), out in zip(calls, out_y):
            out = tuple(out)
            for kind, feature, what in judge(spec, token, id_type, out, spec.facts(token, id_type)):
                bag.add(
                    {"kind": kind, "lang": y[0], "config": y[1], "id_type": id_type, "feature": f"{feature}/after_language:{x[0]}/{x[1]}"},
                    {"mode": "config_history", "first": list(x), "second": list(y), "token": token, "id_type": id_type},
                    f"[{y[0]}/{y[1]}/{id_type}] created and used after a {x[0]}/{x[1]} language in the same process: {what}",
                )
    res["pairs"] = [[list(x), list(y), ox, oy] for (x, y), (ox, oy) in zip(histories, got)]


def compare_pairs(ctx: Ctx, pairs: typing.Sequence) -> typing.Dict[str, int]:
    """Y after X against Y first-in-process; every first-in-process copy of a node against the others."""
    tokens = pair_tokens()
    calls = [(t, i) for t in tokens for i in ID_TYPES]
    base: typing.Dict[typing.Tuple[str, str], list] = {}
    stats = {"histories": len(pairs), "comparisons": 0, "nodes": 0, "distinct_first_nodes": 0}
    for x, _, ox, _ in pairs:
        x = tuple(x)
        if x not in base:
            base[x] = ox
            continue
        for (token, id_type), a, b in zip(calls, base[x], ox):
            stats["comparisons"] += 1
            if a != b:
                ctx.violation(
                    {"kind": "process_dependent", "lang": x[0], "config": x[1], "id_type": id_type, "feature": "first_language_of_a_process"},
                    {"mode": "config_history", "first": list(x), "second": list(x), "token": token, "id_type": id_type},
                    f"[{x[0]}/{x[1]}/{id_type}] {token!r}: {a!r} and {b!r} in two fresh processes",
                )
    stats["distinct_first_nodes"] = len(base)
    for x, y, _, oy in pairs:
        x, y = tuple(x), tuple(y)
        if y not in base:
            raise HarnessError(f"no first-in-process evaluation of {y}")
        for (token, id_type), a, b in zip(calls, base[y], oy):
            stats["comparisons"] += 1
            if a != b:
                ctx.violation(
                    {"kind": "history_dependent", "lang": y[0], "config": y[1], "id_type": id_type, "feature": f"after_language:{x[0]}/{x[1]}"},
                    {"mode": "config_history", "first": list(x), "second": list(y), "token": token, "id_type": id_type},
                    f"[{y[0]}/{y[1]}/{id_type}] filter_id({token!r}) -> {tuple(a)!r} when the language is the first of its process, "
                    f"{tuple(b)!r} after a {x[0]}/{x[1]} language was created and used in the same process",
                )
    stats["nodes"] = len({tuple(y) for _, y, _, _ in pairs})
    return stats


def pair_leak_witnesses() -> int:
    """Number of (X, Y, token): X's configuration reserves the token, for Y it is an already valid identifier (oracle side)."""
    n = 0
    nodes = pair_nodes(True)
    specs = {node: Spec(*node) for node in nodes}
    for x in nodes:
        for y in nodes:
            for t in pair_tokens():
                if t in specs[x].reserved and specs[x].stropping and specs[y].facts(t, "any") == (True, False, False, False):
                    n += 1
    return n


# ------------------------------------------------------------------------------------------ entry points
SAMPLE_CASES = [
    ("c", "default", "macro", "EA"),
    ("c", "default", "any", "_Bool"),
    ("cpp", "default", "any", "__a "),
    ("cpp", "doc2", "typedef", "1-"),
    ("py", "default", "path", "None"),
    ("py", "doc1", "any", "\u00e9 1"),
]


def run(ctx: Ctx) -> int:
    core = core_tokens()
    core_set5 = frozenset(t for t in core if len(t) == FULL_LEN and all(c in ALPHABET for c in t))
    words = all_reserved_words()
    dtoks = det_tokens()
    missing = [t for t in dtoks if t not in set(core)]
    if missing:
        raise HarnessError(f"determinism sub-sample is not part of the core enumeration: {missing[:5]}")

    # fresh processes first (they run while the pool works)
    children = [
        (name, *spawn_child(ctx.scratch, name, seed, order, None, LANGS, list(CONFIGS))) for name, seed, order in CHILDREN
    ]
    # the interpreter's optimisation mode is part of "every process": one ordinary and one `python -O` process evaluate the
    # refusal candidates under EVERY configuration (also those that refuse) and must agree call by call
    opt_tokens = list(dict.fromkeys(REFUSAL_CANDIDATES + ["a b", "a-b", "_Foo", "Foo", "x", "1", "__a", "a__"]))
    opt_children = [
        (name, *spawn_child(ctx.scratch, name, CHILDREN[0][1], "fwd", opt_tokens, LANGS, list(ALL_CONFIGS), optimize=opt))
        for name, opt in (("plain-interpreter", False), ("optimised-interpreter", True))
    ]

    jobs: typing.List[tuple] = []
    histories = pair_histories(ctx)
    for k in range(PAIR_SHARDS):
        jobs.append(("pairs", "-", "-", str(ctx.scratch), k, histories[k::PAIR_SHARDS]))
    for lang in LANGS:
        for cfg in ALL_CONFIGS:
            jobs.append(("refusal", lang, cfg, ctx.thorough))
    prefixes = ["".join(p) for p in itertools.product(ALPHABET, repeat=2)]
    for lang in LANGS:
        for cfg in CONFIGS:
            jobs.append(("det", lang, cfg))
            for p in prefixes:
                jobs.append(("len5", lang, cfg, p, ctx.thorough, ctx.seed, core_set5))
            for i in range(0, len(core), LIST_SHARD):
                jobs.append(("list", lang, cfg, core[i : i + LIST_SHARD]))
    results = ctx.pool_map(_work, jobs)

    evals = tokens = nontrivial = raised = already_valid = 0
    classes: set = set()
    handlers: typing.Dict[str, int] = {}
    instrumented: typing.Dict[str, int] = {}
    mine: typing.Dict[str, list] = {}
    per_lc: typing.Dict[str, set] = {}
    len5_space = len5_done = 0
    hist: typing.Dict[str, typing.Any] = {}
    hist_nodes: typing.Dict[str, dict] = {}
    hist_shapes: set = set()
    pairs: typing.List = []
    for r in results:
        ctx.bag.merge(r["bag"])
        if r["kind"] == "refusal":
            h = r["hist"]
            hist_shapes |= h.pop("shapes")
            hist_nodes[f"{r['lang']}|{r['cfg']}"] = h
            for k, n in h.items():
                hist[k] = hist.get(k, 0) + n
            continue
        if r["kind"] == "pairs":
            pairs += r["pairs"]
            continue
        evals += r["evals"]
        tokens += r["tokens"]
        nontrivial += r["nontrivial"]
        raised += r["raised"]
        already_valid += r["already_valid"]
        classes |= r["classes"]
        key = f"{r['lang']}|{r['cfg']}"
        per_lc.setdefault(key, set()).update((f, sh) for (_, f, sh) in r["classes"])
        for k, n in r["handlers"].items():
            handlers[f"{r['lang']}:{k}"] = handlers.get(f"{r['lang']}:{k}", 0) + n
        instrumented[r["lang"]] = max(instrumented.get(r["lang"], 0), r["instrumented"])
        if r["kind"] == "det":
            mine[key] = r["det"]
        if r["kind"] == "len5" and r["lang"] == LANGS[0] and r["cfg"] == "default":
            len5_space += r["space"]
            len5_done += r["tokens"]

    docs = {name: collect_child(p, out_path, name) for name, p, out_path in children}
    compared = compare_processes(ctx, mine, docs, dtoks)
    odocs = {name: collect_child(p, out_path, name) for name, p, out_path in opt_children}
    opairs = [(t, i) for t in opt_tokens for i in ID_TYPES]
    for key, plain_res in odocs["plain-interpreter"]["results"].items():
        lang, cfg = key.split("|")
        for (t, i), a, b in zip(opairs, plain_res, odocs["optimised-interpreter"]["results"][key]):
            compared += 1
            if list(a) != list(b):
                ctx.violation(
                    {"kind": "process_dependent", "lang": lang, "config": cfg, "id_type": i, "feature": "python -O"},
                    {"mode": "optimised", "lang": lang, "config": cfg, "id_type": i, "token": t},
                    f"[{lang}/{cfg}/{i}] {t!r}: {a!r} in an ordinary interpreter, {b!r} under python -O",
                )
    if not any(r[0] == "exc" for res in odocs["plain-interpreter"]["results"].values() for r in res):
        raise HarnessError("no refused call among the interpreter-mode comparisons")
    pair_stats = compare_pairs(ctx, pairs)

    # ---- vacuity guards of the history families (all computed from the space / the oracle side)
    if not ctx.bag.v:
        for lang in LANGS:
            for cfg in MUST_REFUSE:
                h = hist_nodes[f"{lang}|{cfg}"]
                if not h["rows"] or not h["inner_encoding_followups"]:
                    raise HarnessError(
                        f"vacuous exploration: no refused call / no follower needing encoding after its first character for {lang}/{cfg}: {h}"
                    )
        if pair_stats["distinct_first_nodes"] < pair_stats["nodes"] or pair_stats["histories"] < len(pair_nodes(True)) ** 2:
            raise HarnessError(f"vacuous exploration: configuration histories incomplete: {pair_stats}")
        if pair_leak_witnesses() < 2:
            raise HarnessError("vacuous exploration: no token that one configuration reserves and another one accepts as it is")

    # ---- vacuity guards: every mechanism of the anchored code must have been exercised for every language/config
    for key, seen in sorted(per_lc.items()):
        lang = key.split("|")[0]
        need = {
            "valid input returned as is": any(f == (True, False, False, False) and sh == "same" for f, sh in seen),
            "reserved word stropped": any(f[2] and sh != "same" for f, sh in seen),
            "input needing encoding": any(f[1] and sh.startswith("encoded") for f, sh in seen),
        }
        if lang in ("c", "cpp"):
            need["input matching a reserved pattern"] = any(f[3] for f, sh in seen)
        bad = [k for k, ok in need.items() if not ok]
        if bad and not ctx.bag.v:
            raise HarnessError(f"vacuous exploration for {key}: never observed: {bad}")
    for lang in ("c", "cpp"):
        if instrumented.get(lang) and not ctx.bag.v:
            if not any(n for k, n in handlers.items() if k.startswith(lang + ":")):
                raise HarnessError(f"vacuous exploration: the {lang} failure handler was never invoked")

    # ---- every violation is re-executed once from its recorded case in this process (fresh language object)
    # A violation that does not reproduce on a fresh object but does reproduce after the calls that preceded it in the
    # worker (same token, the id types before it) is a dependence on the call history: it is reported as such, with the
    # history in the case. Anything else that does not reproduce is a harness error.
    for key, v in list(ctx.bag.v.items()):
        if v.case.get("mode") == "oracle" and v.sig["kind"] != "cold_warm_differ":
            got = {k for k, _, _ in _replay_oracle(v.case)[1]}
            if v.sig["kind"] in got:
                continue
            hcase = dict(v.case, mode="history", history=ID_TYPES[: ID_TYPES.index(v.case["id_type"]) + 1])
            with_history, fresh, _ = _replay_history(hcase)
            if with_history == fresh:
                raise HarnessError(f"violation {v.sig} did not reproduce from its recorded case {v.case}: {sorted(got)}")
            del ctx.bag.v[key]
            ctx.violation(
                dict(v.sig, kind="history_dependent", feature=v.sig["kind"]),
                hcase,
                f"[{v.case['lang']}/{v.case['config']}/{v.case['id_type']}] {v.case['token']!r}: {fresh!r} on a fresh language "
                f"object, {with_history!r} after filter_id of the same token with id types {hcase['history'][:-1]}",
                v.count,
            )

    for lang, cfg, id_type, token in SAMPLE_CASES:
        out = call(make_language(lang, cfg), token, id_type)
        ctx.sample({"language": lang, "config": cfg, "id_type": id_type, "input": token, "outcome": list(out)})

    ctx.stats.update(
        tokens_per_language_and_config=tokens // (len(LANGS) * len(CONFIGS)),
        core_tokens=len(core),
        reserved_words=len(words),
        reserved_patterns=len(configured_patterns()),
        len5_space=len5_space,
        len5_explored=len5_done,
        raised=raised,
        already_valid_inputs=already_valid,
        handler_calls=handlers,
        cross_process_comparisons=compared,
        determinism_subsample_tokens=len(dtoks),
        refusal_histories=hist,
        refusing_nodes=sorted(k for k, h in hist_nodes.items() if h["rows"]),
        refusal_reference_classes=len(hist_shapes),
        configuration_histories=pair_stats,
        outcome_classes=sorted(f"{l}:{''.join('SERP'[i] if b else '-' for i, b in enumerate(f))}:{sh}" for l, f, sh in classes),
    )
    cov = {
        "evaluations": evals,
        "distinct_nontrivial": nontrivial,
        "distinct_outcomes": len(classes),
        "cross_process_comparisons": compared,
        "refusal_history_followups": hist.get("followups", 0),
        "refusal_history_rows": hist.get("rows", 0),
        "configuration_histories": pair_stats["histories"],
        "configuration_history_comparisons": pair_stats["comparisons"],
        "rule": "one evaluation = one distinct (token, id_type, language, configuration) tuple passed to the real "
        "Language.filter_id (called twice: cold + warm cache) and judged by the configuration-derived oracle; tokens are "
        "de-duplicated so every tuple is counted once; non-trivial = the call did not return its input unchanged "
        "(encoded, stropped, rewritten by a failure handler, or raised); distinct_outcomes = distinct (language, "
        "input facts [Syntax ok/needs Encoding/Reserved word/reserved Pattern], result shape) classes; the history families are "
        "counted separately and not as evaluations: refusal_history_followups = calls made directly after a refused call and compared "
        "with the outcome of the same call on an object that never refused, configuration_history_comparisons = calls on a language "
        "compared with the same call on the same (language, configuration) created first in its process",
        "bound_completed": f"all {len(ALPHABET)}-symbol strings of length 1..{CORE_MAX_LEN} + {len(words)} reserved words x variants + "
        f"witness/near-miss per reserved pattern ({len(configured_patterns())} patterns) + exotic strings len<=3 "
        f"({len(core)} core tokens); length {FULL_LEN}: {len5_done}/{len5_space} strings; x {len(ID_TYPES)} id types x "
        f"{len(LANGS)} languages x {len(CONFIGS)} configurations; determinism: {len(dtoks)} tokens x all id types/languages/"
        f"configurations in {len(CHILDREN)} fresh processes; histories on one object: {hist.get('rows', 0)} refused calls "
        f"({hist.get('deep_rows', 0)} with the full follower set) on {len([1 for h in hist_nodes.values() if h['rows']])} of "
        f"{len(hist_nodes)} language x configuration nodes, {hist.get('followups', 0)} follower calls each directly after a "
        f"refusal; histories in one process: {pair_stats['histories']} of {len(pair_nodes(False)) ** 2} ordered pairs of "
        f"(language, configuration) x {len(pair_tokens())} tokens x {len(ID_TYPES)} id types, each pair in its own process",
        "exhaustive": bool(ctx.thorough),
    }
    return ctx.finish(
        "exploration",
        cov,
        [
            "the 12-symbol alphabet + reserved-word variants + pattern witnesses/near-misses + 13 exotic code points stand for all unicode strings; length bound 5",
            "reserved-ness is read from properties.yaml of the tree under test (+ override dict) and Python's keyword.kwlist/dir(builtins) of the running interpreter; the YAML parser and `re` are trusted",
            "reserved patterns are applied with re.match semantics (all configured patterns are ^-anchored)",
            "id_type `any` = patterns of every category (filter_id docstring / DESIGN C09); `path` has no category of its own, so only `all` patterns are demanded",
            "with enable_stropping=false only syntax validity, determinism and identity on already-valid unreserved inputs are demanded",
            "an exception of any type counts as 'raises an error' (allowed), except for inputs that are already valid",
            "histories: 'depends only on the input' is read as: the outcome (value, or the type of the error) of a call equals the outcome of "
            "the same call on a fresh language object of the same configuration / in a process where that language is the first one; the "
            "reference objects of family (6) have only successful calls in their history (a reported difference is re-executed against a really fresh object)",
            "a process forked from a freshly started interpreter that has only imported nunavut.lang stands for a fresh process",
        ],
        min_outcomes=("distinct_outcomes", 20),
    )


def _replay_oracle(case: dict) -> typing.Tuple[Outcome, typing.List[typing.Tuple[str, str, str]]]:
    spec = Spec(case["lang"], case["config"])
    lo = make_language(case["lang"], case["config"])
    out = call(lo, case["token"], case["id_type"])
    again = call(lo, case["token"], case["id_type"])
    f = spec.facts(case["token"], case["id_type"])
    v = judge(spec, case["token"], case["id_type"], out, f)
    if again != out:
        v.append(("cold_warm_differ", "lru_cache", f"first call {out!r}, second call {again!r}"))
    return out, v


def _replay_history(case: dict) -> typing.Tuple[Outcome, Outcome, typing.List[typing.Tuple[str, str, str]]]:
    """(outcome after the recorded call history on one object, outcome on a fresh object, oracle verdict on the former)."""
    spec = Spec(case["lang"], case["config"])
    lo = make_language(case["lang"], case["config"])
    out: Outcome = ("bad", "empty history")
    for id_type in case["history"]:
        out = call(lo, case["token"], id_type)
    fresh = call(make_language(case["lang"], case["config"]), case["token"], case["history"][-1])
    f = spec.facts(case["token"], case["history"][-1])
    return out, fresh, judge(spec, case["token"], case["history"][-1], out, f)


def _replay_refusal(case: dict) -> int:
    lang, cfg, refused, token, id_type = case["lang"], case["config"], case["refused"], case["token"], case["id_type"]
    spec = Spec(lang, cfg)
    first, after, alone = two_step(lang, cfg, refused, token, id_type)
    how = f"directly after filter_id({refused[0]!r}, {refused[1]!r}) -> {first!r} on the same object"
    if after == alone and case.get("row"):
        fol = case["follower"]
        deep = case["row"] == "deep"
        if (token, id_type) == tuple(fol):
            after = chain(lang, cfg, refused, deep, (token, id_type))
        else:  # the refused call itself, repeated in the chain
            lo = make_language(lang, cfg)
            for f in hist_followers(deep, refused[0]):
                for i in ID_TYPES:
                    after = call(lo, refused[0], refused[1])
                    if (f, i) == tuple(fol):
                        break
                    call(lo, f, i)
                else:
                    continue
                break
        how = f"in the history (filter_id({refused[0]!r}, {refused[1]!r}) ; follower)* of the {case['row']} row at follower {fol}"
    print(f"[{lang}/{cfg}] filter_id({token!r}, {id_type!r}) on a fresh object -> {alone!r}")
    print(f"  {how} -> {after!r}")
    rc = 0
    if after != alone:
        print("  violates: the result depends on earlier calls, not only on the input")
        rc = 1
    for kind, feature, what in judge(spec, token, id_type, after, spec.facts(token, id_type)):
        print(f"  violates: {kind}/{feature}: {what}")
        rc = 1
    return rc


def _replay_config_history(ctx: Ctx, case: dict) -> int:
    x, y, token, id_type = tuple(case["first"]), tuple(case["second"]), case["token"], case["id_type"]
    got = run_pairs(ctx.scratch, "replay", [(x, y), (y, y)], [token])
    idx = ID_TYPES.index(id_type)
    after, alone = tuple(got[0][1][idx]), tuple(got[1][0][idx])
    spec = Spec(y[0], y[1])
    print(f"[{y[0]}/{y[1]}] filter_id({token!r}, {id_type!r}) with the language created first in its process -> {alone!r}")
    print(f"  created and used after a {x[0]}/{x[1]} language in the same process -> {after!r}")
    rc = 0
    if after != alone:
        print("  violates: the result depends on what the process did before, not only on the input and the configuration")
        rc = 1
    for kind, feature, what in judge(spec, token, id_type, after, spec.facts(token, id_type)):
        print(f"  violates: {kind}/{feature}: {what}")
        rc = 1
    return rc


def replay(ctx: Ctx, case: dict) -> int:
    if case.get("mode") in ("refusal_history", "config_history"):
        rc = _replay_refusal(case) if case["mode"] == "refusal_history" else _replay_config_history(ctx, case)
        if rc == 0:
            print("  satisfies the statement")
        return rc
    if case.get("mode") == "history":
        with_history, fresh, v = _replay_history(case)
        print(f"[{case['lang']}/{case['config']}] filter_id({case['token']!r}, t) for t in {case['history']} on one object -> {with_history!r}")
        print(f"  on a fresh object filter_id({case['token']!r}, {case['history'][-1]!r}) -> {fresh!r}")
        for kind, feature, what in v:
            print(f"  violates: {kind}/{feature}: {what}")
        if with_history != fresh:
            print("  violates: the result depends on earlier calls, not only on the input")
        return 1 if (v or with_history != fresh) else 0
    out, v = _replay_oracle(case)
    print(f"[{case['lang']}/{case['config']}/{case['id_type']}] filter_id({case['token']!r}) -> {out!r}")
    rc = 0
    for kind, feature, what in v:
        print(f"  violates: {kind}/{feature}: {what}")
        rc = 1
    if case.get("mode") == "determinism":
        kids = [
            (name, *spawn_child(ctx.scratch, name, seed, order, [case["token"]], [case["lang"]], [case["config"]]))
            for name, seed, order in CHILDREN
        ]
        idx = ID_TYPES.index(case["id_type"])
        for name, p, out_path in kids:
            doc = collect_child(p, out_path, name)
            theirs = doc["results"][f"{case['lang']}|{case['config']}"][idx]
            print(f"  fresh process {name}: {theirs!r}" + ("" if list(theirs) == list(out) else "   <-- differs"))
            if list(theirs) != list(out) or doc["self_diff"]:
                rc = 1
    if case.get("mode") == "optimised":
        kids = [
            (name, *spawn_child(ctx.scratch, name, CHILDREN[0][1], "fwd", [case["token"]], [case["lang"]], [case["config"]], optimize=opt))
            for name, opt in (("plain-interpreter", False), ("optimised-interpreter", True))
        ]
        idx = ID_TYPES.index(case["id_type"])
        got = []
        for name, p, out_path in kids:
            doc = collect_child(p, out_path, name)
            got.append(list(doc["results"][f"{case['lang']}|{case['config']}"][idx]))
            print(f"  {name}: {got[-1]!r}")
        if got[0] != got[1]:
            rc = 1
    if rc == 0:
        print("  satisfies the statement")
    return rc
